(* C20 — the parser against the RFC 7233 grammar, stated without reusing the
   parser's own functions on the specification side: a header written as

       "bytes=" spec *( "," spec )
       spec = [pad] first [pad] "-" [pad] last [pad]  |  [pad] first [pad] "-" [pad]  |  [pad] "-" [pad] n [pad]

   (numbers in decimal, pad = ASCII white space) is read, by the Go-shaped
   transcription, as exactly that list of (first,last) / (first,) / (,n), and
   therefore answered with the RFC resolution of each of them. *)
From Coq Require Import List ZArith NArith Ascii String Bool Lia.
From Martian.C20 Require Import Model Proofs_Base Proofs_Dec.
Import ListNotations.
Open Scope Z_scope.

Definition is_digit (c : ascii) : bool := (48 <=? code c) && (code c <=? 57).
Definition is_pad (p : bytes) : bool := forallb (fun c => sp1 (code c)) p.

(* ---------------------------------------------------------------- spaces *)

Lemma digit_not_sp1 : forall c, is_digit c = true -> sp1 (code c) = false.
Proof.
  intros c H. unfold is_digit in H. apply andb_true_iff in H as [H1 H2].
  apply Z.leb_le in H1, H2. unfold sp1.
  destruct (sp1 (code c)) eqn:E; [|unfold sp1 in E; exact E].
  unfold sp1 in E. rewrite orb_true_iff, andb_true_iff, !Z.leb_le, Z.eqb_eq in E. lia.
Qed.

Lemma sp2_first_small : forall a b, a < 128 -> sp2 a b = false.
Proof.
  intros a b H. destruct (sp2 a b) eqn:E; [|reflexivity].
  unfold sp2 in E. rewrite andb_true_iff, Z.eqb_eq in E. lia.
Qed.

Lemma sp2_second_small : forall a b, b < 128 -> sp2 a b = false.
Proof.
  intros a b H. destruct (sp2 a b) eqn:E; [|reflexivity].
  unfold sp2 in E. rewrite andb_true_iff, orb_true_iff, !Z.eqb_eq in E. lia.
Qed.

Lemma sp3_first_small : forall a b c, a < 128 -> sp3 a b c = false.
Proof.
  intros a b c H. destruct (sp3 a b c) eqn:E; [|reflexivity].
  unfold sp3 in E. rewrite !orb_true_iff, !andb_true_iff, !Z.eqb_eq in E. lia.
Qed.

Lemma sp3_third_small : forall a b c, c < 128 -> sp3 a b c = false.
Proof.
  intros a b c H. destruct (sp3 a b c) eqn:E; [|reflexivity].
  unfold sp3 in E. rewrite !orb_true_iff, !andb_true_iff, !orb_true_iff, !andb_true_iff, !Z.eqb_eq, !Z.leb_le in E. lia.
Qed.

Lemma digit_small : forall c, is_digit c = true -> code c < 128.
Proof.
  intros c H. unfold is_digit in H. apply andb_true_iff in H as [_ H2]. apply Z.leb_le in H2. lia.
Qed.

(* a string that starts with a digit is not trimmed on that side *)
Lemma trim_space_l_digit : forall c r, is_digit c = true -> trim_space_l (c :: r) = c :: r.
Proof.
  intros c r H. cbn [trim_space_l]. rewrite (digit_not_sp1 c H).
  pose proof (digit_small c H) as Hs.
  destruct r as [|b r2]; [reflexivity|]. rewrite (sp2_first_small _ _ Hs).
  destruct r2 as [|d r3]; [reflexivity|]. now rewrite (sp3_first_small _ _ _ Hs).
Qed.

Lemma trim_space_r_digit : forall c r, is_digit c = true -> trim_space_r (c :: r) = c :: r.
Proof.
  intros c r H. cbn [trim_space_r]. rewrite (digit_not_sp1 c H).
  pose proof (digit_small c H) as Hs.
  destruct r as [|b r2]; [reflexivity|]. rewrite (sp2_second_small _ _ Hs).
  destruct r2 as [|d r3]; [reflexivity|]. now rewrite (sp3_third_small _ _ _ Hs).
Qed.

Lemma trim_space_l_pad : forall p s, is_pad p = true -> trim_space_l (p ++ s) = trim_space_l s.
Proof.
  induction p as [|c p IH]; intros s H; [reflexivity|].
  cbn in H. apply andb_true_iff in H as [H1 H2].
  change ((c :: p) ++ s) with (c :: (p ++ s)). cbn [trim_space_l]. rewrite H1. now apply IH.
Qed.

Lemma trim_space_r_pad : forall p s, is_pad p = true -> trim_space_r (p ++ s) = trim_space_r s.
Proof.
  induction p as [|c p IH]; intros s H; [reflexivity|].
  cbn in H. apply andb_true_iff in H as [H1 H2].
  change ((c :: p) ++ s) with (c :: (p ++ s)). cbn [trim_space_r]. rewrite H1. now apply IH.
Qed.

Lemma is_pad_rev : forall p, is_pad p = true -> is_pad (rev p) = true.
Proof.
  intros p H. unfold is_pad in *. rewrite forallb_forall in *. intros x Hx.
  apply H. now apply in_rev.
Qed.

Definition all_digits (s : bytes) : Prop := s <> [] /\ Forall (fun c => is_digit c = true) s.

(* padding around a digit string is trimmed, the digits stay *)
Theorem trim_space_padded : forall p1 d p2,
  is_pad p1 = true -> is_pad p2 = true -> all_digits d -> trim_space (p1 ++ d ++ p2) = d.
Proof.
  intros p1 d p2 H1 H2 [Hne Hd]. unfold trim_space.
  rewrite trim_space_l_pad by assumption.
  destruct d as [|c r]; [contradiction|].
  inversion Hd as [|? ? Hc Hr]; subst.
  change ((c :: r) ++ p2) with (c :: (r ++ p2)).
  rewrite trim_space_l_digit by assumption.
  change (c :: r ++ p2) with ((c :: r) ++ p2).
  rewrite rev_app_distr, trim_space_r_pad by (now apply is_pad_rev).
  destruct (rev (c :: r)) as [|l t] eqn:E.
  - apply (f_equal (@rev ascii)) in E. rewrite rev_involutive in E. discriminate.
  - assert (Hl : is_digit l = true).
    { assert (Hin : In l (c :: r)) by (apply in_rev; rewrite E; now left).
      rewrite Forall_forall in Hd. now apply Hd. }
    rewrite trim_space_r_digit by assumption. rewrite <- E. apply rev_involutive.
Qed.

Theorem trim_space_only_pad : forall p, is_pad p = true -> trim_space p = [].
Proof.
  intros p H. unfold trim_space.
  rewrite <- (app_nil_r p), trim_space_l_pad by assumption. reflexivity.
Qed.

(* ---------------------------------------------------------------- decimals *)

Lemma digit_char_is_digit : forall d, (d < 10)%N -> is_digit (digit_char d) = true.
Proof.
  intros d H. unfold is_digit, digit_char, code. rewrite N_ascii_embedding by lia.
  apply andb_true_iff. split; apply Z.leb_le; lia.
Qed.

Lemma dec_all_digits : forall z, 0 <= z -> all_digits (dec z).
Proof.
  intros z Hz. destruct z as [|p|p]; [| |lia].
  - split; [discriminate|]. repeat constructor.
  - cbn [dec]. destruct (dec_pos_head_digit p) as [c [r [E _]]]. split; [rewrite E; discriminate|].
    unfold dec_pos. destruct (digs_spec p) as [_ H2].
    apply Forall_forall. intros x Hx. apply in_rev, in_map_iff in Hx. destruct Hx as [d [Hd1 Hd2]].
    subst x. apply digit_char_is_digit. rewrite Forall_forall in H2. now apply H2.
Qed.

Lemma digits_no_char : forall s k, Forall (fun c => is_digit c = true) s ->
  is_digit k = false -> ~ In k s.
Proof.
  intros s k H Hk Hin. rewrite Forall_forall in H. apply H in Hin. congruence.
Qed.

Lemma pad_no_char : forall p k, is_pad p = true -> sp1 (code k) = false -> ~ In k p.
Proof.
  intros p k H Hk Hin. unfold is_pad in H. rewrite forallb_forall in H. apply H in Hin. congruence.
Qed.

Lemma not_in_app : forall {A} (x : A) a b, ~ In x a -> ~ In x b -> ~ In x (a ++ b).
Proof. intros A x a b Ha Hb H. apply in_app_or in H as [H|H]; contradiction. Qed.

(* ---------------------------------------------------------------- one spec *)

Record padding := mkPad { pd1 : bytes; pd2 : bytes; pd3 : bytes; pd4 : bytes }.

Definition pad_ok (p : padding) : Prop :=
  is_pad (pd1 p) = true /\ is_pad (pd2 p) = true /\ is_pad (pd3 p) = true /\ is_pad (pd4 p) = true.

Definition dash : ascii := "-"%char.
Definition comma : ascii := ","%char.

(* a byte-range-spec as the RFC writes it (with optional padding) *)
Definition write_spec (p : padding) (r : rspec) : bytes :=
  match r with
  | FromTo a b => (pd1 p ++ dec a ++ pd2 p) ++ dash :: (pd3 p ++ dec b ++ pd4 p)
  | From a => (pd1 p ++ dec a ++ pd2 p) ++ dash :: (pd3 p ++ pd4 p)
  | Suffix n => (pd1 p ++ pd2 p) ++ dash :: (pd3 p ++ dec n ++ pd4 p)
  end.

Definition spec_in_range (r : rspec) : Prop :=
  match r with
  | FromTo a b => 0 <= a <= max_int /\ 0 <= b <= max_int
  | From a => 0 <= a <= max_int
  | Suffix n => 0 <= n <= max_int
  end.

Lemma split_two : forall sep a b, ~ In sep a -> ~ In sep b -> split sep (a ++ sep :: b) = [a; b].
Proof.
  intros sep a b Ha Hb. rewrite split_app_sep, (split_no_sep_id sep a Ha), (split_no_sep_id sep b Hb).
  reflexivity.
Qed.

Lemma is_pad_app : forall a b, is_pad a = true -> is_pad b = true -> is_pad (a ++ b) = true.
Proof. intros a b Ha Hb. unfold is_pad in *. rewrite forallb_app. now rewrite Ha, Hb. Qed.

Lemma no_char_piece : forall k p1 d p2,
  sp1 (code k) = false -> is_digit k = false ->
  is_pad p1 = true -> is_pad p2 = true -> Forall (fun c => is_digit c = true) d ->
  ~ In k (p1 ++ d ++ p2).
Proof.
  intros k p1 d p2 Hk1 Hk2 H1 H2 Hd.
  apply not_in_app; [now apply pad_no_char|]. apply not_in_app; [now apply digits_no_char | now apply pad_no_char].
Qed.

Lemma min_int_neg : min_int <= 0. Proof. unfold min_int. lia. Qed.

(* the parser reads a written spec back *)
Theorem parse_written_spec : forall p r,
  pad_ok p -> spec_in_range r -> parse_spec (write_spec p r) = Some r.
Proof.
  intros [p1 p2 p3 p4] r [H1 [H2 [H3 H4]]] Hr. cbn [pd1 pd2 pd3 pd4] in *.
  assert (Kd1 : sp1 (code dash) = false) by reflexivity.
  assert (Kd2 : is_digit dash = false) by reflexivity.
  pose proof min_int_neg as Hm.
  unfold parse_spec, write_spec. cbn [pd1 pd2 pd3 pd4].
  destruct r as [a b|a|n]; cbn in Hr.
  - destruct Hr as [Ha Hb].
    destruct (dec_all_digits a ltac:(lia)) as [Hna Hda]. destruct (dec_all_digits b ltac:(lia)) as [Hnb Hdb].
    change "-"%char with dash.
    rewrite split_two by (apply no_char_piece; assumption).
    rewrite !trim_space_padded by (assumption || (split; assumption)).
    destruct (dec a) as [|c0 r0] eqn:Ea; [contradiction|]. cbn [is_nil]. rewrite <- Ea.
    rewrite (atoi_dec a) by lia.
    destruct (dec b) as [|c1 r1] eqn:Eb; [contradiction|]. cbn [is_nil]. rewrite <- Eb.
    now rewrite (atoi_dec b) by lia.
  - destruct (dec_all_digits a ltac:(lia)) as [Hna Hda].
    change "-"%char with dash.
    rewrite split_two; [|apply no_char_piece; assumption
                        |apply not_in_app; apply pad_no_char; assumption].
    rewrite trim_space_padded by (assumption || (split; assumption)).
    rewrite (trim_space_only_pad (p3 ++ p4)) by (now apply is_pad_app).
    destruct (dec a) as [|c0 r0] eqn:Ea; [contradiction|]. cbn [is_nil]. rewrite <- Ea.
    now rewrite (atoi_dec a) by lia.
  - destruct (dec_all_digits n ltac:(lia)) as [Hnn Hdn].
    change "-"%char with dash.
    rewrite split_two; [|apply not_in_app; apply pad_no_char; assumption
                        |apply no_char_piece; assumption].
    rewrite (trim_space_only_pad (p1 ++ p2)) by (now apply is_pad_app).
    rewrite trim_space_padded by (assumption || (split; assumption)).
    cbn [is_nil]. now rewrite (atoi_dec n) by lia.
Qed.

(* ---------------------------------------------------------------- the header *)

Definition write_header (specs : list (padding * rspec)) : bytes :=
  s2l "bytes=" ++ join_with comma (map (fun pr => write_spec (fst pr) (snd pr)) specs).

Lemma written_spec_no_comma : forall p r, pad_ok p -> spec_in_range r -> ~ In comma (write_spec p r).
Proof.
  intros [p1 p2 p3 p4] r [H1 [H2 [H3 H4]]] Hr. cbn [pd1 pd2 pd3 pd4] in *.
  assert (Kc1 : sp1 (code comma) = false) by reflexivity.
  assert (Kc2 : is_digit comma = false) by reflexivity.
  unfold write_spec. cbn [pd1 pd2 pd3 pd4].
  destruct r as [a b|a|n]; cbn in Hr.
  - destruct Hr as [Ha Hb].
    destruct (dec_all_digits a ltac:(lia)) as [_ Hda]. destruct (dec_all_digits b ltac:(lia)) as [_ Hdb].
    apply not_in_app; [now apply no_char_piece|].
    intros [E|Hin]; [discriminate|]. revert Hin. now apply no_char_piece.
  - destruct (dec_all_digits a ltac:(lia)) as [_ Hda].
    apply not_in_app; [now apply no_char_piece|].
    intros [E|Hin]; [discriminate|]. revert Hin. apply not_in_app; now apply pad_no_char.
  - destruct (dec_all_digits n ltac:(lia)) as [_ Hdn].
    apply not_in_app; [apply not_in_app; now apply pad_no_char|].
    intros [E|Hin]; [discriminate|]. revert Hin. now apply no_char_piece.
Qed.

(* the first byte of a written spec is white space, a digit or "-": TrimLeft's
   cutset "bytes=" stops there *)
Definition stops_cutset (c : ascii) : Prop := in_set c (s2l "bytes=") = false.

Lemma in_set_code : forall c cut, in_set c cut = true -> exists k, In k cut /\ code c = code k.
Proof.
  intros c cut H. unfold in_set in H. apply existsb_exists in H as [k [Hk E]].
  apply ceq_eq in E. subst. now exists k.
Qed.

Lemma cutset_codes : forall k, In k (s2l "bytes=") -> code k = 98 \/ code k = 121 \/ code k = 116 \/ code k = 101 \/ code k = 115 \/ code k = 61.
Proof.
  intros k H. cbn in H. repeat (destruct H as [H|H]; [subst k; cbn; auto 10|]). contradiction.
Qed.

Lemma pad_char_stops : forall c, sp1 (code c) = true -> stops_cutset c.
Proof.
  intros c H. unfold stops_cutset. destruct (in_set c (s2l "bytes=")) eqn:E; [|reflexivity].
  apply in_set_code in E as [k [Hk Hc]]. apply cutset_codes in Hk.
  unfold sp1 in H. rewrite orb_true_iff, andb_true_iff, !Z.leb_le, Z.eqb_eq in H. lia.
Qed.

Lemma digit_char_stops : forall c, is_digit c = true -> stops_cutset c.
Proof.
  intros c H. unfold stops_cutset. destruct (in_set c (s2l "bytes=")) eqn:E; [|reflexivity].
  apply in_set_code in E as [k [Hk Hc]]. apply cutset_codes in Hk.
  unfold is_digit in H. rewrite andb_true_iff, !Z.leb_le in H. lia.
Qed.

Lemma dash_stops : stops_cutset dash. Proof. reflexivity. Qed.
Lemma comma_stops : stops_cutset comma. Proof. reflexivity. Qed.

Lemma head_app_stops : forall a b,
  (forall c r, a = c :: r -> stops_cutset c) -> (forall c r, b = c :: r -> stops_cutset c) ->
  forall c r, a ++ b = c :: r -> stops_cutset c.
Proof.
  intros a b Ha Hb c r H. destruct a as [|x a']; [now apply (Hb c r) | inversion H; subst; now apply (Ha c a')].
Qed.

Lemma pad_head_stops : forall p, is_pad p = true -> forall c r, p = c :: r -> stops_cutset c.
Proof.
  intros p H c r E. subst. cbn in H. apply andb_true_iff in H as [H _]. now apply pad_char_stops.
Qed.

Lemma digits_head_stops : forall d, Forall (fun c => is_digit c = true) d -> forall c r, d = c :: r -> stops_cutset c.
Proof. intros d H c r E. subst. inversion H; subst. now apply digit_char_stops. Qed.

Lemma written_spec_head : forall p r, pad_ok p -> spec_in_range r ->
  forall c t, write_spec p r = c :: t -> stops_cutset c.
Proof.
  intros [p1 p2 p3 p4] r [H1 [H2 [H3 H4]]] Hr. cbn [pd1 pd2 pd3 pd4] in *.
  assert (Hdash : forall x c t, dash :: x = c :: t -> stops_cutset c)
    by (intros x c t E; inversion E; subst; apply dash_stops).
  unfold write_spec. cbn [pd1 pd2 pd3 pd4].
  destruct r as [a b|a|n]; cbn in Hr.
  - destruct Hr as [Ha _]. destruct (dec_all_digits a ltac:(lia)) as [Hna Hda].
    apply head_app_stops; [|apply Hdash].
    apply head_app_stops; [now apply pad_head_stops|].
    intros c t E. destruct (dec a) as [|c0 r0]; [contradiction|]. inversion E; subst.
    inversion Hda; subst. now apply digit_char_stops.
  - destruct (dec_all_digits a ltac:(lia)) as [Hna Hda].
    apply head_app_stops; [|apply Hdash].
    apply head_app_stops; [now apply pad_head_stops|].
    intros c t E. destruct (dec a) as [|c0 r0]; [contradiction|]. inversion E; subst.
    inversion Hda; subst. now apply digit_char_stops.
  - apply head_app_stops; [|apply Hdash].
    apply head_app_stops; now apply pad_head_stops.
Qed.

Lemma trim_left_stops : forall cut s, (forall c r, s = c :: r -> in_set c cut = false) -> trim_left cut s = s.
Proof. intros cut [|c r] H; [reflexivity|]. cbn. now rewrite (H c r eq_refl). Qed.

Lemma trim_left_bytes_eq : forall s, (forall c r, s = c :: r -> stops_cutset c) ->
  trim_left (s2l "bytes=") (s2l "bytes=" ++ s) = s.
Proof.
  intros s H. cbn. now apply trim_left_stops.
Qed.

Lemma join_head : forall sep x l c r, join_with sep (x :: l) = c :: r ->
  (exists t, x = c :: t) \/ (x = [] /\ c = sep).
Proof.
  intros sep x l c r H. destruct x as [|y x'].
  - right. destruct l as [|z l']; cbn in H; [discriminate|]. inversion H. auto.
  - left. destruct l as [|z l']; cbn in H; inversion H; subst; eauto.
Qed.

Definition specs_ok (specs : list (padding * rspec)) : Prop :=
  Forall (fun pr => pad_ok (fst pr) /\ spec_in_range (snd pr)) specs.

(* the header loop sees exactly the written specs *)
Theorem range_specs_written : forall lower specs,
  specs <> [] -> specs_ok specs -> lower (write_header specs) = write_header specs ->
  range_specs lower (write_header specs) = map (fun pr => write_spec (fst pr) (snd pr)) specs.
Proof.
  intros lower specs Hne Hok Hlow. unfold range_specs. rewrite Hlow. unfold write_header.
  set (ws := map (fun pr => write_spec (fst pr) (snd pr)) specs).
  assert (Hws : ws <> []) by (subst ws; destruct specs; [contradiction | discriminate]).
  assert (Hnc : Forall (fun p => ~ In comma p) ws).
  { subst ws. apply Forall_forall. intros x Hx. apply in_map_iff in Hx as [[p r] [E Hin]]. subst x.
    unfold specs_ok in Hok. rewrite Forall_forall in Hok. destruct (Hok _ Hin). now apply written_spec_no_comma. }
  rewrite trim_left_bytes_eq.
  - change ","%char with comma. now apply split_join.
  - intros c r E. destruct ws as [|x l] eqn:Ew; [contradiction|].
    apply join_head in E as [[t E]|[E ->]]; [|apply comma_stops].
    destruct specs as [|[p0 r0] specs']; [contradiction|]. subst ws. cbn in Ew. inversion Ew; subst x.
    inversion Hok as [|? ? [Hp Hr] _]; subst. eapply written_spec_head; eassumption.
Qed.

(* a header in RFC form is resolved spec by spec with the RFC rules; any bad
   one refuses the whole header *)
Theorem requested_written_header : forall lower specs size,
  specs <> [] -> specs_ok specs -> lower (write_header specs) = write_header specs ->
  requested lower (write_header specs) size = map_opt (rfc_resolve size) (map snd specs).
Proof.
  intros lower specs size Hne Hok Hlow. unfold requested.
  rewrite (range_specs_written lower specs Hne Hok Hlow).
  clear Hne Hlow. induction specs as [|[p r] specs IH]; [reflexivity|].
  inversion Hok as [|? ? [Hp Hr] Hrest]; subst. cbn [map map_opt fst snd].
  rewrite (parse_written_spec p r Hp Hr). destruct (rfc_resolve size r); [|reflexivity].
  now rewrite (IH Hrest).
Qed.

(* a lower-case ASCII header is its own ToLower *)
Lemma ascii_lower_written : forall specs, specs_ok specs ->
  ascii_lower (write_header specs) = write_header specs.
Proof.
  intros specs Hok. unfold ascii_lower. rewrite <- (map_id (write_header specs)) at 2.
  apply map_ext_in. intros c Hc. unfold lower_byte.
  destruct ((65 <=? code c) && (code c <=? 90)) eqn:E; [|reflexivity]. exfalso.
  rewrite andb_true_iff, !Z.leb_le in E.
  unfold write_header in Hc. apply in_app_or in Hc as [Hc|Hc].
  - apply cutset_codes in Hc. lia.
  - (* every byte of a written spec is white space, a digit, "-" or "," *)
    assert (Hall : forall ws, Forall (fun w => Forall (fun k => code k < 65) w) ws ->
                   Forall (fun k => code k < 65) (join_with comma ws)).
    { induction ws as [|x l IHl]; intros Hw; [constructor|]. inversion Hw; subst.
      destruct l as [|y l']; [assumption|].
      change (join_with comma (x :: y :: l')) with (x ++ comma :: join_with comma (y :: l')).
      apply Forall_app. split; [assumption|]. constructor; [cbn; lia | now apply IHl]. }
    assert (Hw : Forall (fun w => Forall (fun k => code k < 65) w)
                        (map (fun pr => write_spec (fst pr) (snd pr)) specs)).
    { apply Forall_forall. intros w Hw. apply in_map_iff in Hw as [[p r] [Ew Hin]]. subst w.
      unfold specs_ok in Hok. rewrite Forall_forall in Hok. destruct (Hok _ Hin) as [[H1 [H2 [H3 H4]]] Hr].
      cbn [fst snd] in *.
      assert (Hpad : forall q, is_pad q = true -> Forall (fun k => code k < 65) q).
      { intros q Hq. apply Forall_forall. intros k Hk. unfold is_pad in Hq. rewrite forallb_forall in Hq.
        apply Hq in Hk. unfold sp1 in Hk. rewrite orb_true_iff, andb_true_iff, !Z.leb_le, Z.eqb_eq in Hk. lia. }
      assert (Hdig : forall z, 0 <= z -> Forall (fun k => code k < 65) (dec z)).
      { intros z Hz. destruct (dec_all_digits z Hz) as [_ Hd]. eapply Forall_impl; [|exact Hd].
        intros k Hk. unfold is_digit in Hk. rewrite andb_true_iff, !Z.leb_le in Hk. lia. }
      assert (Hdash : code dash < 65) by (cbn; lia).
      assert (Happ : forall x y, Forall (fun k => code k < 65) x -> Forall (fun k => code k < 65) y ->
                                 Forall (fun k => code k < 65) (x ++ y))
        by (intros x y Hx Hy; apply Forall_app; now split).
      unfold write_spec. destruct r as [a b|a|n]; cbn in Hr.
      - destruct Hr as [Ha Hb].
        apply Happ; [apply Happ; [now apply Hpad | apply Happ; [apply Hdig; lia | now apply Hpad]]|].
        constructor; [exact Hdash|].
        apply Happ; [now apply Hpad | apply Happ; [apply Hdig; lia | now apply Hpad]].
      - apply Happ; [apply Happ; [now apply Hpad | apply Happ; [apply Hdig; lia | now apply Hpad]]|].
        constructor; [exact Hdash|]. apply Happ; now apply Hpad.
      - apply Happ; [apply Happ; now apply Hpad|].
        constructor; [exact Hdash|].
        apply Happ; [now apply Hpad | apply Happ; [apply Hdig; lia | now apply Hpad]]. }
    specialize (Hall _ Hw). rewrite Forall_forall in Hall. apply Hall in Hc. lia.
Qed.
