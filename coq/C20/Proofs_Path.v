(* C20 — lexical path resolution of static.Modifier stays beneath its root. *)
From Coq Require Import List ZArith NArith Ascii String Bool Lia.
From Martian.C20 Require Import Model Proofs_Base.
Import ListNotations.

(* an ordinary path element: not empty, not "." or "..", no separator inside *)
Definition normal (seg : bytes) : Prop :=
  seg <> [] /\ seg <> dot /\ seg <> dotdot /\ ~ In slash seg.

Lemma clean_step_normal_push : forall r st seg, normal seg -> clean_step r st seg = seg :: st.
Proof.
  intros r st seg [H1 [H2 [H3 _]]]. unfold clean_step.
  apply is_nil_false in H1. apply beq_neq in H2, H3. now rewrite H1, H2, H3.
Qed.

(* rooted cleaning keeps only ordinary elements on the stack *)
Lemma clean_step_rooted_normal : forall st seg,
  ~ In slash seg -> Forall normal st -> Forall normal (clean_step true st seg).
Proof.
  intros st seg Hs Hst. unfold clean_step.
  destruct (is_nil seg) eqn:E1; cbn [orb]; [assumption|].
  destruct (beq seg dot) eqn:E2; [assumption|].
  destruct (beq seg dotdot) eqn:E3.
  - destruct st as [|top below]; [constructor|].
    inversion Hst as [|? ? Ht Hb]; subst.
    destruct (beq top dotdot) eqn:E4; [|assumption].
    apply beq_eq in E4. destruct Ht as [_ [_ [Ht _]]]. contradiction.
  - constructor; [|assumption].
    apply is_nil_false in E1. apply beq_neq in E2, E3. repeat split; assumption.
Qed.

Lemma fold_rooted_normal : forall segs st,
  Forall (fun p => ~ In slash p) segs -> Forall normal st ->
  Forall normal (fold_left (clean_step true) segs st).
Proof.
  induction segs as [|seg segs IH]; intros st Hs Hst; cbn; [assumption|].
  inversion Hs; subst. apply IH; [assumption|]. now apply clean_step_rooted_normal.
Qed.

Lemma Forall_rev : forall {A} (P : A -> Prop) l, Forall P l -> Forall P (rev l).
Proof.
  intros A P l H. apply Forall_forall. intros x Hx. apply in_rev in Hx.
  rewrite Forall_forall in H. now apply H.
Qed.

(* Clean("/" + p): rooted, ordinary elements only — no ".." survives *)
Theorem rooted_elems_normal : forall p,
  fst (elems (slash :: p)) = true /\ Forall normal (snd (elems (slash :: p))).
Proof.
  intros p. unfold elems. cbn [is_rooted fst snd]. rewrite ceq_refl. split; [reflexivity|].
  apply Forall_rev. apply fold_rooted_normal; [apply split_no_sep | constructor].
Qed.

Lemma fold_push_normal : forall r T st, Forall normal T ->
  fold_left (clean_step r) T st = rev T ++ st.
Proof.
  intros r T. induction T as [|seg T IH]; intros st H; cbn; [reflexivity|].
  inversion H; subst. rewrite clean_step_normal_push by assumption.
  rewrite IH by assumption. now rewrite <- app_assoc.
Qed.

Lemma clean_step_empty : forall r st, clean_step r st [] = st.
Proof. reflexivity. Qed.

Lemma is_rooted_app : forall a b, a <> [] -> is_rooted (a ++ b) = is_rooted a.
Proof. intros [|c a] b H; [contradiction | reflexivity]. Qed.

Lemma normal_no_slash : forall T, Forall normal T -> Forall (fun p => ~ In slash p) T.
Proof. intros T H. eapply Forall_impl; [|exact H]. intros a [_ [_ [_ Ha]]]. exact Ha. Qed.

(* joining a root with a cleaned rooted path: the root's canonical elements
   followed by that path's elements *)
Theorem join_rooted_clean : forall root T, root <> [] -> Forall normal T ->
  join2 root (render_path (true, T)) =
  render_path (fst (elems root), snd (elems root) ++ T).
Proof.
  intros root T Hr HT. unfold join2. destruct root as [|c0 root0] eqn:Eroot; [contradiction|].
  rewrite <- Eroot in *. cbn [render_path].
  unfold clean at 1. f_equal. unfold elems. cbn [fst snd].
  rewrite is_rooted_app by assumption. f_equal.
  rewrite split_app_sep. rewrite fold_left_app.
  change (split slash (slash :: join_with slash T)) with
    (if ceq slash slash then [] :: split slash (join_with slash T)
     else match split slash (join_with slash T) with p :: ps => (slash :: p) :: ps | [] => [[slash]] end).
  rewrite ceq_refl. cbn [fold_left]. rewrite clean_step_empty.
  destruct T as [|t T'].
  - cbn. now rewrite app_nil_r.
  - rewrite split_join; [|discriminate | now apply normal_no_slash].
    rewrite fold_push_normal by assumption.
    rewrite rev_app_distr, rev_involutive. reflexivity.
Qed.

(* the file the static modifier opens for a request path (no explicit mapping) *)
Theorem static_path_under_root : forall root urlpath, root <> [] ->
  exists T, Forall normal T /\
    req_path urlpath = render_path (true, T) /\
    static_path root [] urlpath = render_path (fst (elems root), snd (elems root) ++ T) /\
    clean root = render_path (fst (elems root), snd (elems root)).
Proof.
  intros root urlpath Hr.
  destruct (rooted_elems_normal urlpath) as [H1 H2].
  exists (snd (elems (slash :: urlpath))). split; [assumption|].
  assert (Hq : req_path urlpath = render_path (true, snd (elems (slash :: urlpath)))).
  { unfold req_path, clean. rewrite <- H1. now destruct (elems (slash :: urlpath)). }
  split; [assumption|]. split.
  - unfold static_path. cbn [assoc]. rewrite Hq. now apply join_rooted_clean.
  - unfold clean. now destruct (elems root).
Qed.

(* with an explicit mapping the file is the operator's choice under the root *)
Theorem static_path_explicit : forall root explicit urlpath v,
  assoc (req_path urlpath) explicit = Some v ->
  static_path root explicit urlpath = join2 root v.
Proof. intros root explicit urlpath v H. unfold static_path. now rewrite H. Qed.

Theorem static_path_not_explicit : forall root explicit urlpath,
  assoc (req_path urlpath) explicit = None ->
  static_path root explicit urlpath = static_path root [] urlpath.
Proof. intros root explicit urlpath H. unfold static_path. now rewrite H. Qed.

(* ---- string level, for an absolute root other than "/" ---- *)

Lemma join_with_app : forall sep S T, S <> [] -> T <> [] ->
  join_with sep (S ++ T) = join_with sep S ++ sep :: join_with sep T.
Proof.
  intros sep S. induction S as [|x S IH]; intros T HS HT; [contradiction|].
  destruct S as [|y S'].
  - cbn [app]. destruct T as [|t T']; [contradiction|]. reflexivity.
  - change ((x :: y :: S') ++ T) with (x :: (y :: S') ++ T).
    change (join_with sep (x :: (y :: S') ++ T)) with (x ++ sep :: join_with sep ((y :: S') ++ T)).
    rewrite IH by (assumption || discriminate).
    change (join_with sep (x :: y :: S')) with (x ++ sep :: join_with sep (y :: S')).
    now rewrite <- app_assoc.
Qed.

Theorem static_path_string : forall root urlpath,
  is_rooted root = true -> snd (elems root) <> [] ->
  static_path root [] urlpath = clean root \/
  exists T, Forall normal T /\ T <> [] /\
            static_path root [] urlpath = clean root ++ slash :: join_with slash T.
Proof.
  intros root urlpath Hroot Hne.
  assert (Hr : root <> []) by (destruct root; [discriminate | discriminate]).
  destruct (static_path_under_root root urlpath Hr) as [T [HT [_ [Hp Hc]]]].
  assert (Hf : fst (elems root) = true) by (unfold elems; cbn; exact Hroot).
  rewrite Hf in Hp, Hc. cbn [render_path] in Hp, Hc.
  destruct T as [|t T'].
  - left. rewrite Hp, Hc. now rewrite app_nil_r.
  - right. exists (t :: T'). split; [assumption|]. split; [discriminate|].
    rewrite Hp, Hc. rewrite join_with_app by (assumption || discriminate). reflexivity.
Qed.

(* why the repair roots the path first: the unrepaired expression
   Join(root, Clean(URL.Path)) leaves the root for an unrooted path *)
Example unrooted_clean_escapes :
  join2 (s2l "/srv/root") (clean (s2l "../secret.txt")) = s2l "/srv/secret.txt".
Proof. vm_compute. reflexivity. Qed.

Example rooted_clean_stays :
  static_path (s2l "/srv/root") [] (s2l "../secret.txt") = s2l "/srv/root/secret.txt" /\
  static_path (s2l "/srv/root") [] (s2l "/sub/../../..//%2e%2e/./a.txt") = s2l "/srv/root/%2e%2e/a.txt" /\
  static_path (s2l "/srv/root") [] (s2l "/../../etc/passwd") = s2l "/srv/root/etc/passwd" /\
  static_path (s2l "/srv/root") [] (s2l "") = s2l "/srv/root".
Proof. vm_compute. repeat split; reflexivity. Qed.

(* rooting changes nothing for the paths net/http produces (they start with "/") *)
Theorem rooting_noop : forall p, is_rooted p = true -> clean (slash :: p) = clean p.
Proof.
  intros p H. unfold clean. f_equal. unfold elems. rewrite H.
  assert (Hr : is_rooted (slash :: p) = true) by reflexivity.
  rewrite Hr.
  assert (Hs : split slash (slash :: p) = [] :: split slash p) by reflexivity.
  rewrite Hs. reflexivity.
Qed.

(* ---------------------------------------------------------------- the configured root *)

Lemma clean_step_nonempty : forall r st seg,
  Forall (fun e => e <> []) st -> Forall (fun e => e <> []) (clean_step r st seg).
Proof.
  intros r st seg H. unfold clean_step.
  destruct (is_nil seg) eqn:E1; cbn [orb]; [assumption|].
  destruct (beq seg dot); [assumption|].
  destruct (beq seg dotdot).
  - destruct st as [|top below].
    + destruct r; constructor; [discriminate | constructor].
    + inversion H; subst. destruct (beq top dotdot); [|assumption].
      constructor; [discriminate | assumption].
  - apply is_nil_false in E1. now constructor.
Qed.

Lemma fold_nonempty : forall r segs st,
  Forall (fun e => e <> []) st -> Forall (fun e => e <> []) (fold_left (clean_step r) segs st).
Proof.
  intros r segs. induction segs as [|seg segs IH]; intros st H; cbn; [assumption|].
  apply IH. now apply clean_step_nonempty.
Qed.

(* Clean never returns the empty string ("" cleans to ".") *)
Lemma join_with_nonempty : forall sep l, l <> [] -> Forall (fun e => e <> []) l -> join_with sep l <> [].
Proof.
  intros sep [|x l] Hne H; [contradiction|]. inversion H as [|? ? Hx Hl]; subst.
  destruct l as [|y l'].
  - exact Hx.
  - change (join_with sep (x :: y :: l')) with (x ++ sep :: join_with sep (y :: l')).
    destruct x; [contradiction | discriminate].
Qed.

Lemma render_unrooted_nonempty : forall L : list bytes, Forall (fun e => e <> []) L ->
  match L with [] => dot | _ => join_with slash L end <> [].
Proof.
  intros [|x l] H; [discriminate|]. apply join_with_nonempty; [discriminate | exact H].
Qed.

Theorem clean_nonempty : forall p, clean p <> [].
Proof.
  intros p. unfold clean, elems, render_path.
  destruct (is_rooted p); [discriminate|].
  apply render_unrooted_nonempty, Forall_rev, fold_nonempty. constructor.
Qed.

(* containment for EVERY configured root, the empty one included: the opened
   path is the kept root's canonical elements followed by ordinary elements *)
Theorem static_path_under_configured_root : forall rawroot urlpath,
  let root := configured_root rawroot in
  root <> [] /\
  exists T, Forall normal T /\
    static_path root [] urlpath = render_path (fst (elems root), snd (elems root) ++ T) /\
    clean root = render_path (fst (elems root), snd (elems root)).
Proof.
  intros rawroot urlpath root.
  assert (Hr : root <> []) by apply clean_nonempty.
  split; [exact Hr|].
  destruct (static_path_under_root root urlpath Hr) as [T [HT [_ [Hp Hc]]]].
  exists T. auto.
Qed.

(* string level for every shape of kept root *)
Theorem static_path_string_general : forall root urlpath, root <> [] ->
  exists T, Forall normal T /\
    match snd (elems root), T with
    | _, [] => static_path root [] urlpath = clean root
    | [], _ => (* root "/" or "." *)
        static_path root [] urlpath =
          if fst (elems root) then slash :: join_with slash T else join_with slash T
    | _, _ => static_path root [] urlpath = clean root ++ slash :: join_with slash T
    end.
Proof.
  intros root urlpath Hr.
  destruct (static_path_under_root root urlpath Hr) as [T [HT [_ [Hp Hc]]]].
  exists T. split; [assumption|].
  destruct (snd (elems root)) as [|s S] eqn:ES; destruct T as [|t T'].
  - rewrite Hp, Hc. reflexivity.
  - rewrite Hp. cbn [app render_path]. destruct (fst (elems root)); reflexivity.
  - rewrite Hp, Hc, app_nil_r. reflexivity.
  - rewrite Hp, Hc. cbn [render_path].
    destruct (fst (elems root)).
    + rewrite join_with_app by discriminate. reflexivity.
    + destruct ((s :: S) ++ t :: T') eqn:E; [discriminate|]. rewrite <- E.
      rewrite join_with_app by discriminate. reflexivity.
Qed.

(* why NewModifier must clean the root: with the raw empty string kept,
   filepath.Join drops the empty element and the request path is opened as an
   absolute path *)
Example unclean_empty_root_escapes :
  static_path [] [] (s2l "/etc/passwd") = s2l "/etc/passwd" /\
  static_path (configured_root []) [] (s2l "/etc/passwd") = s2l "etc/passwd" /\
  static_path (configured_root []) [] (s2l "/../../../etc/passwd") = s2l "etc/passwd" /\
  configured_root [] = s2l "." /\
  configured_root (s2l "./") = s2l "." /\
  configured_root (s2l "a/../b//") = s2l "b" /\
  static_path (configured_root (s2l "a//b/")) [] (s2l "/x/../y") = s2l "a/b/y" /\
  static_path (configured_root (s2l "/")) [] (s2l "/x/../y") = s2l "/y".
Proof. vm_compute. repeat split; reflexivity. Qed.
