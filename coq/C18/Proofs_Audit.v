(* C18 — proofs, part 5 (theorem audit): oracle equivalences for every decision
   the driver takes, the exact throttle actions validation builds, the
   index-based GetCurrentThrottle against the declarative [throttle_at]. *)
From Coq Require Import Ascii String.
From Coq Require Import List ZArith Bool Arith Lia Sorted.
From Martian.C18 Require Import Gen_Shape Model Proofs Proofs_Validate Proofs_Loop.
Import ListNotations.
Open Scope Z_scope.

(* ------------------------------------------------------------------ *)
(* oracle equivalences                                                  *)
(* ------------------------------------------------------------------ *)

Definition contains (t : throttle) (o : Z) : Prop :=
  t_start t <= o /\ (o < t_end t \/ t_end t = -1).

Lemma contains_dec t o :
  (t_start t <=? o) && ((o <? t_end t) || (t_end t =? -1)) = true <-> contains t o.
Proof.
  unfold contains. rewrite andb_true_iff, orb_true_iff, Z.leb_le, Z.ltb_lt, Z.eqb_eq. tauto.
Qed.

(* [throttle_at] returns the bandwidth of the FIRST throttle containing o *)
Lemma throttle_at_some : forall thr o bw, throttle_at thr o = Some bw ->
  exists l1 t l2, thr = l1 ++ t :: l2 /\ contains t o /\ t_bw t = bw /\ Forall (fun t' => ~ contains t' o) l1.
Proof.
  induction thr as [|t r IH]; intros o bw H; [discriminate|]. cbn [throttle_at] in H.
  destruct ((t_start t <=? o) && ((o <? t_end t) || (t_end t =? -1))) eqn:E.
  - inversion H; subst. exists [], t, r. split; [reflexivity|]. split; [apply contains_dec; exact E|]. split; [reflexivity | constructor].
  - destruct (IH o bw H) as [l1 [t' [l2 [E1 [E2 [E3 E4]]]]]]. exists (t :: l1), t', l2.
    split; [rewrite E1; reflexivity|]. split; [exact E2|]. split; [exact E3|].
    constructor; [|exact E4]. intros C. apply contains_dec in C. congruence.
Qed.

Lemma throttle_at_none : forall thr o, throttle_at thr o = None <-> Forall (fun t => ~ contains t o) thr.
Proof.
  induction thr as [|t r IH]; intros o; cbn [throttle_at]; [split; [constructor | reflexivity]|].
  destruct ((t_start t <=? o) && ((o <? t_end t) || (t_end t =? -1))) eqn:E.
  - split; [discriminate|]. intros F. inversion F; subst. exfalso. apply H1. apply contains_dec. exact E.
  - rewrite IH. split.
    + intros F. constructor; [|exact F]. intros C. apply contains_dec in C. congruence.
    + intros F. inversion F; assumption.
Qed.

(* throttles of an accepted shape: sorted by start, each ends (finitely) at or
   before the next starts: at most one contains a given offset *)
Fixpoint separated (l : list throttle) : Prop :=
  match l with
  | [] => True
  | t :: r => Forall (fun t' => t_end t <> -1 /\ t_end t <= t_start t') r /\ separated r
  end.

Lemma chain_separated : forall l, disjoint_chain l -> Sorted (le_key t_start) l -> separated l.
Proof.
  induction l as [|t r IH]; intros C S; [exact I|]. cbn [separated].
  inversion S as [|? ? Sr Hh]; subst.
  destruct r as [|t2 r2]; [split; [constructor | exact I]|].
  cbn [disjoint_chain] in C. destruct C as [C1 [C2 C3]].
  specialize (IH C3 Sr). split; [|exact IH].
  constructor; [split; assumption|].
  (* everything after t2 starts at or after t2's start *)
  assert (SS : StronglySorted (le_key t_start) (t2 :: r2)).
  { apply Sorted_StronglySorted; [|exact Sr]. intros x y z. unfold le_key. lia. }
  inversion SS as [|? ? _ Hf]; subst. eapply Forall_impl; [|exact Hf].
  intros t' Ht'. unfold le_key in Ht'. split; [exact C1 | lia].
Qed.

Lemma separated_unique : forall l t o, separated l -> In t l -> contains t o ->
  throttle_at l o = Some (t_bw t).
Proof.
  induction l as [|h r IH]; intros t o S Hin C; [destruct Hin|].
  cbn [separated] in S. destruct S as [S1 S2]. cbn [throttle_at].
  destruct Hin as [<-|Hin].
  - apply contains_dec in C. rewrite C. reflexivity.
  - destruct ((t_start h <=? o) && ((o <? t_end h) || (t_end h =? -1))) eqn:E.
    + exfalso. apply contains_dec in E. rewrite Forall_forall in S1. destruct (S1 t Hin) as [A B].
      unfold contains in *. lia.
    + apply IH; assumption.
Qed.

(* OK / PROPFAIL of the throttle_bandwidth clause *)
Lemma ok_chunk_bw_iff thr o cap : separated thr ->
  (ok_chunk_bw thr o cap = true <-> forall t, In t thr -> contains t o -> cap = t_bw t).
Proof.
  intros S. unfold ok_chunk_bw. destruct (throttle_at thr o) as [bw|] eqn:E.
  - destruct (throttle_at_some _ _ _ E) as [l1 [t [l2 [E1 [E2 [E3 _]]]]]].
    rewrite Z.eqb_eq. split.
    + intros -> t' Hin C. pose proof (separated_unique thr t' o S Hin C) as U. congruence.
    + intros H. rewrite <- E3. apply H; [rewrite E1; apply in_or_app; right; left; reflexivity | exact E2].
  - split; [|reflexivity]. intros _ t Hin C. apply throttle_at_none in E. rewrite Forall_forall in E. exfalso. exact (E t Hin C).
Qed.

Lemma ok_unshaped_iff data delivered cut :
  ok_unshaped data delivered cut = true <-> cut = false /\ delivered = data.
Proof. unfold ok_unshaped. rewrite andb_true_iff, negb_true_iff, bytes_eqb_eq. tauto. Qed.

Lemma ok_total_delay_iff evs el : ok_total_delay evs el = true <-> delays_before_last_byte evs <= el.
Proof. unfold ok_total_delay. apply Z.leb_le. Qed.

Lemma accepted_wrongly_iff c code :
  accepted_wrongly c code = true <->
  code = 200 /\ (c = None \/ exists c', c = Some c' /\ validate c' = None).
Proof.
  unfold accepted_wrongly. rewrite andb_true_iff, Z.eqb_eq. split; intros [A B]; (split; [exact A|]).
  - destruct c as [c'|]; [|left; reflexivity]. right. exists c'. split; [reflexivity|]. destruct (validate c'); [discriminate | reflexivity].
  - destruct B as [->|[c' [-> V]]]; [reflexivity | rewrite V; reflexivity].
Qed.

Lemma ok_validity_iff l c k v : ok_validity l c k v = true <-> v = conn_valid l c k.
Proof. unfold ok_validity. apply Bool.eqb_true_iff. Qed.

Lemma ok_no_leak_iff n : ok_no_leak n = true <-> n <= 0.
Proof. apply Z.leb_le. Qed.

Lemma ok_grant_iff c b : ok_grant c b = true <-> c <= b.
Proof. apply Z.leb_le. Qed.

Lemma bytes_inside_spec a b rs n : 0 <= n ->
  0 <= bytes_inside a b rs n <= n /\
  (a <= rs -> (b = -1 \/ rs + n <= b) -> bytes_inside a b rs n = n).
Proof.
  intros Hn. unfold bytes_inside.
  destruct (b =? -1) eqn:E; [apply Z.eqb_eq in E | apply Z.eqb_neq in E]; (split; [lia | intros A [B|B]; lia]).
Qed.

(* what [delays_before_last_byte] adds up *)
Fixpoint delays_all (evs : list ev) : Z :=
  match evs with
  | [] => 0
  | Sleep d :: r => 1000 * d + delays_all r
  | Latency d :: r => 1000 * d + delays_all r
  | _ :: r => delays_all r
  end.

Lemma delays_acc_until_emit : forall l acc p x xs r,
  delays_acc acc p (l ++ Emit (x :: xs) :: r) = delays_acc (acc + p + delays_all l) 0 r.
Proof.
  induction l as [|e l IH]; intros acc p x xs r.
  - cbn. f_equal. lia.
  - destruct e as [bs|d|d|b|]; cbn [app delays_acc delays_all]; try (rewrite IH; f_equal; lia).
    destruct bs; cbn [delays_acc]; rewrite IH; f_equal; lia.
Qed.

(* every Latency / Sleep before a delivered byte counts, in full *)
Lemma delays_before_a_byte pre x xs r :
  delays_before_last_byte (pre ++ Emit (x :: xs) :: r) = delays_acc (delays_all pre) 0 r.
Proof. unfold delays_before_last_byte. rewrite delays_acc_until_emit. f_equal. Qed.

Lemma delays_acc_ge : forall l acc p, 0 <= p -> Forall (fun e => match e with Sleep d | Latency d => 0 <= d | _ => True end) l ->
  acc <= delays_acc acc p l.
Proof.
  induction l as [|e l IH]; intros acc p Hp F; [cbn; lia|]. inversion F; subst.
  destruct e as [bs|d|d|b|]; cbn [delays_acc]; try (apply IH; [lia | assumption]).
  destruct bs; [apply IH; assumption|]. specialize (IH (acc + p) 0 (Z.le_refl 0) H2). lia.
Qed.

Lemma delays_before_a_byte_ge pre x xs r :
  Forall (fun e => match e with Sleep d | Latency d => 0 <= d | _ => True end) r ->
  delays_all pre <= delays_before_last_byte (pre ++ Emit (x :: xs) :: r).
Proof. intros F. rewrite delays_before_a_byte. apply delays_acc_ge; [lia | exact F]. Qed.

(* ------------------------------------------------------------------ *)
(* the throttle actions validation builds                               *)
(* ------------------------------------------------------------------ *)

Lemma thr_actions_exact dbw : forall l r, thr_actions l dbw = Some r ->
  (forall t, In t l -> In (bw_act (t_bw t) (t_start t)) r) /\
  (forall t, In t l -> t_end t <> -1 -> (forall t', In t' l -> t_start t' <> t_end t) -> In (bw_act dbw (t_end t)) r) /\
  (forall a, In a r -> exists t, In t l /\ (a = bw_act (t_bw t) (t_start t) \/ (a = bw_act dbw (t_end t) /\ t_end t <> -1))).
Proof.
  induction l as [|t rest IH]; intros r H.
  - cbn in H. inversion H; subst. repeat split; intros ? [].
  - cbn [thr_actions] in H. destruct rest as [|t2 rest'].
    + destruct (t_end t =? -1) eqn:E; inversion H; subst; [apply Z.eqb_eq in E | apply Z.eqb_neq in E].
      * split; [intros x [<-|[]]; left; reflexivity|]. split; [intros x [<-|[]] Hx; congruence|].
        intros a [<-|[]]. exists t. split; [left; reflexivity | left; reflexivity].
      * split; [intros x [<-|[]]; left; reflexivity|]. split; [intros x [<-|[]] _ _; right; left; reflexivity|].
        intros a [<-|[<-|[]]]; exists t; (split; [left; reflexivity|]); [left | right]; auto.
    + destruct ((t_end t >? t_start t2) || (t_end t =? -1)) eqn:E; [discriminate|].
      apply orb_false_iff in E. destruct E as [_ E2]. apply Z.eqb_neq in E2.
      destruct (thr_actions (t2 :: rest') dbw) as [r'|] eqn:R; [|discriminate].
      destruct (IH r' eq_refl) as [I1 [I2 I3]].
      destruct (t_end t =? t_start t2) eqn:Eadj; inversion H; subst; [apply Z.eqb_eq in Eadj | apply Z.eqb_neq in Eadj].
      * split; [intros x [<-|Hx]; [left; reflexivity | right; apply I1; exact Hx]|].
        split.
        -- intros x [<-|Hx] Hne Hns.
           ++ exfalso. apply (Hns t2); [right; left; reflexivity | symmetry; exact Eadj].
           ++ right. apply I2; [exact Hx | exact Hne | intros t' Ht'; apply Hns; right; exact Ht'].
        -- intros a [<-|Ha]; [exists t; split; [left; reflexivity | left; reflexivity]|].
           destruct (I3 a Ha) as [x [Hx Hv]]. exists x. split; [right; exact Hx | exact Hv].
      * split; [intros x [<-|Hx]; [left; reflexivity | right; right; apply I1; exact Hx]|].
        split.
        -- intros x [<-|Hx] Hne Hns; [right; left; reflexivity|].
           right. right. apply I2; [exact Hx | exact Hne | intros t' Ht'; apply Hns; right; exact Ht'].
        -- intros a [<-|[<-|Ha]].
           ++ exists t. split; [left; reflexivity | left; reflexivity].
           ++ exists t. split; [left; reflexivity | right; split; [reflexivity | exact E2]].
           ++ destruct (I3 a Ha) as [x [Hx Hv]]. exists x. split; [right; exact Hx | exact Hv].
Qed.

(* for an accepted shape: the stored throttles are separated, every throttle has
   its ChangeBandwidth(own bandwidth) at its start among the actions, its
   ChangeBandwidth(default) at its finite end unless the next throttle starts
   there, and there is no other bandwidth action *)
Lemma accepted_throttle_actions sc sh : validate_shape sc = Some sh ->
  separated (sh_thr sh) /\
  (forall t, In t (sh_thr sh) -> In (bw_act (t_bw t) (t_start t)) (sh_acts sh)) /\
  (forall t, In t (sh_thr sh) -> t_end t <> -1 -> (forall t', In t' (sh_thr sh) -> t_start t' <> t_end t) ->
     In (bw_act (sh_maxbw sh) (t_end t)) (sh_acts sh)) /\
  (forall a b, In a (sh_acts sh) -> kind a = KBw b ->
     exists t, In t (sh_thr sh) /\ (a = bw_act (t_bw t) (t_start t) \/ (a = bw_act (sh_maxbw sh) (t_end t) /\ t_end t <> -1))).
Proof.
  intros V. pose proof (validate_shape_ok sc sh V) as OK.
  destruct (so_disjoint sc sh OK) as [D1 D2].
  split; [apply chain_separated; assumption|].
  unfold validate_shape in V. destruct (sc_regex sc) as [|r0 rg]; [discriminate|].
  destruct (negb (sc_regex_ok sc)); [discriminate|]. destruct (sc_maxbw sc <? 0); [discriminate|].
  destruct (map_opt parse_throttle (sc_thr sc)) as [thr|]; [|discriminate].
  destruct (map_opt check_halt (sc_halts sc)) as [hs|] eqn:MH; [|discriminate].
  destruct (map_opt check_close (sc_closes sc)) as [cs|] eqn:MC; [|discriminate].
  set (maxbw := if sc_maxbw sc =? 0 then default_bw else sc_maxbw sc) in *.
  destruct (thr_actions (sort_by t_start thr) maxbw) as [tas|] eqn:TA; [|discriminate].
  inversion V; subst. cbn [sh_thr sh_acts sh_maxbw] in *.
  destruct (thr_actions_exact _ _ _ TA) as [X1 [X2 X3]].
  assert (Hin : forall a, In a tas -> In a (sort_by abyte (hs ++ cs ++ tas))).
  { intros a Ha. apply (Permutation.Permutation_in _ (sort_by_perm abyte _)). apply in_or_app. right. apply in_or_app. right. exact Ha. }
  split; [intros t Ht; apply Hin, X1; exact Ht|].
  split; [intros t Ht Hne Hns; apply Hin, X2; assumption|].
  intros a b Ha Hk. apply (Permutation.Permutation_in _ (Permutation.Permutation_sym (sort_by_perm abyte _))) in Ha.
  apply in_app_or in Ha. destruct Ha as [Ha|Ha]; [|apply in_app_or in Ha; destruct Ha as [Ha|Ha]].
  - destruct (map_opt_some _ _ _ MH) as [_ [M2 _]]. destruct (M2 a Ha) as [h [_ P]]. unfold check_halt in P.
    destruct ((hc_dur h <? 0) || (hc_byte h <? 0)); [discriminate|]. destruct (hc_count h =? 0); [discriminate|].
    inversion P; subst. discriminate.
  - destruct (map_opt_some _ _ _ MC) as [_ [M2 _]]. destruct (M2 a Ha) as [c [_ P]]. unfold check_close in P.
    destruct (cc_byte c <? 0); [discriminate|]. destruct (cc_count c =? 0); [discriminate|].
    inversion P; subst. discriminate.
  - exact (X3 a Ha).
Qed.

(* ------------------------------------------------------------------ *)
(* GetCurrentThrottle (index based) = throttle_at (declarative)         *)
(* ------------------------------------------------------------------ *)

Lemma search_gt_split : forall l start base,
  exists l1 l2, l = l1 ++ l2 /\ search_gt l start base = (base + length l1)%nat /\
    Forall (fun t => t_start t <= start) l1 /\
    match l2 with [] => True | t :: _ => start < t_start t end.
Proof.
  induction l as [|t l IH]; intros start base; cbn [search_gt].
  - exists [], []. split; [reflexivity|]. split; [cbn; lia|]. split; constructor.
  - destruct (t_start t >? start) eqn:E.
    + rewrite Z.gtb_ltb in E. apply Z.ltb_lt in E. exists [], (t :: l). split; [reflexivity|]. split; [cbn; lia|]. split; [constructor | exact E].
    + rewrite Z.gtb_ltb in E. apply Z.ltb_ge in E.
      destruct (IH start (S base)) as [l1 [l2 [E1 [E2 [E3 E4]]]]].
      exists (t :: l1), l2. split; [rewrite E1; reflexivity|]. split; [rewrite E2; cbn [length]; lia|].
      split; [constructor; assumption | exact E4].
Qed.

Lemma throttle_at_skip : forall l r o, Forall (fun t => ~ contains t o) l -> throttle_at (l ++ r) o = throttle_at r o.
Proof.
  induction l as [|t l IH]; intros r o F; [reflexivity|]. inversion F; subst. cbn [app throttle_at].
  destruct ((t_start t <=? o) && ((o <? t_end t) || (t_end t =? -1))) eqn:E; [exfalso; apply H1, contains_dec; exact E | apply IH; assumption].
Qed.

Lemma separated_app_l : forall l r, separated (l ++ r) ->
  separated r /\ Forall (fun t => Forall (fun t' => t_end t <> -1 /\ t_end t <= t_start t') r) l.
Proof.
  induction l as [|t l IH]; intros r S; [split; [exact S | constructor]|].
  cbn [app separated] in S. destruct S as [S1 S2]. destruct (IH r S2) as [A B]. split; [exact A|].
  constructor; [|exact B]. apply Forall_app in S1. tauto.
Qed.

Lemma current_throttle_is_throttle_at thr rs :
  separated thr -> Sorted (le_key t_start) thr ->
  current_throttle true thr rs = throttle_at thr rs.
Proof.
  intros Sep Srt. unfold current_throttle. cbn [negb].
  destruct thr as [|t0 thr0]; [reflexivity|]. set (thr := t0 :: thr0) in *.
  destruct (search_gt_split thr rs 0) as [l1 [l2 [E1 [E2 [E3 E4]]]]]. rewrite E2. cbn [Nat.add].
  (* nothing in l2 contains rs *)
  assert (N2 : Forall (fun t => ~ contains t rs) l2).
  { destruct l2 as [|h l2']; [constructor|].
    assert (SS : StronglySorted (le_key t_start) (h :: l2')).
    { apply (ssorted_app_r _ l1). rewrite <- E1. apply Sorted_StronglySorted; [|exact Srt]. intros x y z. unfold le_key. lia. }
    inversion SS as [|? ? _ Hf]; subst. constructor; [unfold contains; lia|].
    eapply Forall_impl; [|exact Hf]. intros t Ht. unfold le_key in Ht. unfold contains. lia. }
  destruct (rev l1) as [|t l1r] eqn:R.
  - (* every throttle starts after rs *)
    assert (l1 = []) as -> by (apply (f_equal (@rev _)) in R; rewrite rev_involutive in R; exact R).
    cbn [length]. rewrite E1. cbn [app]. symmetry. apply throttle_at_none. exact N2.
  - assert (El1 : l1 = rev l1r ++ [t]) by (apply (f_equal (@rev _)) in R; rewrite rev_involutive in R; exact R).
    rewrite El1, app_length. cbn [length]. rewrite Nat.add_1_r.
    assert (Ethr : thr = rev l1r ++ t :: l2) by (rewrite E1, El1, <- app_assoc; reflexivity).
    rewrite Ethr, nth_error_mid.
    rewrite Ethr in Sep. destruct (separated_app_l _ _ Sep) as [Sep2 Sep1].
    cbn [separated] in Sep2. destruct Sep2 as [Sep2 _].
    assert (Ht : t_start t <= rs).
    { rewrite Forall_forall in E3. apply E3. rewrite El1. apply in_or_app. right. left. reflexivity. }
    (* the throttles before t end at or before t's start *)
    assert (N1 : Forall (fun x => ~ contains x rs) (rev l1r)).
    { rewrite Forall_forall in Sep1 |- *. intros x Hx. specialize (Sep1 x Hx). inversion Sep1 as [|? ? [A B] _]; subst.
      unfold contains. lia. }
    rewrite (throttle_at_skip _ _ _ N1). cbn [throttle_at].
    rewrite (proj2 (throttle_at_none l2 rs) N2).
    assert (Hle : (t_start t <=? rs) = true) by (apply Z.leb_le; exact Ht). rewrite Hle. cbn [andb].
    rewrite app_length. cbn [length].
    destruct (Nat.eqb (S (length (rev l1r))) (length (rev l1r) + S (length l2))) eqn:EL.
    + rewrite Z.gtb_ltb. reflexivity.
    + (* t is not the last: its end is finite *)
      apply Nat.eqb_neq in EL. destruct l2 as [|h l2']; [cbn [length] in EL; lia|].
      inversion Sep2 as [|? ? [A _] _]; subst.
      assert ((t_end t =? -1) = false) as -> by (apply Z.eqb_neq; exact A).
      rewrite orb_false_r, Z.gtb_ltb. reflexivity.
Qed.

(* ------------------------------------------------------------------ *)
(* throttles of an accepted shape take effect where they start          *)
(* ------------------------------------------------------------------ *)

(* the response starts inside throttle t: the bandwidth is set when the context is set *)
Lemma range_start_inside_throttle sc sh t rs hl lt i :
  validate_shape sc = Some sh -> In t (sh_thr sh) -> contains t rs -> rs > -1 ->
  snd (open_ctx true (sh_acts sh) (sh_thr sh) true rs hl lt i) = [SetBw (t_bw t)].
Proof.
  intros V Hin C Hrs. destruct (accepted_throttle_actions sc sh V) as [Sep _].
  pose proof (validate_shape_ok sc sh V) as OK. destruct (so_disjoint sc sh OK) as [_ Srt].
  unfold open_ctx. assert (rs >? -1 = true) as -> by (apply Z.gtb_lt; lia). cbn [andb snd].
  rewrite (current_throttle_is_throttle_at _ rs Sep Srt), (separated_unique _ t rs Sep Hin C). reflexivity.
Qed.

(* the response starts at or before throttle t and a byte beyond its start is
   delivered: SetBw (t_bw t) occurs with exactly hl + (t_start t - rs) bytes before it *)
Lemma throttle_start_sets_bandwidth sc sh t rs hl lt i g ws s' evs r :
  validate_shape sc = Some sh -> In t (sh_thr sh) ->
  0 <= hl -> rs > -1 -> (forall k, 0 < fst (g k) /\ 0 < snd (g k)) ->
  run g (shaped_start (sh_acts sh) (sh_thr sh) rs hl lt i) ws = (s', evs, r) ->
  rs <= t_start t -> hl + (t_start t - rs) < Zlength (emitted evs) ->
  exists before after, evs = before ++ SetBw (t_bw t) :: after /\
    Zlength (emitted before) = hl + (t_start t - rs).
Proof.
  intros V Hin Hh Hrs Hg H Hle Hx.
  destruct (accepted_throttle_actions sc sh V) as [_ [A1 _]].
  pose proof (validate_shape_ok sc sh V) as OK.
  assert (Hs : StronglySorted by_byte (sh_acts sh)) by (apply sorted_by_byte_strong; exact (so_sorted sc sh OK)).
  exact (action_at_offset (sh_acts sh) (sh_thr sh) rs hl lt i g ws s' evs r (bw_act (t_bw t) (t_start t))
           Hs Hh Hrs Hg H (A1 t Hin) ltac:(discriminate) ltac:(discriminate) Hle Hx).
Qed.


(* ------------------------------------------------------------------ *)
(* sort.Search (binary) = the linear first-match scan, on sorted lists  *)
(* ------------------------------------------------------------------ *)

Lemma half_between i j : (i < j)%nat -> (i <= (i + j) / 2 < j)%nat.
Proof.
  intros H. pose proof (Nat.div_mod (i + j) 2 ltac:(lia)) as D.
  pose proof (Nat.mod_upper_bound (i + j) 2 ltac:(lia)) as M. lia.
Qed.

(* f is false below k and true from k up to n: the search returns k *)
Lemma bsearch_finds f n k : (k <= n)%nat ->
  (forall m, (m < k)%nat -> f m = false) -> (forall m, (k <= m < n)%nat -> f m = true) ->
  forall fuel i j, (i <= k <= j)%nat -> (j <= n)%nat -> (j - i <= fuel)%nat -> bsearch fuel f i j = k.
Proof.
  intros Hk Hlo Hhi. induction fuel as [|fu IH]; intros i j Hij Hjn Hf; cbn [bsearch].
  - lia.
  - destruct (Nat.ltb i j) eqn:E.
    + apply Nat.ltb_lt in E. pose proof (half_between i j E) as Hh.
      destruct (f ((i + j) / 2)%nat) eqn:Fh.
      * apply IH; try lia.
        destruct (Nat.lt_ge_cases ((i + j) / 2)%nat k) as [L|L]; [rewrite (Hlo _ L) in Fh; discriminate | lia].
      * apply IH; try lia.
        destruct (Nat.lt_ge_cases ((i + j) / 2)%nat k) as [L|L]; [lia|].
        rewrite (Hhi ((i + j) / 2)%nat) in Fh by lia. discriminate.
    + apply Nat.ltb_ge in E. lia.
Qed.

Lemma bsearch_ge_is_search_ge l start : StronglySorted by_byte l -> bsearch_ge l start = search_ge l start 0.
Proof.
  intros S. destruct (search_ge_split l start 0) as [l1 [l2 [E1 [E2 [E3 E4]]]]].
  rewrite E2. cbn [Nat.add]. unfold bsearch_ge.
  assert (Hlen : length l = (length l1 + length l2)%nat) by (rewrite E1, app_length; reflexivity).
  (* everything in l2 is at or beyond start *)
  assert (F2 : Forall (fun a => start <= abyte a) l2).
  { destruct l2 as [|h l2']; [constructor|]. constructor; [exact E4|].
    rewrite E1 in S. apply ssorted_app_r in S. inversion S as [|? ? _ Hf]; subst.
    eapply Forall_impl; [|exact Hf]. intros a Ha. unfold by_byte in Ha. lia. }
  apply (bsearch_finds _ (length l) (length l1)); try lia.
  - intros m Hm. rewrite E1, nth_error_app1 by exact Hm.
    destruct (nth_error l1 m) as [a|] eqn:N; [|apply nth_error_None in N; lia].
    apply nth_error_In in N. rewrite Forall_forall in E3. specialize (E3 a N).
    rewrite Z.geb_leb. apply Z.leb_gt. exact E3.
  - intros m Hm. rewrite E1, nth_error_app2 by lia.
    destruct (nth_error l2 (m - length l1)) as [a|] eqn:N; [|reflexivity].
    apply nth_error_In in N. rewrite Forall_forall in F2. specialize (F2 a N).
    rewrite Z.geb_leb. apply Z.leb_le. exact F2.
Qed.

(* ------------------------------------------------------------------ *)
(* GetRangeStart                                                        *)
(* ------------------------------------------------------------------ *)

Definition all_digits (d : list ascii) : Prop := Forall (fun c => is_digit c = true) d.

Lemma span_digits_app d r : all_digits d ->
  match r with [] => True | c :: _ => is_digit c = false end ->
  span_digits (d ++ r) = (d, r).
Proof.
  intros Hd Hr. induction Hd as [|c d Hc Hd IH]; cbn [app].
  - destruct r as [|c r']; [reflexivity|]. cbn [span_digits]. rewrite Hr. reflexivity.
  - cbn [span_digits]. rewrite Hc, IH. reflexivity.
Qed.

(* a well-formed single range "bytes a-b/t" (t a number or "*"): the start is a,
   read as an int64; -1 when it does not fit *)
Lemma range_start_wellformed (a b t : list ascii) rest :
  all_digits a -> a <> [] -> all_digits b -> b <> [] ->
  (match t with c :: _ => is_digit c = true \/ c = "*"%char | [] => False end) ->
  range_start 206 false (list_ascii_of_string "bytes " ++ a ++ "-"%char :: b ++ "/"%char :: t ++ rest)
  = match parse_int64 a with Some v => v | None => -1 end.
Proof.
  intros Ha Na Hb Nb Ht. unfold range_start. cbn [Z.eqb negb Pos.eqb].
  change (list_ascii_of_string "bytes ") with ["b"; "y"; "t"; "e"; "s"; " "]%char.
  cbn [app find_cr starts_with Ascii.eqb Bool.eqb andb skipn].
  unfold match_cr_at.
  rewrite (span_digits_app a ("-"%char :: b ++ "/"%char :: t ++ rest) Ha eq_refl).
  destruct a as [|a0 a']; [congruence|].
  rewrite (span_digits_app b ("/"%char :: t ++ rest) Hb eq_refl).
  destruct b as [|b0 b']; [congruence|].
  destruct t as [|c t']; [destruct Ht|]. cbn [app].
  assert (is_digit c || Ascii.eqb c "*"%char = true) as ->; [|reflexivity].
  destruct Ht as [Ht| ->]; [rewrite Ht; reflexivity | apply orb_true_r].
Qed.

Lemma range_start_not_partial status mp cr : status <> 206 -> range_start status mp cr = 0.
Proof. intros H. unfold range_start. apply Z.eqb_neq in H. rewrite H. reflexivity. Qed.

Lemma range_start_multipart cr : range_start 206 true cr = -1.
Proof. reflexivity. Qed.
