From Coq Require Import ExtrOcamlBasic ExtrOcamlString.
From Martian.Common Require Import ExtractBase.
From Martian.C18 Require Import Model.
Extraction Language OCaml.
Extraction "model.ml" base_anchor write run open_ctx respond invalidate set_acts set_off_gi emitted stamps
  first_close validate build_map post accept close_conn lstep lrun listener_init conn_valid
  lookup_shape conn_default_cap ok_prefix ok_close ok_halts gap_at ok_release ok_rate throttle_at ok_chunk_bw bytes_inside delays_before_last_byte ok_total_delay ok_unshaped accepted_wrongly ok_validity ok_no_leak ok_grant range_start
  bstep bpassed default_bw is_action_ev.
