(* C18 — proofs, part 1: bytes clause for every grant stream and write split,
   bucket rate bound, listener (reject / later connections / release),
   oracle equivalences. *)
From Coq Require Import List ZArith Bool Ascii Arith Lia.
From Martian.C18 Require Import Gen_Shape Model.
Import ListNotations.
Open Scope Z_scope.

(* ------------------------------------------------------------------ *)
(* small facts                                                          *)
(* ------------------------------------------------------------------ *)

Lemma emitted_app a b : emitted (a ++ b) = emitted a ++ emitted b.
Proof.
  induction a as [|e a IH]; [reflexivity|].
  destruct e; cbn [app emitted]; rewrite ?IH, ?app_assoc; reflexivity.
Qed.

Lemma take_split n b c r : take n b = Some (c, r) -> b = c ++ r.
Proof.
  unfold take. destruct ((0 <=? n) && (n <=? Zlength b)); [|discriminate].
  intros H. inversion H. symmetry. apply firstn_skipn.
Qed.

Lemma take_len n b c r : take n b = Some (c, r) -> Zlength c = n /\ 0 <= n <= Zlength b.
Proof.
  unfold take. destruct ((0 <=? n) && (n <=? Zlength b)) eqn:E; [|discriminate].
  apply andb_true_iff in E. destruct E as [E1 E2].
  apply Z.leb_le in E1. apply Z.leb_le in E2.
  intros H. inversion H. subst. split; [|lia].
  rewrite Zlength_correct in *. rewrite firstn_length. lia.
Qed.

Lemma bytes_eqb_eq a b : bytes_eqb a b = true <-> a = b.
Proof.
  revert b. induction a as [|x a IH]; destruct b as [|y b]; cbn [bytes_eqb]; try (split; congruence).
  rewrite andb_true_iff, Ascii.eqb_eq, IH. split; [intros [-> ->]; reflexivity | intros H; inversion H; auto].
Qed.

Lemma is_prefix_iff a b : is_prefix a b = true <-> exists rest, b = a ++ rest.
Proof.
  revert b. induction a as [|x a IH]; intros b; cbn [is_prefix].
  - split; [intros _; exists b; reflexivity | reflexivity].
  - destruct b as [|y b].
    + split; [discriminate | intros [r H]; discriminate].
    + rewrite andb_true_iff, Ascii.eqb_eq, IH. split.
      * intros [-> [r ->]]. exists r. reflexivity.
      * intros [r H]. inversion H. split; [reflexivity | exists r; reflexivity].
Qed.

(* ------------------------------------------------------------------ *)
(* bytes clause                                                         *)
(* ------------------------------------------------------------------ *)

Definition delivers (b : bytes) (evs : list ev) (r : res) : Prop :=
  exists rest, b = emitted evs ++ rest /\ (is_ok r = true -> rest = []).

Lemma default_loop_delivers fuel g : forall i b total i' evs r,
  default_loop fuel g i b total = (i', evs, r) -> delivers b evs r.
Proof.
  induction fuel as [|f IH]; intros i b total i' evs r H.
  - destruct b; cbn in H; inversion H; subst.
    + exists []. split; reflexivity.
    + exists (a :: b). split; [reflexivity | discriminate].
  - destruct b as [|x b']; [cbn in H; inversion H; exists []; split; reflexivity|].
    cbn [default_loop] in H.
    set (bb := x :: b') in *.
    set (mx := if fst (g i) >=? Zlength bb then Zlength bb else fst (g i)) in *.
    destruct (take mx bb) as [[chunk rest]|] eqn:T.
    + destruct (default_loop f g (S i) rest (total + mx)) as [[i2 evs2] r2] eqn:D.
      inversion H; subst. apply IH in D. destruct D as [rr [E1 E2]].
      exists rr. cbn [emitted]. apply take_split in T. rewrite T, E1, app_assoc. split; [reflexivity | exact E2].
    + inversion H; subst. exists bb. split; [reflexivity | discriminate].
Qed.

Lemma is_ok_shift r t :
  is_ok (match r with ROk n => ROk (t + n) | RClosed n => RClosed (t + n) | x => x end) = is_ok r.
Proof. destruct r; reflexivity. Qed.

Lemma body_loop_delivers fuel g : forall s b total s' evs r,
  body_loop fuel g s b total = (s', evs, r) -> delivers b evs r.
Proof.
  induction fuel as [|f IH]; intros s b total s' evs r H.
  - destruct b; cbn in H; inversion H; subst.
    + exists []. split; reflexivity.
    + exists (a :: b). split; [reflexivity | discriminate].
  - destruct b as [|x b']; [cbn in H; inversion H; exists []; split; reflexivity|].
    cbn [body_loop] in H.
    set (bb := x :: b') in *.
    set (amt := match next s with
                | Some (_, nb) => if nb - off s <=? Zlength bb then nb - off s else Zlength bb
                | None => Zlength bb end) in *.
    set (mx := nested (fst (g (gi s))) (snd (g (gi s))) amt) in *.
    destruct (take mx bb) as [[chunk rest]|] eqn:T;
      [|inversion H; subst; exists bb; split; [reflexivity | discriminate]].
    pose proof (take_split _ _ _ _ T) as Hsp.
    pose proof (take_len _ _ _ _ T) as [Hlen _].
    assert (Hev0 : forall tl, chunk ++ emitted tl = emitted ((if mx =? 0 then [] else [Emit chunk]) ++ tl)).
    { intros tl. destruct (mx =? 0) eqn:E0.
      - apply Z.eqb_eq in E0. rewrite E0 in Hlen. destruct chunk; [reflexivity|].
        rewrite Zlength_cons, Zlength_correct in Hlen. lia.
      - reflexivity. }
    (* the recursive continuation *)
    assert (Hcont : forall s1 extra s3 evs3 r3,
               (forall e, In e extra -> emitted [e] = []) ->
               body_loop f g s1 rest (total + mx) = (s3, evs3, r3) ->
               delivers bb ((if mx =? 0 then [] else [Emit chunk]) ++ extra ++ evs3) r3).
    { intros s1 extra s3 evs3 r3 Hex Hb. apply IH in Hb. destruct Hb as [rr [E1 E2]].
      exists rr. split; [|exact E2].
      rewrite <- Hev0, emitted_app.
      assert (emitted extra = []) as ->.
      { clear -Hex. induction extra as [|e ex IHx]; [reflexivity|].
        change (e :: ex) with ([e] ++ ex). rewrite emitted_app, (Hex e (or_introl eq_refl)).
        apply IHx. intros e' He'. apply Hex. right. exact He'. }
      cbn [app]. rewrite Hsp, E1, app_assoc. reflexivity. }
    cbn zeta in H.
    destruct (next (set_off_gi s (off s + mx) (if mx =? 0 then gi s else S (gi s)))) as [[ind nb]|] eqn:N.
    + destruct (off (set_off_gi s (off s + mx) (if mx =? 0 then gi s else S (gi s))) >=? nb) eqn:G.
      * destruct (negb (valid (set_off_gi s (off s + mx) (if mx =? 0 then gi s else S (gi s))))) eqn:V.
        -- destruct (default_loop (S (length rest)) g _ rest 0) as [[i2 evs2] r2] eqn:D.
           inversion H; subst. apply default_loop_delivers in D. destruct D as [rr [E1 E2]].
           exists rr. rewrite <- Hev0, Hsp, E1, app_assoc. split; [reflexivity|].
           rewrite is_ok_shift. exact E2.
        -- destruct (nth_error _ ind) as [a|] eqn:NE.
           ++ destruct (eff_count a =? 0) eqn:EC.
              ** destruct (body_loop f g _ rest (total + mx)) as [[s3 evs3] r3] eqn:B.
                 inversion H; subst. apply (Hcont _ [] _ _ _ (fun e F => match F with end) B).
              ** destruct (kind a) eqn:K.
                 --- destruct (body_loop f g _ rest (total + mx)) as [[s3 evs3] r3] eqn:B.
                     inversion H; subst. eapply (Hcont _ [ev_of (KHalt d)]); [|exact B].
                     intros e [<-|[]]. reflexivity.
                 --- inversion H; subst. exists rest. split; [|discriminate].
                     rewrite <- Hev0. cbn [emitted]. rewrite app_nil_r. exact Hsp.
                 --- destruct (body_loop f g _ rest (total + mx)) as [[s3 evs3] r3] eqn:B.
                     inversion H; subst. eapply (Hcont _ [ev_of (KBw b)]); [|exact B].
                     intros e [<-|[]]. reflexivity.
           ++ inversion H; subst. exists rest. split; [|discriminate].
              rewrite <- (app_nil_r (if mx =? 0 then [] else [Emit chunk])), <- Hev0.
              cbn [emitted]. rewrite app_nil_r. exact Hsp.
      * destruct (body_loop f g _ rest (total + mx)) as [[s3 evs3] r3] eqn:B.
        inversion H; subst. apply (Hcont _ [] _ _ _ (fun e F => match F with end) B).
    + destruct (body_loop f g _ rest (total + mx)) as [[s3 evs3] r3] eqn:B.
      inversion H; subst. apply (Hcont _ [] _ _ _ (fun e F => match F with end) B).
Qed.

Lemma emitted_lat s : emitted (lat_evs s) = [].
Proof. unfold lat_evs. destruct (lat s); reflexivity. Qed.

Lemma write_delivers g s b s' evs r :
  write g s b = (s', evs, r) -> delivers b evs r.
Proof.
  unfold write. intros H.
  destruct (negb (shaping s)).
  - destruct (default_loop (S (length b)) g (gi s) b 0) as [[i2 evs2] r2] eqn:D.
    inversion H; subst. apply default_loop_delivers in D. destruct D as [rr [E1 E2]].
    exists rr. rewrite emitted_app, emitted_lat. split; assumption.
  - destruct (0 <? hdr_left s).
    + destruct (take (Z.min (Zlength b) (hdr_left s)) b) as [[hd rest]|] eqn:T.
      * destruct (body_loop _ g _ rest _) as [[s2 evs2] r2] eqn:B.
        inversion H; subst. apply body_loop_delivers in B. destruct B as [rr [E1 E2]].
        exists rr. rewrite emitted_app, emitted_lat. cbn [app emitted].
        apply take_split in T. rewrite T, E1, app_assoc. split; [reflexivity | exact E2].
      * inversion H; subst. exists b. rewrite emitted_lat. split; [reflexivity | discriminate].
    + destruct (body_loop _ g _ b 0) as [[s2 evs2] r2] eqn:B.
      inversion H; subst. apply body_loop_delivers in B. destruct B as [rr [E1 E2]].
      exists rr. rewrite emitted_app, emitted_lat. split; assumption.
Qed.

(* All grant streams, all states (even ill-formed ones), all write sequences. *)
Lemma run_delivers g : forall ws s s' evs r,
  run g s ws = (s', evs, r) -> delivers (concat ws) evs r.
Proof.
  induction ws as [|w ws IH]; intros s s' evs r H.
  - cbn in H. inversion H; subst. exists []. split; reflexivity.
  - cbn [run] in H. destruct (write g s w) as [[s1 e1] r1] eqn:W.
    apply write_delivers in W. destruct W as [rr [E1 E2]].
    destruct (is_ok r1) eqn:OK.
    + specialize (E2 eq_refl). subst rr. rewrite app_nil_r in E1.
      destruct ws as [|w2 ws'].
      * injection H as _ <- <-. exists []. cbn [concat]. rewrite !app_nil_r. split; [exact E1 | reflexivity].
      * destruct (run g s1 (w2 :: ws')) as [[s2 e2] r2] eqn:R.
        injection H as _ <- <-. apply IH in R. destruct R as [rr2 [F1 F2]].
        exists rr2. cbn [concat] in *. rewrite emitted_app, E1, F1, app_assoc. split; [reflexivity | exact F2].
    + injection H as _ <- <-. exists (rr ++ concat ws). cbn [concat].
      rewrite E1, app_assoc. split; [reflexivity|]. rewrite OK. discriminate.
Qed.

(* ------------------------------------------------------------------ *)
(* unshaped contexts perform no action                                  *)
(* ------------------------------------------------------------------ *)

Lemma default_loop_no_action fuel g : forall i b total i' evs r,
  default_loop fuel g i b total = (i', evs, r) ->
  forallb (fun e => negb (is_action_ev e)) evs = true /\ (forall n, r <> RClosed n).
Proof.
  induction fuel as [|f IH]; intros i b total i' evs r H.
  - destruct b; cbn in H; inversion H; subst; split; try reflexivity; discriminate.
  - destruct b as [|x b']; [cbn in H; inversion H; subst; split; [reflexivity | discriminate]|].
    cbn [default_loop] in H.
    destruct (take _ (x :: b')) as [[chunk rest]|].
    + destruct (default_loop f g (S i) rest _) as [[i2 evs2] r2] eqn:D.
      inversion H; subst. apply IH in D. destruct D as [D1 D2]. split; [cbn; exact D1 | exact D2].
    + inversion H; subst. split; [reflexivity | discriminate].
Qed.

Lemma write_unshaped g s b s' evs r :
  shaping s = false -> write g s b = (s', evs, r) ->
  forallb (fun e => negb (is_action_ev e)) evs = true /\ (forall n, r <> RClosed n) /\ shaping s' = false.
Proof.
  intros Hs H. unfold write in H. rewrite Hs in H. cbn [negb] in H.
  destruct (default_loop _ g (gi s) b 0) as [[i2 evs2] r2] eqn:D.
  inversion H; subst. apply default_loop_no_action in D. destruct D as [D1 D2].
  split; [|split; [exact D2 | exact Hs]].
  rewrite forallb_app, D1, andb_true_r. unfold lat_evs. destruct (lat s); reflexivity.
Qed.

Lemma run_unshaped g : forall ws s s' evs r,
  shaping s = false -> run g s ws = (s', evs, r) ->
  forallb (fun e => negb (is_action_ev e)) evs = true /\ (forall n, r <> RClosed n).
Proof.
  induction ws as [|w ws IH]; intros s s' evs r Hs H.
  - cbn in H. inversion H; subst. split; [reflexivity | discriminate].
  - cbn [run] in H. destruct (write g s w) as [[s1 e1] r1] eqn:W.
    apply (write_unshaped _ _ _ _ _ _ Hs) in W. destruct W as [W1 [W2 W3]].
    destruct (is_ok r1).
    + destruct ws as [|w2 ws'].
      * inversion H; subst. split; assumption.
      * destruct (run g s1 (w2 :: ws')) as [[s2 e2] r2] eqn:R.
        inversion H; subst. apply (IH _ _ _ _ W3) in R. destruct R as [R1 R2].
        split; [rewrite forallb_app, W1, R1; reflexivity | exact R2].
    + inversion H; subst. split; assumption.
Qed.

(* proxy.go: URL does not match (or the range is invalid) -> unshaped *)
Lemma open_ctx_unmatched v acts thr rs hl lt i :
  shaping (fst (open_ctx v acts thr false rs hl lt i)) = false /\
  snd (open_ctx v acts thr false rs hl lt i) = [].
Proof. split; reflexivity. Qed.

Lemma open_ctx_bad_range v acts thr m rs hl lt i :
  rs <= -1 -> shaping (fst (open_ctx v acts thr m rs hl lt i)) = false.
Proof.
  intros H. unfold open_ctx. assert (rs >? -1 = false) as -> by (rewrite Z.gtb_ltb; apply Z.ltb_ge; lia).
  rewrite andb_false_r. reflexivity.
Qed.

(* a response that matches no shape is unshaped WHATEVER the previous response
   left in the connection's context (offset, pending action, counts) *)
Lemma respond_unmatched prev v acts thr rs hl :
  shaping (fst (respond prev v acts thr false rs hl)) = false /\
  next (fst (respond prev v acts thr false rs hl)) = None /\
  snd (respond prev v acts thr false rs hl) = [].
Proof. repeat split. Qed.

Lemma nonmatching_after_any_context g ws prev v acts thr rs hl s' evs r :
  run g (fst (respond prev v acts thr false rs hl)) ws = (s', evs, r) ->
  forallb (fun e => negb (is_action_ev e)) evs = true /\ (forall n, r <> RClosed n) /\
  exists rest, concat ws = emitted evs ++ rest /\ (is_ok r = true -> rest = []).
Proof.
  intros H.
  destruct (run_unshaped g ws _ _ _ _ (proj1 (respond_unmatched prev v acts thr rs hl)) H) as [A B].
  split; [exact A|]. split; [exact B|]. exact (run_delivers g ws _ _ _ _ H).
Qed.

(* ------------------------------------------------------------------ *)
(* bucket rate                                                          *)
(* ------------------------------------------------------------------ *)

Definition wants_nonneg (ops : list bop) : Prop :=
  Forall (fun o => match o with BFill w => 0 <= w | _ => True end) ops.

Lemma bpassed_bound : forall ops b,
  no_setcap ops = true -> wants_nonneg ops -> 0 <= fill b <= cap b ->
  bpassed b ops <= count_drains ops * cap b + (cap b - fill b).
Proof.
  induction ops as [|o ops IH]; intros b Hn Hw Hb.
  - cbn. unfold count_drains. cbn. lia.
  - cbn [no_setcap forallb] in Hn. apply andb_true_iff in Hn. destruct Hn as [Ho Hn].
    inversion Hw as [|? ? Hw1 Hw2]; subst.
    cbn [bpassed]. destruct o as [want| |c]; [| |discriminate].
    + cbn [bstep]. destruct (fill b <? cap b) eqn:E.
      * apply Z.ltb_lt in E.
        specialize (IH (mkB (cap b) (fill b + Z.min (cap b - fill b) want)) Hn Hw2).
        cbn [cap fill] in IH. unfold count_drains in *. cbn [filter]. lia.
      * specialize (IH b Hn Hw2 Hb). unfold count_drains in *. cbn [filter]. lia.
    + cbn [bstep]. specialize (IH (mkB (cap b) 0) Hn Hw2). cbn [cap fill] in IH.
      unfold count_drains in *. cbn [filter length]. rewrite Nat2Z.inj_succ. lia.
Qed.

(* each grant is at most the capacity *)
Lemma bstep_grant_le b o : 0 <= fill b -> snd (bstep b o) <= Z.max 0 (cap b).
Proof. intros H. destruct o; cbn [bstep]; [destruct (fill b <? cap b) eqn:E; cbn [snd]; [apply Z.ltb_lt in E|]|..]; cbn [snd]; lia. Qed.

(* SetCapacity starts a fresh epoch with an empty bucket *)
Lemma bstep_setcap b c : fst (bstep b (BSetCap c)) = mkB c 0.
Proof. reflexivity. Qed.

(* ------------------------------------------------------------------ *)
(* listener                                                             *)
(* ------------------------------------------------------------------ *)

Lemma post_rejected l c : validate c = None -> post l c = (l, OStatus 400).
Proof. intros H. unfold post. rewrite H. reflexivity. Qed.

Lemma post_accepted l c shs : validate c = Some shs ->
  let l' := fst (post l c) in
  snd (post l c) = OStatus 200 /\ l_active l' = build_map shs /\
  l_modified l' = S (l_modified l) /\ l_conns l' = l_conns l /\ l_live l' = l_live l.
Proof.
  intros H. unfold post. rewrite H.
  destruct (match cf_defaults c with Some d => d | None => (0, 0, 0) end) as [[up down] lt].
  cbn. repeat split.
Qed.

Fixpoint sum_buckets (cs : list conn) : Z :=
  match cs with [] => 0 | c :: r => c_nbuckets c + sum_buckets r end.

Definition LInv (l : listener) : Prop :=
  l_live l = sum_buckets (l_conns l) /\
  NoDup (map c_id (l_conns l)) /\
  Forall (fun c => (c_id c < l_nextid l)%nat /\ (c_est c <= l_modified l)%nat) (l_conns l).

Lemma linv_init : LInv listener_init.
Proof. repeat split; constructor. Qed.

Lemma sum_filter_remove id : forall cs c,
  NoDup (map c_id cs) ->
  filter (fun c => Nat.eqb (c_id c) id) cs = c :: nil \/ (exists r, filter (fun c => Nat.eqb (c_id c) id) cs = c :: r) ->
  sum_buckets (filter (fun c => negb (Nat.eqb (c_id c) id)) cs) = sum_buckets cs - c_nbuckets c.
Proof.
  induction cs as [|x cs IH]; intros c Hnd Hf.
  - cbn in Hf. destruct Hf as [Hf|[r Hf]]; discriminate.
  - cbn [map] in Hnd. inversion Hnd as [|? ? Hnin Hnd']; subst.
    cbn [filter] in *. destruct (Nat.eqb (c_id x) id) eqn:E.
    + cbn [negb]. apply Nat.eqb_eq in E.
      assert (c = x) as -> by (destruct Hf as [Hf|[r Hf]]; inversion Hf; reflexivity).
      (* no other connection has this id *)
      assert (Hnone : filter (fun c => negb (Nat.eqb (c_id c) id)) cs = cs).
      { clear -Hnin E. induction cs as [|y cs IHc]; [reflexivity|].
        cbn [filter map] in *. destruct (Nat.eqb (c_id y) id) eqn:Ey.
        - exfalso. apply Hnin. left. apply Nat.eqb_eq in Ey. congruence.
        - cbn [negb]. f_equal. apply IHc. intros H. apply Hnin. right. exact H. }
      rewrite Hnone. cbn [sum_buckets]. lia.
    + cbn [negb sum_buckets]. rewrite (IH c Hnd'); [lia|].
      destruct Hf as [Hf|[r Hf]]; [left; exact Hf | right; exists r; exact Hf].
Qed.

Lemma lstep_inv l o : LInv l -> LInv (fst (lstep l o)).
Proof.
  intros [H1 [H2 H3]]. destruct o as [c| |id uok]; cbn [lstep].
  - unfold post. destruct (validate c); [|repeat split; assumption].
    destruct (match cf_defaults c with Some d => d | None => (0, 0, 0) end) as [[up down] lt].
    cbn [fst]. unfold LInv. cbn [l_live l_conns l_nextid l_modified]. repeat split; try assumption.
    eapply Forall_impl; [|exact H3]. cbn. intros a [A1 A2]. split; lia.
  - unfold accept. cbn [fst]. unfold LInv. cbn [l_live l_conns l_nextid l_modified map c_id sum_buckets c_nbuckets].
    repeat split.
    + lia.
    + constructor; [|exact H2]. intros Hin. apply in_map_iff in Hin. destruct Hin as [x [Hx Hin]].
      rewrite Forall_forall in H3. apply H3 in Hin. lia.
    + constructor; [cbn; lia|]. eapply Forall_impl; [|exact H3]. cbn. intros a [A1 A2]. split; lia.
  - unfold close_conn. destruct (filter (fun c => Nat.eqb (c_id c) id) (l_conns l)) as [|c r] eqn:F.
    + repeat split; assumption.
    + cbn [fst]. unfold LInv. cbn [l_live l_conns l_nextid l_modified]. repeat split.
      * rewrite (sum_filter_remove id (l_conns l) c H2); [lia | right; exists r; exact F].
      * clear -H2. induction (l_conns l) as [|x cs IH]; [constructor|].
        cbn [map filter] in *. inversion H2; subst. destruct (negb (Nat.eqb (c_id x) id)).
        -- cbn [map]. constructor; [|auto]. intros Hin. apply H1.
           apply in_map_iff in Hin. destruct Hin as [y [Hy Hin]]. apply filter_In in Hin.
           apply in_map_iff. exists y. tauto.
        -- auto.
      * rewrite Forall_forall in *. intros x Hx. apply filter_In in Hx. apply H3. tauto.
Qed.

Lemma lrun_inv : forall ops l, LInv l -> LInv (fst (lrun l ops)).
Proof.
  induction ops as [|o ops IH]; intros l H; [exact H|].
  cbn [lrun]. destruct (lstep l o) as [l1 x] eqn:S. destruct (lrun l1 ops) as [l2 xs] eqn:R.
  cbn [fst]. pose proof (lstep_inv l o H) as H1. rewrite S in H1. cbn [fst] in H1.
  specialize (IH l1 H1). rewrite R in IH. exact IH.
Qed.

(* after any history, the live per-connection buckets are exactly those of the
   connections still open; with every connection closed nothing is left *)
Lemma release_all ops :
  let l := fst (lrun listener_init ops) in
  l_live l = sum_buckets (l_conns l) /\ (l_conns l = [] -> l_live l = 0).
Proof.
  cbn zeta. destruct (lrun_inv ops listener_init linv_init) as [H _].
  split; [exact H|]. intros E. rewrite H, E. reflexivity.
Qed.

Lemma close_conn_releases l id uok c r :
  LInv l -> filter (fun c => Nat.eqb (c_id c) id) (l_conns l) = c :: r ->
  l_live (fst (close_conn l id uok)) = l_live l - c_nbuckets c /\
  ~ In id (map c_id (l_conns (fst (close_conn l id uok)))).
Proof.
  intros _ F. unfold close_conn. rewrite F. cbn [fst l_live l_conns]. split; [reflexivity|].
  intros Hin. apply in_map_iff in Hin. destruct Hin as [x [Hx Hin]]. apply filter_In in Hin.
  destruct Hin as [_ Hn]. subst id. rewrite Nat.eqb_refl in Hn. discriminate.
Qed.

(* the outcome of the underlying Close is irrelevant *)
Lemma close_conn_any_outcome l id a b : close_conn l id a = close_conn l id b.
Proof. reflexivity. Qed.

(* an accepted configuration is not in force on any connection accepted before *)
Lemma old_connections_invalid l c shs k :
  LInv l -> validate c = Some shs ->
  forall x, In x (l_conns (fst (post l c))) -> conn_valid (fst (post l c)) x k = false.
Proof.
  intros [_ [_ H3]] Hv x Hx.
  destruct (post_accepted l c shs Hv) as [_ [_ [Hm [Hc _]]]].
  rewrite Hc in Hx. rewrite Forall_forall in H3. apply H3 in Hx. destruct Hx as [_ Hx].
  unfold conn_valid. rewrite Hm.
  assert (Nat.eqb (c_est x) (S (l_modified l)) = false) as -> by (apply Nat.eqb_neq; lia).
  reflexivity.
Qed.

(* a connection accepted afterwards gets the new shapes, latency and one pair of buckets per shape *)
Lemma new_connection_uses_active l :
  let '(l', o) := accept l in
  exists c, l_conns l' = c :: l_conns l /\ o = OConn (c_id c) /\
    c_est c = l_modified l /\ c_latency c = l_latency l /\
    c_nbuckets c = 2 * Z.of_nat (length (l_active l)) /\
    forall k, conn_valid l' c k = existsb (fun kv => bytes_eqb (fst kv) k) (l_active l).
Proof.
  unfold accept. eexists. repeat split. intros k. unfold conn_valid. cbn. rewrite Nat.eqb_refl. reflexivity.
Qed.

(* rejected configuration: nothing at all changes, in particular validity of open connections *)
Lemma reject_keeps_everything l c : validate c = None -> fst (post l c) = l.
Proof. intros H. rewrite (post_rejected l c H). reflexivity. Qed.

(* ------------------------------------------------------------------ *)
(* oracle equivalences                                                  *)
(* ------------------------------------------------------------------ *)

Lemma ok_prefix_iff data delivered closed :
  ok_prefix data delivered closed = true <->
  (exists rest, data = delivered ++ rest) /\ (closed = false -> delivered = data).
Proof.
  unfold ok_prefix. rewrite andb_true_iff, is_prefix_iff, orb_true_iff, bytes_eqb_eq.
  split; intros [A B]; (split; [exact A|]).
  - intros ->. destruct B; [discriminate | assumption].
  - destruct closed; [left; reflexivity | right; auto].
Qed.

Lemma ok_release_iff ops leaked :
  ok_release ops leaked = true <-> leaked = l_live (fst (lrun listener_init ops)).
Proof. unfold ok_release. apply Z.eqb_eq. Qed.

Lemma ok_rate_iff b n el tol :
  ok_rate b n el tol = true <-> n <= ((el + tol) / (drain_interval_ms * 1000) + 2) * b.
Proof. unfold ok_rate. rewrite Z.leb_le. split; intros H; lia. Qed.

Definition close_spec (acts : list action) (rs hl : Z) (data delivered : bytes) (closed : bool) : Prop :=
  match first_close acts rs with
  | Some k =>
      (hl + (k - rs) < Zlength data ->
         closed = true /\ delivered = firstn (Z.to_nat (hl + (k - rs))) data) /\
      (Zlength data <= hl + (k - rs) -> closed = false \/ delivered = data)
  | None => closed = false
  end.

Lemma ok_close_iff acts rs hl data delivered closed :
  ok_close acts rs hl data delivered closed = true <-> close_spec acts rs hl data delivered closed.
Proof.
  unfold ok_close, close_spec. destruct (first_close acts rs) as [k|].
  - destruct (hl + (k - rs) <? Zlength data) eqn:E.
    + apply Z.ltb_lt in E. rewrite andb_true_iff, bytes_eqb_eq. split.
      * intros [A B]. split; [intros _; split; assumption | lia].
      * intros [A _]. exact (A E).
    + apply Z.ltb_ge in E. rewrite orb_true_iff, negb_true_iff, bytes_eqb_eq. split.
      * intros A. split; [lia | intros _; exact A].
      * intros [_ A]. exact (A E).
  - apply negb_true_iff.
Qed.

Definition halts_spec (acts : list action) (rs hl ndelivered : Z) (gaps : list (Z * Z)) : Prop :=
  forall a d, In a acts -> kind a = KHalt d -> count a <> 0 -> rs <= abyte a ->
    hl + (abyte a - rs) < ndelivered -> d * 1000 <= gap_at (hl + (abyte a - rs)) gaps.

Lemma ok_halts_iff acts rs hl nd gaps :
  ok_halts acts rs hl nd gaps = true <-> halts_spec acts rs hl nd gaps.
Proof.
  unfold ok_halts, halts_spec. rewrite forallb_forall. split.
  - intros H a d Hin Hk Hc Hr Hn. specialize (H a Hin). rewrite Hk in H.
    assert (negb (count a =? 0) && (rs <=? abyte a) && (hl + (abyte a - rs) <? nd) = true) as E.
    { rewrite !andb_true_iff, negb_true_iff, Z.eqb_neq, Z.leb_le, Z.ltb_lt. auto. }
    rewrite E in H. apply Z.leb_le. exact H.
  - intros H a Hin. destruct (kind a) as [d| |b] eqn:K; try reflexivity.
    destruct (negb (count a =? 0) && (rs <=? abyte a) && (hl + (abyte a - rs) <? nd)) eqn:E; [|reflexivity].
    rewrite !andb_true_iff, negb_true_iff, Z.eqb_neq, Z.leb_le, Z.ltb_lt in E. destruct E as [[E1 E2] E3].
    apply Z.leb_le. apply (H a d); assumption.
Qed.
