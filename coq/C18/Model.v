(* C18 — traffic shaping delays or cuts a response but never alters its bytes.

   Definitions only.  Executable model of

     trafficshape/conn.go      Conn.Write, WriteDefaultBuckets, GetNextActionFromByte,
                               GetNextActionFromIndex, GetCurrentThrottle, Close
     trafficshape/utils.go     parseShapes, getActionsFromThrottles
     trafficshape/handler.go   ServeHTTP (validation, swap of the active map)
     trafficshape/listener.go  GetTrafficShapedConn (per-connection buckets)
     trafficshape/bucket.go    FillThrottleLocked / SetCapacity / drain (fill accounting)
     proxy.go 531-568          how the write context is set for a response

   Conventions:
   - bucket grants: Conn.Write asks the connection's own (local) bucket and,
     nested inside, the shape's shared (global, max_global_bandwidth) bucket for
     their remaining capacity (capacity - fill, > 0 whenever fn is called).  The
     model takes [g : nat -> Z * Z], the stream of (local, global) remaining
     capacities, one pair per non-empty chunk, as an argument ([nested] is the
     two-level computation of the chunk size); unshaped writes use the first
     component (the listener's bucket).  Theorems quantify over all positive
     streams; the driver instantiates both components with the chunk sizes it saw.
   - Go slice expressions that would panic give [RPanic]; loops carry fuel and
     give [RFuel] when it runs out; theorems exclude both.
   - CheckExistenceAndValidity (map still contains the regex and was not
     modified after the connection was established) is the field [valid],
     flipped by [invalidate] when a configuration is accepted later. *)

From Coq Require Import Ascii String.
From Coq Require Import List ZArith Bool Arith.
From Martian.C18 Require Import Gen_Shape.
Import ListNotations.
Open Scope Z_scope.

Definition bytes := list ascii.

(* ------------------------------------------------------------------ *)
(* Actions                                                             *)
(* ------------------------------------------------------------------ *)

Inductive akind := KHalt (d : Z) | KClose | KBw (b : Z).

Record action := mkAct { kind : akind; abyte : Z; count : Z }.

(* Action.getCount *)
Definition eff_count (a : action) : Z :=
  match kind a with KBw _ => bw_action_count | _ => count a end.

(* Action.decrementCount *)
Definition dec (a : action) : action :=
  match kind a with
  | KBw _ => a
  | k => mkAct k (abyte a) (dec_count (count a))
  end.

Record throttle := mkThr { t_start : Z; t_end : Z; t_bw : Z }.   (* t_end = -1 : to the end *)

Record shape := mkShape
  { sh_acts : list action; sh_thr : list throttle; sh_maxbw : Z }.

Fixpoint upd {A} (l : list A) (i : nat) (x : A) : list A :=
  match l, i with
  | [], _ => []
  | _ :: t, O => x :: t
  | h :: t, S i' => h :: upd t i' x
  end.

(* GetNextActionFromIndex: first index >= i whose count is not 0. *)
Fixpoint find_enabled (l : list action) (i : nat) : option (nat * Z) :=
  match l with
  | [] => None
  | a :: l' => if eff_count a =? 0 then find_enabled l' (S i) else Some (i, abyte a)
  end.

Definition next_from_index (v : bool) (acts : list action) (i : nat) : option (nat * Z) :=
  if v then find_enabled (skipn i acts) i else None.

(* sort.Search(len, actions[i].getByte() >= start) on a list sorted by byte:
   the first index whose byte is >= start. *)
Fixpoint search_ge (l : list action) (start : Z) (i : nat) : nat :=
  match l with
  | [] => i
  | a :: l' => if abyte a >=? start then i else search_ge l' start (S i)
  end.

(* sort.Search(n, f) itself (binary search):
     i, j := 0, n; for i < j { h := (i+j)/2; if !f(h) { i = h + 1 } else { j = h } }; return i
   [bsearch_ge] is GetNextActionFromByte's use of it; Proofs_Audit proves it equal to
   [search_ge] on lists sorted by byte. *)
Fixpoint bsearch (fuel : nat) (f : nat -> bool) (i j : nat) : nat :=
  match fuel with
  | O => i
  | S fu => if Nat.ltb i j
            then let h := Nat.div (i + j) 2 in
                 if f h then bsearch fu f i h else bsearch fu f (S h) j
            else i
  end.

Definition bsearch_ge (l : list action) (start : Z) : nat :=
  bsearch (length l)
          (fun h => match nth_error l h with Some a => abyte a >=? start | None => true end)
          0 (length l).

Definition next_from_byte (v : bool) (acts : list action) (start : Z) : option (nat * Z) :=
  next_from_index v acts (search_ge acts start 0).

(* GetCurrentThrottle, with sort.Search(throttles[i].ByteStart > start). *)
Fixpoint search_gt (l : list throttle) (start : Z) (i : nat) : nat :=
  match l with
  | [] => i
  | t :: l' => if t_start t >? start then i else search_gt l' start (S i)
  end.

Definition current_throttle (v : bool) (thr : list throttle) (start : Z) : option Z :=
  if negb v then None else
  match thr with
  | [] => None
  | _ =>
    let l := length thr in
    let ind := search_gt thr start 0 in
    match ind with
    | O => None
    | S p =>
        match nth_error thr p with
        | None => None
        | Some t =>
            if Nat.eqb ind l
            then if (t_end t >? start) || (t_end t =? -1) then Some (t_bw t) else None
            else if t_end t >? start then Some (t_bw t) else None
        end
    end
  end.

(* ------------------------------------------------------------------ *)
(* Conn.Write                                                          *)
(* ------------------------------------------------------------------ *)

Inductive ev :=
| Emit (bs : bytes)       (* one c.conn.Write call *)
| Latency (d : Z)         (* wonce.Do(sleepLatency) *)
| Sleep (d : Z)           (* Halt *)
| SetBw (b : Z)           (* WriteBucket.SetCapacity *)
| ForceClose.             (* ErrForceClose returned *)

Inductive res :=
| ROk (n : Z)             (* (n, nil) *)
| RClosed (n : Z)         (* (n, ErrForceClose) *)
| RPanic
| RFuel.

Record st := mkSt
  { shaping : bool;
    valid : bool;               (* CheckExistenceAndValidity *)
    lat : option Z;             (* latency not yet slept (wonce) *)
    hdr_left : Z;               (* HeaderLen - HeaderBytesWritten *)
    off : Z;                    (* Context.ByteOffset *)
    next : option (nat * Z);    (* NextActionInfo: index, byte offset *)
    acts : list action;         (* Shapes.M[regex].Shape.Actions (counts mutate) *)
    gi : nat }.                 (* position in the grant stream *)

Definition set_off_gi (s : st) (o : Z) (i : nat) : st :=
  mkSt (shaping s) (valid s) (lat s) (hdr_left s) o (next s) (acts s) i.
Definition set_next (s : st) (n : option (nat * Z)) : st :=
  mkSt (shaping s) (valid s) (lat s) (hdr_left s) (off s) n (acts s) (gi s).
Definition set_acts (s : st) (a : list action) : st :=
  mkSt (shaping s) (valid s) (lat s) (hdr_left s) (off s) (next s) a (gi s).
Definition set_unshaped (s : st) (i : nat) : st :=
  mkSt false (valid s) (lat s) (hdr_left s) (off s) (next s) (acts s) i.
Definition set_hdr (s : st) (h : Z) : st :=
  mkSt (shaping s) (valid s) (lat s) h (off s) (next s) (acts s) (gi s).
Definition clear_lat (s : st) : st :=
  mkSt (shaping s) (valid s) None (hdr_left s) (off s) (next s) (acts s) (gi s).
(* a configuration was accepted after this connection was established *)
Definition invalidate (s : st) : st :=
  mkSt (shaping s) false (lat s) (hdr_left s) (off s) (next s) (acts s) (gi s).

(* b[:n], b[n:] — Go panics unless 0 <= n <= len(b) *)
Definition take (n : Z) (b : bytes) : option (bytes * bytes) :=
  if (0 <=? n) && (n <=? Zlength b)
  then Some (firstn (Z.to_nat n) b, skipn (Z.to_nat n) b)
  else None.

(* WriteDefaultBuckets: chunks limited by the listener bucket's remaining capacity. *)
(* conn.go 410-423: outer closure on the local bucket  max = min(remaining, amountToWrite);
   if max == 0 return;  inner closure on the global bucket  max = min(rem, max);
   conn.Write(b[:max]);  the loop then advances by that same max *)
Definition nested (rl rg amt : Z) : Z :=
  let m := Z.min rl amt in if m =? 0 then 0 else Z.min rg m.

Fixpoint default_loop (fuel : nat) (g : nat -> Z * Z) (i : nat) (b : bytes) (total : Z)
  : nat * list ev * res :=
  match b with
  | [] => (i, [], ROk total)
  | _ :: _ =>
    match fuel with
    | O => (i, [], RFuel)
    | S f =>
      let len := Zlength b in
      let mx := if fst (g i) >=? len then len else fst (g i) in
      match take mx b with
      | None => (i, [], RPanic)
      | Some (chunk, rest) =>
          let '(i', evs, r) := default_loop f g (S i) rest (total + mx) in
          (i', Emit chunk :: evs, r)
      end
    end
  end.

Definition ev_of (k : akind) : ev :=
  match k with KHalt d => Sleep d | KClose => ForceClose | KBw b => SetBw b end.

(* The shaped loop of Conn.Write (conn.go 397-491), one iteration per fuel unit. *)
Fixpoint body_loop (fuel : nat) (g : nat -> Z * Z) (s : st) (b : bytes) (total : Z)
  : st * list ev * res :=
  match b with
  | [] => (s, [], ROk total)
  | _ :: _ =>
    match fuel with
    | O => (s, [], RFuel)
    | S f =>
      let len := Zlength b in
      (* amount until the next action *)
      let amt := match next s with
                 | Some (_, nb) => let till := nb - off s in
                                   if till <=? len then till else len
                 | None => len
                 end in
      (* nested FillThrottleLocked on the local, then the global bucket *)
      let mx := nested (fst (g (gi s))) (snd (g (gi s))) amt in
      match take mx b with
      | None => (s, [], RPanic)
      | Some (chunk, rest) =>
        let evs0 := if mx =? 0 then [] else [Emit chunk] in
        let s1 := set_off_gi s (off s + mx) (if mx =? 0 then gi s else S (gi s)) in
        let total1 := total + mx in
        let continue (s' : st) (extra : list ev) :=
            let '(s3, evs3, r) := body_loop f g s' rest total1 in
            (s3, evs0 ++ extra ++ evs3, r) in
        match next s1 with
        | Some (ind, nb) =>
          if off s1 >=? nb then
            if negb (valid s1) then
              (* map changed: rest goes through the default buckets, Shaping = false *)
              let '(i2, evs2, r2) := default_loop (S (length rest)) g (gi s1) rest 0 in
              (set_unshaped s1 i2, evs0 ++ evs2,
               match r2 with ROk n => ROk (total1 + n) | RClosed n => RClosed (total1 + n) | x => x end)
            else
              match nth_error (acts s1) ind with
              | None => (s1, evs0, RPanic)
              | Some a =>
                if eff_count a =? 0 then
                  continue (set_next s1 (next_from_index (valid s1) (acts s1) (S ind))) []
                else
                  let acts' := upd (acts s1) ind (dec a) in
                  let s2 := set_acts s1 acts' in
                  match kind a with
                  | KClose => (s2, evs0 ++ [ForceClose], RClosed total1)
                  | k => continue (set_next s2 (next_from_index (valid s2) acts' (S ind))) [ev_of k]
                  end
              end
          else continue s1 []
        | None => continue s1 []
        end
      end
    end
  end.

Definition lat_evs (s : st) : list ev :=
  match lat s with Some d => [Latency d] | None => [] end.

Definition write (g : nat -> Z * Z) (s : st) (b : bytes) : st * list ev * res :=
  let s0 := clear_lat s in
  if negb (shaping s) then
    let '(i2, evs, r) := default_loop (S (length b)) g (gi s) b 0 in
    (set_off_gi s0 (off s0) i2, lat_evs s ++ evs, r)
  else if 0 <? hdr_left s then
    (* header bytes: straight to the connection, ByteOffset untouched *)
    let w := Z.min (Zlength b) (hdr_left s) in
    match take w b with
    | None => (s0, lat_evs s, RPanic)
    | Some (hd, rest) =>
        let s1 := set_hdr s0 (hdr_left s - w) in
        let '(s2, evs, r) := body_loop (S (length rest + length (acts s))) g s1 rest w in
        (s2, lat_evs s ++ Emit hd :: evs, r)
    end
  else
    let '(s2, evs, r) := body_loop (S (length b + length (acts s))) g s0 b 0 in
    (s2, lat_evs s ++ evs, r).

Definition is_ok (r : res) : bool := match r with ROk _ => true | _ => false end.

(* A sequence of Write calls on one connection; stops at the first error
   (bufio.Writer keeps the error, the proxy then closes the connection). *)
Fixpoint run (g : nat -> Z * Z) (s : st) (ws : list bytes) : st * list ev * res :=
  match ws with
  | [] => (s, [], ROk 0)
  | w :: ws' =>
      let '(s1, e1, r1) := write g s w in
      if is_ok r1 then
        match ws' with
        | [] => (s1, e1, r1)
        | _ => let '(s2, e2, r2) := run g s1 ws' in (s2, e1 ++ e2, r2)
        end
      else (s1, e1, r1)
  end.

(* proxy.go 531-568: context for one response.  [matches]: the request URL
   matched this shape's regex (regexp.MatchString); [rs]: GetRangeStart. *)
Definition open_ctx (v : bool) (sh_acts_now : list action) (thr : list throttle)
           (matches : bool) (rs hl : Z) (lt : option Z) (i : nat) : st * list ev :=
  if matches && (rs >? -1) then
    (mkSt true v lt hl rs (next_from_byte v sh_acts_now rs) sh_acts_now i,
     match current_throttle v thr rs with Some bw => [SetBw bw] | None => [] end)
  else (mkSt false v lt 0 0 None sh_acts_now i, []).

(* Successive responses on one connection: proxy.go 533 first drops the context
   of the previous response (ptsconn.Context = &trafficshape.Context{}), then sets
   it for this one.  Of the previous state only what belongs to the connection
   survives: the latency-once flag and the position in the grant stream. *)
Definition respond (prev : st) (v : bool) (acts_now : list action) (thr : list throttle)
           (matches : bool) (rs hl : Z) : st * list ev :=
  open_ctx v acts_now thr matches rs hl (lat prev) (gi prev).

(* ------------------------------------------------------------------ *)
(* Trace projections used by the statements and by the oracle          *)
(* ------------------------------------------------------------------ *)

Fixpoint emitted (evs : list ev) : bytes :=
  match evs with
  | [] => []
  | Emit bs :: r => bs ++ emitted r
  | _ :: r => emitted r
  end.

(* every non-Emit event with the number of bytes delivered before it *)
Fixpoint stamps (pos : Z) (evs : list ev) : list (Z * ev) :=
  match evs with
  | [] => []
  | Emit bs :: r => stamps (pos + Zlength bs) r
  | e :: r => (pos, e) :: stamps pos r
  end.

Definition is_action_ev (e : ev) : bool :=
  match e with Sleep _ | SetBw _ | ForceClose => true | _ => false end.

(* the first close action, in list order, that is enabled and not behind [rs] *)
Fixpoint first_close (l : list action) (rs : Z) : option Z :=
  match l with
  | [] => None
  | a :: l' =>
      match kind a with
      | KClose => if negb (count a =? 0) && (rs <=? abyte a) then Some (abyte a) else first_close l' rs
      | _ => first_close l' rs
      end
  end.

(* ------------------------------------------------------------------ *)
(* Bucket accounting (bucket.go): the rate clause                      *)
(* ------------------------------------------------------------------ *)

Inductive bop :=
| BFill (want : Z)     (* FillThrottleLocked(fn) where fn uses min(remaining, want) *)
| BDrain               (* ticker: fill := 0 *)
| BSetCap (c : Z).     (* SetCapacity: capacity := c, fill := 0 *)

Record bucket := mkB { cap : Z; fill : Z }.

(* One step; a fill on a full bucket waits (passes nothing) until a drain. *)
Definition bstep (b : bucket) (o : bop) : bucket * Z :=
  match o with
  | BFill want =>
      if fill b <? cap b
      then let n := Z.min (cap b - fill b) want in (mkB (cap b) (fill b + n), n)
      else (b, 0)
  | BDrain => (mkB (cap b) 0, 0)
  | BSetCap c => (mkB c 0, 0)
  end.

Fixpoint bpassed (b : bucket) (ops : list bop) : Z :=
  match ops with
  | [] => 0
  | o :: r => let '(b', n) := bstep b o in n + bpassed b' r
  end.

Definition count_drains (ops : list bop) : Z :=
  Z.of_nat (length (filter (fun o => match o with BDrain => true | _ => false end) ops)).

Definition no_setcap (ops : list bop) : bool :=
  forallb (fun o => match o with BSetCap _ => false | _ => true end) ops.

(* ------------------------------------------------------------------ *)
(* Validation: parseShapes / getActionsFromThrottles / handler checks   *)
(* ------------------------------------------------------------------ *)

Definition default_bw : Z := default_bitrate / bitrate_divisor.

Definition is_digit (c : ascii) : bool :=
  let n := nat_of_ascii c in (Nat.leb 48 n && Nat.leb n 57)%bool.

Fixpoint digits_val (acc : Z) (s : list ascii) : option Z :=
  match s with
  | [] => Some acc
  | c :: r => if is_digit c then digits_val (acc * 10 + Z.of_nat (nat_of_ascii c - 48)) r else None
  end.

(* strconv.ParseInt(s, 10, 64) *)
Definition parse_int64 (s : list ascii) : option Z :=
  let '(neg, ds) := match s with
                    | "+"%char :: r => (false, r)
                    | "-"%char :: r => (true, r)
                    | _ => (false, s)
                    end in
  match ds with
  | [] => None
  | _ => match digits_val 0 ds with
         | None => None
         | Some v => let x := if neg then - v else v in
                     if (- 2 ^ 63 <=? x) && (x <=? 2 ^ 63 - 1) then Some x else None
         end
  end.

(* strings.Split(s, "-") *)
Fixpoint split_dash (cur : list ascii) (s : list ascii) : list (list ascii) :=
  match s with
  | [] => [rev cur]
  | "-"%char :: r => rev cur :: split_dash [] r
  | c :: r => split_dash (c :: cur) r
  end.

(* ------------------------------------------------------------------ *)
(* proxyutil.GetRangeStart                                              *)
(* ------------------------------------------------------------------ *)

(* maximal prefix of digits, rest *)
Fixpoint span_digits (s : list ascii) : list ascii * list ascii :=
  match s with
  | c :: r => if is_digit c then let '(d, t) := span_digits r in (c :: d, t) else ([], s)
  | [] => ([], [])
  end.

Fixpoint starts_with (p s : list ascii) : bool :=
  match p, s with
  | [], _ => true
  | x :: p', y :: s' => Ascii.eqb x y && starts_with p' s'
  | _ :: _, [] => false
  end.

(* digits "-" digits "/" then a digit or a star, right after "bytes " (the star is the
   RFC 7233 unknown complete length, read since the repair fixes/C18-7) *)
Definition match_cr_at (s : list ascii) : option (list ascii) :=
  let '(d1, r1) := span_digits s in
  match d1, r1 with
  | _ :: _, "-"%char :: r2 =>
      let '(d2, r3) := span_digits r2 in
      match d2, r3 with
      | _ :: _, "/"%char :: c :: _ =>
          if is_digit c || Ascii.eqb c "*"%char then Some d1 else None
      | _, _ => None
      end
  | _, _ => None
  end.

(* re.FindStringSubmatch: leftmost match anywhere in the header value *)
Fixpoint find_cr (s : list ascii) : option (list ascii) :=
  match s with
  | [] => None
  | _ :: r =>
      match (if starts_with (list_ascii_of_string "bytes ") s then match_cr_at (skipn 6 s) else None) with
      | Some d => Some d
      | None => find_cr r
      end
  end.

(* GetRangeStart: 0 unless 206; -1 for multipart/byteranges, for a Content-Range
   the regexp does not match, and when the start does not fit an int64 *)
Definition range_start (status : Z) (multipart : bool) (cr : list ascii) : Z :=
  if negb (status =? 206) then 0
  else if multipart then -1
  else match find_cr cr with
       | None => -1
       | Some d => match parse_int64 d with Some v => v | None => -1 end
       end.


Record throttle_cfg := mkTC { tc_bytes : list ascii; tc_bw : Z }.
Record halt_cfg := mkHC { hc_byte : Z; hc_dur : Z; hc_count : Z }.
Record close_cfg := mkCC { cc_byte : Z; cc_count : Z }.
Record shape_cfg := mkSC
  { sc_regex : list ascii;
    sc_regex_ok : bool;         (* regexp.Compile succeeds (Go's regexp, computed by the harness) *)
    sc_maxbw : Z;
    sc_thr : list throttle_cfg;
    sc_halts : list halt_cfg;
    sc_closes : list close_cfg }.
Record cfg := mkCfg
  { cf_defaults : option (Z * Z * Z);     (* up, down, latency *)
    cf_shapes : list shape_cfg }.

Definition parse_throttle (t : throttle_cfg) : option throttle :=
  if tc_bw t <=? 0 then None else
  match split_dash [] (tc_bytes t) with
  | [a; b] =>
      match (match a with [] => Some 0 | _ => parse_int64 a end) with
      | None => None
      | Some st_ =>
          match b with
          | [] => if st_ =? -1 then None else Some (mkThr st_ (-1) (tc_bw t))
          | _ => match parse_int64 b with
                 | None => None
                 | Some en => if en <? st_ then None
                              else if st_ =? en then None
                              else Some (mkThr st_ en (tc_bw t))
                 end
          end
      end
  | _ => None
  end.

Fixpoint map_opt {A B} (f : A -> option B) (l : list A) : option (list B) :=
  match l with
  | [] => Some []
  | x :: r => match f x with
              | None => None
              | Some y => match map_opt f r with None => None | Some ys => Some (y :: ys) end
              end
  end.

(* sort.SliceStable: stable insertion sort by key *)
Fixpoint insert_by {A} (k : A -> Z) (x : A) (l : list A) : list A :=
  match l with
  | [] => [x]
  | y :: l' => if k x <=? k y then x :: y :: l' else y :: insert_by k x l'
  end.

Definition sort_by {A} (k : A -> Z) (l : list A) : list A :=
  fold_right (insert_by k) [] l.

Definition bw_act (b at_ : Z) : action := mkAct (KBw b) at_ bw_action_count.

(* getActionsFromThrottles on the sorted throttles *)
Fixpoint thr_actions (l : list throttle) (dbw : Z) : option (list action) :=
  match l with
  | [] => Some []
  | t :: rest =>
      match rest with
      | [] => if t_end t =? -1
              then Some [bw_act (t_bw t) (t_start t)]
              else Some [bw_act (t_bw t) (t_start t); bw_act dbw (t_end t)]
      | t2 :: _ =>
          if (t_end t >? t_start t2) || (t_end t =? -1) then None
          else match thr_actions rest dbw with
               | None => None
               | Some r =>
                   if t_end t =? t_start t2
                   then Some (bw_act (t_bw t) (t_start t) :: r)
                   else Some (bw_act (t_bw t) (t_start t) :: bw_act dbw (t_end t) :: r)
               end
      end
  end.

Definition check_halt (h : halt_cfg) : option action :=
  if (hc_dur h <? 0) || (hc_byte h <? 0) then None
  else if hc_count h =? 0 then None
  else Some (mkAct (KHalt (hc_dur h)) (hc_byte h) (hc_count h)).

Definition check_close (c : close_cfg) : option action :=
  if cc_byte c <? 0 then None
  else if cc_count c =? 0 then None
  else Some (mkAct KClose (cc_byte c) (cc_count c)).

Definition validate_shape (sc : shape_cfg) : option shape :=
  match sc_regex sc with
  | [] => None
  | _ =>
    if negb (sc_regex_ok sc) then None
    else if sc_maxbw sc <? 0 then None
    else
      let maxbw := if sc_maxbw sc =? 0 then default_bw else sc_maxbw sc in
      match map_opt parse_throttle (sc_thr sc) with
      | None => None
      | Some thr =>
        match map_opt check_halt (sc_halts sc) with
        | None => None
        | Some hs =>
          match map_opt check_close (sc_closes sc) with
          | None => None
          | Some cs =>
            let sorted := sort_by t_start thr in
            match thr_actions sorted maxbw with
            | None => None
            | Some tas => Some (mkShape (sort_by abyte (hs ++ cs ++ tas)) sorted maxbw)
            end
          end
        end
      end
  end.

Definition defaults_ok (d : option (Z * Z * Z)) : bool :=
  match d with
  | None => true
  | Some (up, down, l) => negb ((up <? 0) || (down <? 0) || (l <? 0))
  end.

Definition validate (c : cfg) : option (list (list ascii * shape)) :=
  if negb (defaults_ok (cf_defaults c)) then None
  else map_opt (fun sc => match validate_shape sc with
                          | None => None
                          | Some sh => Some (sc_regex sc, sh)
                          end) (cf_shapes c).

(* ------------------------------------------------------------------ *)
(* Listener: active configuration, connections, per-connection buckets *)
(* ------------------------------------------------------------------ *)

Fixpoint bytes_eqb (a b : list ascii) : bool :=
  match a, b with
  | [], [] => true
  | x :: a', y :: b' => Ascii.eqb x y && bytes_eqb a' b'
  | _, _ => false
  end.

(* Shapes.M[regex] = shape : later entries replace earlier ones *)
Fixpoint map_set {V} (m : list (list ascii * V)) (k : list ascii) (v : V) : list (list ascii * V) :=
  match m with
  | [] => [(k, v)]
  | (k', v') :: r => if bytes_eqb k' k then (k, v) :: r else (k', v') :: map_set r k v
  end.

Definition build_map {V} (l : list (list ascii * V)) : list (list ascii * V) :=
  fold_left (fun m kv => map_set m (fst kv) (snd kv)) l [].

Record conn := mkConn
  { c_id : nat;
    c_est : nat;              (* number of accepted configurations when established *)
    c_nbuckets : Z;           (* per-connection buckets created by GetTrafficShapedConn *)
    c_latency : Z;
    c_wcap : Z }.             (* capacity of the default write bucket when it was accepted *)

Record listener := mkL
  { l_active : list (list ascii * shape);
    l_modified : nat;          (* accepted configurations so far (LastModifiedTime) *)
    l_latency : Z;
    l_up : Z; l_down : Z;      (* capacities of the listener-wide Write/Read buckets *)
    l_conns : list conn;       (* open connections *)
    l_nextid : nat;
    l_live : Z }.              (* live per-connection buckets (goroutine + ticker each) *)

Definition listener_init : listener := mkL [] 0 0 default_bw default_bw [] 0 0.

Inductive lop :=
| LPost (c : cfg)
| LAccept
| LClose (id : nat) (underlying_ok : bool).   (* Conn.Close; what the wrapped conn's Close returned *)

Inductive lout := OStatus (code : Z) | OConn (id : nat) | ONone.

Definition post (l : listener) (c : cfg) : listener * lout :=
  match validate c with
  | None => (l, OStatus 400)
  | Some shs =>
      let '(up, down, lt) := match cf_defaults c with Some d => d | None => (0, 0, 0) end in
      let up' := if up =? 0 then default_bw else up in
      let down' := if down =? 0 then default_bw else down in
      (* handler.go 215-216: ReadBucket.SetCapacity(Down); WriteBucket.SetCapacity(Up) *)
      (mkL (build_map shs) (S (l_modified l)) lt up' down' (l_conns l) (l_nextid l) (l_live l),
       OStatus 200)
  end.

Definition accept (l : listener) : listener * lout :=
  let nb := 2 * Z.of_nat (length (l_active l)) in
  let c := mkConn (l_nextid l) (l_modified l) nb (l_latency l) (l_up l) in
  (mkL (l_active l) (l_modified l) (l_latency l) (l_up l) (l_down l)
       (c :: l_conns l) (S (l_nextid l)) (l_live l + nb),
   OConn (l_nextid l)).

(* Conn.Close — as REPAIRED by fixes/C18-1: the per-connection buckets are closed,
   BEFORE and independently of the underlying connection's Close, whose outcome
   [underlying_ok] (nil / error, e.g. a tls.Conn that cannot send close_notify
   after a reset) therefore plays no role. *)
Definition close_conn (l : listener) (id : nat) (underlying_ok : bool) : listener * lout :=
  match filter (fun c => Nat.eqb (c_id c) id) (l_conns l) with
  | [] => (l, ONone)
  | c :: _ =>
      (mkL (l_active l) (l_modified l) (l_latency l) (l_up l) (l_down l)
           (filter (fun c => negb (Nat.eqb (c_id c) id)) (l_conns l)) (l_nextid l)
           (l_live l - c_nbuckets c),
       ONone)
  end.

Definition lstep (l : listener) (o : lop) : listener * lout :=
  match o with
  | LPost c => post l c
  | LAccept => accept l
  | LClose id ok => close_conn l id ok
  end.

Fixpoint lrun (l : listener) (ops : list lop) : listener * list lout :=
  match ops with
  | [] => (l, [])
  | o :: r => let '(l1, x) := lstep l o in
              let '(l2, xs) := lrun l1 r in (l2, x :: xs)
  end.

(* CheckExistenceAndValidity for connection c and regex k *)
Definition conn_valid (l : listener) (c : conn) (k : list ascii) : bool :=
  Nat.eqb (c_est c) (l_modified l) &&
  existsb (fun kv => bytes_eqb (fst kv) k) (l_active l).

Definition lookup_shape (l : listener) (k : list ascii) : option shape :=
  match filter (fun kv => bytes_eqb (fst kv) k) (l_active l) with
  | (_, sh) :: _ => Some sh
  | [] => None
  end.

(* ------------------------------------------------------------------ *)
(* Oracles: the conclusions of the theorems as booleans on observations *)
(* ------------------------------------------------------------------ *)

Fixpoint is_prefix (a b : bytes) : bool :=
  match a, b with
  | [], _ => true
  | x :: a', y :: b' => Ascii.eqb x y && is_prefix a' b'
  | _ :: _, [] => false
  end.

(* bytes clause: delivered is a prefix of what was written, all of it unless
   the connection was force-closed. *)
Definition ok_prefix (data delivered : bytes) (closed : bool) : bool :=
  is_prefix delivered data && (closed || bytes_eqb delivered data).

(* close clause for one response on a fresh valid matching context: [acts]
   when the context was set, range start [rs], head length [hl], [data] = all
   bytes written (head ++ body). *)
Definition ok_close (acts : list action) (rs hl : Z) (data delivered : bytes) (closed : bool) : bool :=
  match first_close acts rs with
  | Some k =>
      if hl + (k - rs) <? Zlength data
      then closed && bytes_eqb delivered (firstn (Z.to_nat (hl + (k - rs))) data)
      else negb closed || bytes_eqb delivered data
  | None => negb closed
  end.

(* halt clause: [gaps] = observed (position, pause in microseconds) pairs; a halt
   of d ms at body offset a, enabled, not behind rs, with a later byte delivered,
   must show a pause of at least d ms at position hl + a - rs. *)
Definition gap_at (p : Z) (gaps : list (Z * Z)) : Z :=
  fold_right (fun pg acc => if fst pg =? p then snd pg + acc else acc) 0 gaps.

Definition ok_halts (acts : list action) (rs hl : Z) (ndelivered : Z) (gaps : list (Z * Z)) : bool :=
  forallb (fun a =>
    match kind a with
    | KHalt d =>
        if negb (count a =? 0) && (rs <=? abyte a) && (hl + (abyte a - rs) <? ndelivered)
        then d * 1000 <=? gap_at (hl + (abyte a - rs)) gaps
        else true
    | _ => true
    end) acts.

(* The default write bucket is the LISTENER's (conn.WriteBucket = l.WriteBucket):
   what connection c writes through when unshaped, whenever it was accepted. *)
Definition conn_default_cap (l : listener) (c : conn) : Z := l_up l.

(* rate clause: n bytes through a bucket of capacity b within [elapsed_us]
   microseconds (+ tolerance): at most floor(elapsed / interval) + 1 drains can
   have happened, so n <= (drains + 1) * b. *)
Definition ok_rate (b n elapsed_us tol_us : Z) : bool :=
  n <=? ((elapsed_us + tol_us) / (drain_interval_ms * 1000) + 1 + 1) * b.

(* ---- throttle clause, deterministic part: which bandwidth has to be in force ---- *)

(* the throttle (of the stored, sorted, disjoint list) that contains body offset o *)
Fixpoint throttle_at (thr : list throttle) (o : Z) : option Z :=
  match thr with
  | [] => None
  | t :: r => if (t_start t <=? o) && ((o <? t_end t) || (t_end t =? -1))
              then Some (t_bw t) else throttle_at r o
  end.

(* a body chunk that starts at offset o inside a throttle interval must go through a
   local bucket whose capacity is that throttle's bandwidth (otherwise the bucket
   accounting cannot add the configured delay) *)
Definition ok_chunk_bw (thr : list throttle) (o cap : Z) : bool :=
  match throttle_at thr o with Some bw => cap =? bw | None => true end.

(* bytes of the body range [rs, rs + n) that lie inside the throttle interval [a, b) (b = -1: open) *)
Definition bytes_inside (a b rs n : Z) : Z :=
  let lo := Z.max rs a in
  let hi := if b =? -1 then rs + n else Z.min (rs + n) b in
  Z.max 0 (hi - lo).

(* ---- small decisions the driver makes, as functions with theorems ---- *)

(* microseconds of Latency / Sleep that happen BEFORE the last delivered byte *)
Fixpoint delays_acc (acc pending : Z) (evs : list ev) : Z :=
  match evs with
  | [] => acc
  | Sleep d :: r => delays_acc acc (pending + 1000 * d) r
  | Latency d :: r => delays_acc acc (pending + 1000 * d) r
  | Emit (_ :: _) :: r => delays_acc (acc + pending) 0 r
  | _ :: r => delays_acc acc pending r
  end.

Definition delays_before_last_byte (evs : list ev) : Z := delays_acc 0 0 evs.

(* total-delay clause: the response took at least the delays that precede a delivered byte *)
Definition ok_total_delay (evs : list ev) (elapsed_us : Z) : bool :=
  delays_before_last_byte evs <=? elapsed_us.

(* only-matching clause: an exchange that matches no shape arrives whole and is not cut *)
Definition ok_unshaped (data delivered : bytes) (cut : bool) : bool :=
  negb cut && bytes_eqb delivered data.

(* validation clause on the handler's answer: 200 exactly for the configurations [validate] accepts;
   [accepted_wrongly] is the property violation (an invalid configuration answered 200) *)
Definition accepted_wrongly (c : option cfg) (code : Z) : bool :=
  (code =? 200) && match c with Some c => match validate c with None => true | Some _ => false end | None => true end.

(* later-connections clause: a validity probe on connection c after the history *)
Definition ok_validity (l : listener) (c : conn) (k : list ascii) (observed_valid : bool) : bool :=
  Bool.eqb observed_valid (conn_valid l c k).

(* resources, integration layer: goroutines left over after the client went away *)
Definition ok_no_leak (left : Z) : bool := left <=? 0.

(* a single grant never exceeds the bandwidth *)
Definition ok_grant (chunk bw : Z) : bool := chunk <=? bw.

(* resources clause: live per-connection buckets after a listener history *)
Definition ok_release (ops : list lop) (leaked : Z) : bool :=
  leaked =? l_live (fst (lrun listener_init ops)).
