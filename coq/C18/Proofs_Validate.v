(* C18 — proofs, part 2: what an accepted configuration looks like
   (contrapositive: what is rejected). *)
From Coq Require Import Ascii String.
From Coq Require Import List ZArith Bool Arith Lia Sorted Permutation.
From Martian.C18 Require Import Gen_Shape Model.
Import ListNotations.
Open Scope Z_scope.

Lemma map_opt_some {A B} (f : A -> option B) : forall l ys,
  map_opt f l = Some ys ->
  (forall x, In x l -> exists y, f x = Some y /\ In y ys) /\
  (forall y, In y ys -> exists x, In x l /\ f x = Some y) /\ length ys = length l.
Proof.
  induction l as [|x l IH]; intros ys H.
  - cbn in H. inversion H; subst. split; [intros x0 F; destruct F|]. split; [intros y0 F; destruct F | reflexivity].
  - cbn [map_opt] in H. destruct (f x) as [y|] eqn:F; [|discriminate].
    destruct (map_opt f l) as [ys'|] eqn:M; [|discriminate]. inversion H; subst.
    destruct (IH ys' eq_refl) as [I1 [I2 I3]]. repeat split.
    + intros x0 [<-|Hin]; [exists y; split; [exact F | left; reflexivity]|].
      destruct (I1 x0 Hin) as [y0 [P1 P2]]. exists y0. split; [exact P1 | right; exact P2].
    + intros y0 [<-|Hin]; [exists x; split; [left; reflexivity | exact F]|].
      destruct (I2 y0 Hin) as [x0 [P1 P2]]. exists x0. split; [right; exact P1 | exact P2].
    + cbn. f_equal. exact I3.
Qed.

(* ---- stable insertion sort ---- *)

Lemma insert_by_perm {A} (k : A -> Z) x : forall l, Permutation (x :: l) (insert_by k x l).
Proof.
  induction l as [|y l IH]; cbn [insert_by]; [reflexivity|].
  destruct (k x <=? k y); [reflexivity|].
  etransitivity; [apply perm_swap|]. constructor. exact IH.
Qed.

Lemma sort_by_perm {A} (k : A -> Z) : forall l, Permutation l (sort_by k l).
Proof.
  induction l as [|x l IH]; [reflexivity|]. cbn [sort_by fold_right].
  etransitivity; [|apply insert_by_perm]. constructor. exact IH.
Qed.

Definition le_key {A} (k : A -> Z) (a b : A) : Prop := k a <= k b.

Lemma insert_by_sorted {A} (k : A -> Z) x : forall l,
  Sorted (le_key k) l -> Sorted (le_key k) (insert_by k x l).
Proof.
  induction l as [|y l IH]; intros H; cbn [insert_by].
  - repeat constructor.
  - destruct (k x <=? k y) eqn:E.
    + apply Z.leb_le in E. constructor; [exact H | constructor; exact E].
    + apply Z.leb_gt in E. inversion H as [|? ? Hs Hh]; subst.
      constructor; [apply IH; exact Hs|].
      destruct l as [|z l]; cbn [insert_by].
      * constructor. unfold le_key. lia.
      * destruct (k x <=? k z); constructor; unfold le_key; [lia|].
        inversion Hh; subst. assumption.
Qed.

Lemma sort_by_sorted {A} (k : A -> Z) : forall l, Sorted (le_key k) (sort_by k l).
Proof.
  induction l as [|x l IH]; [constructor|]. cbn [sort_by fold_right]. apply insert_by_sorted. exact IH.
Qed.

(* ---- throttles ---- *)

Lemma parse_throttle_some t th : parse_throttle t = Some th ->
  0 < tc_bw t /\ t_bw th = tc_bw t /\ t_start th <> t_end th /\ (t_end th = -1 \/ t_start th < t_end th) /\
  exists a b, split_dash [] (tc_bytes t) = [a; b].
Proof.
  unfold parse_throttle. destruct (tc_bw t <=? 0) eqn:E; [discriminate|]. apply Z.leb_gt in E.
  destruct (split_dash [] (tc_bytes t)) as [|a [|b [|c l]]]; try discriminate.
  destruct (match a with [] => Some 0 | _ :: _ => parse_int64 a end) as [st|]; [|discriminate].
  destruct b as [|b0 b'].
  - destruct (st =? -1) eqn:E1; [discriminate|]. apply Z.eqb_neq in E1.
    intros H. inversion H; subst. cbn. repeat split; try lia; eauto.
  - destruct (parse_int64 (b0 :: b')) as [en|]; [|discriminate].
    destruct (en <? st) eqn:E1; [discriminate|]. destruct (st =? en) eqn:E2; [discriminate|].
    apply Z.ltb_ge in E1. apply Z.eqb_neq in E2.
    intros H. inversion H; subst. cbn. repeat split; try lia; eauto.
Qed.

(* adjacent throttles of an accepted list do not overlap; only the last may be open-ended *)
Fixpoint disjoint_chain (l : list throttle) : Prop :=
  match l with
  | [] => True
  | t :: rest =>
      match rest with
      | [] => True
      | t2 :: _ => t_end t <> -1 /\ t_end t <= t_start t2 /\ disjoint_chain rest
      end
  end.

Lemma thr_actions_disjoint dbw : forall l r, thr_actions l dbw = Some r -> disjoint_chain l.
Proof.
  induction l as [|t rest IH]; intros r H; [exact I|].
  cbn [thr_actions] in H. destruct rest as [|t2 rest']; [exact I|].
  destruct ((t_end t >? t_start t2) || (t_end t =? -1)) eqn:E; [discriminate|].
  apply orb_false_iff in E. destruct E as [E1 E2].
  rewrite Z.gtb_ltb in E1. apply Z.ltb_ge in E1. apply Z.eqb_neq in E2.
  destruct (thr_actions (t2 :: rest') dbw) as [r'|] eqn:R; [|discriminate].
  cbn [disjoint_chain]. repeat split; try assumption. exact (IH r' eq_refl).
Qed.

(* overlapping throttles (after sorting by start) are rejected *)
Lemma thr_actions_overlap_rejected dbw t t2 rest pre :
  (t_start t2 < t_end t \/ t_end t = -1) ->
  thr_actions (pre ++ t :: t2 :: rest) dbw = None.
Proof.
  intros Hov. induction pre as [|p pre IH].
  - cbn [app thr_actions].
    assert ((t_end t >? t_start t2) || (t_end t =? -1) = true) as ->; [|reflexivity].
    apply orb_true_iff. destruct Hov as [H|H]; [left; rewrite Z.gtb_ltb; apply Z.ltb_lt; lia | right; apply Z.eqb_eq; exact H].
  - cbn [app]. cbn [thr_actions]. destruct (pre ++ t :: t2 :: rest) as [|q qs] eqn:Q.
    + destruct pre; discriminate.
    + destruct ((t_end p >? t_start q) || (t_end p =? -1)); [reflexivity|]. rewrite IH. reflexivity.
Qed.

Lemma thr_actions_bytes dbw : forall l r, thr_actions l dbw = Some r ->
  forall a, In a r -> exists t, In t l /\ (abyte a = t_start t \/ abyte a = t_end t /\ t_end t <> -1) /\
                         exists b, kind a = KBw b /\ count a = bw_action_count.
Proof.
  induction l as [|t rest IH]; intros r H a Ha.
  - cbn in H. inversion H; subst. destruct Ha.
  - cbn [thr_actions] in H. destruct rest as [|t2 rest'].
    + destruct (t_end t =? -1) eqn:E; inversion H; subst.
      * destruct Ha as [<-|[]]. exists t. split; [left; reflexivity|]. split; [left; reflexivity|]. eexists; split; reflexivity.
      * apply Z.eqb_neq in E. destruct Ha as [<-|[<-|[]]]; exists t; (split; [left; reflexivity|]);
          (split; [|eexists; split; reflexivity]); [left | right]; cbn; auto.
    + destruct ((t_end t >? t_start t2) || (t_end t =? -1)) eqn:E; [discriminate|].
      apply orb_false_iff in E. destruct E as [_ E2]. apply Z.eqb_neq in E2.
      destruct (thr_actions (t2 :: rest') dbw) as [r'|] eqn:R; [|discriminate].
      assert (Hrec : forall a, In a r' -> exists t0, In t0 (t :: t2 :: rest') /\
                 (abyte a = t_start t0 \/ abyte a = t_end t0 /\ t_end t0 <> -1) /\
                 exists b, kind a = KBw b /\ count a = bw_action_count).
      { intros a0 Ha0. destruct (IH r' eq_refl a0 Ha0) as [t0 [T1 T2]]. exists t0. split; [right; exact T1 | exact T2]. }
      destruct (t_end t =? t_start t2); inversion H; subst.
      * destruct Ha as [<-|Ha]; [|apply Hrec; exact Ha].
        exists t. split; [left; reflexivity|]. split; [left; reflexivity|]. eexists; split; reflexivity.
      * destruct Ha as [<-|[<-|Ha]]; [| |apply Hrec; exact Ha]; exists t; (split; [left; reflexivity|]);
          (split; [|eexists; split; reflexivity]); [left | right]; cbn; auto.
Qed.

(* ---- one shape ---- *)

Record shape_ok (sc : shape_cfg) (sh : shape) : Prop := mkShapeOk
  { so_regex : sc_regex sc <> [] /\ sc_regex_ok sc = true;
    so_maxbw : 0 <= sc_maxbw sc /\ 0 < sh_maxbw sh;
    so_thr : forall t, In t (sc_thr sc) -> 0 < tc_bw t /\ exists th, parse_throttle t = Some th;
    so_halts : forall h, In h (sc_halts sc) -> 0 <= hc_dur h /\ 0 <= hc_byte h /\ hc_count h <> 0;
    so_closes : forall c, In c (sc_closes sc) -> 0 <= cc_byte c /\ cc_count c <> 0;
    so_disjoint : disjoint_chain (sh_thr sh) /\ Sorted (le_key t_start) (sh_thr sh);
    so_sorted : Sorted (le_key abyte) (sh_acts sh);
    so_enabled : forall a, In a (sh_acts sh) -> eff_count a <> 0 }.

Lemma default_bw_pos : 0 < default_bw.
Proof. reflexivity. Qed.

Lemma validate_shape_ok sc sh : validate_shape sc = Some sh -> shape_ok sc sh.
Proof.
  unfold validate_shape. destruct (sc_regex sc) as [|r0 rg] eqn:RG; [discriminate|].
  destruct (negb (sc_regex_ok sc)) eqn:OK; [discriminate|]. apply negb_false_iff in OK.
  destruct (sc_maxbw sc <? 0) eqn:MB; [discriminate|]. apply Z.ltb_ge in MB.
  destruct (map_opt parse_throttle (sc_thr sc)) as [thr|] eqn:MT; [|discriminate].
  destruct (map_opt check_halt (sc_halts sc)) as [hs|] eqn:MH; [|discriminate].
  destruct (map_opt check_close (sc_closes sc)) as [cs|] eqn:MC; [|discriminate].
  set (maxbw := if sc_maxbw sc =? 0 then default_bw else sc_maxbw sc).
  destruct (thr_actions (sort_by t_start thr) maxbw) as [tas|] eqn:TA; [|discriminate].
  intros H. inversion H; subst. clear H.
  destruct (map_opt_some _ _ _ MT) as [T1 [T2 _]].
  destruct (map_opt_some _ _ _ MH) as [H1 [H2 _]].
  destruct (map_opt_some _ _ _ MC) as [C1 [C2 _]].
  constructor; cbn [sh_acts sh_thr sh_maxbw].
  - split; [congruence | exact OK].
  - split; [exact MB|]. subst maxbw. destruct (sc_maxbw sc =? 0) eqn:E; [apply default_bw_pos|]. apply Z.eqb_neq in E. lia.
  - intros t Ht. destruct (T1 t Ht) as [th [P _]]. split; [|exists th; exact P].
    apply parse_throttle_some in P. tauto.
  - intros h Hh. destruct (H1 h Hh) as [a [P _]]. unfold check_halt in P.
    destruct ((hc_dur h <? 0) || (hc_byte h <? 0)) eqn:E; [discriminate|]. apply orb_false_iff in E.
    destruct E as [E1 E2]. apply Z.ltb_ge in E1. apply Z.ltb_ge in E2.
    destruct (hc_count h =? 0) eqn:E3; [discriminate|]. apply Z.eqb_neq in E3. tauto.
  - intros c Hc. destruct (C1 c Hc) as [a [P _]]. unfold check_close in P.
    destruct (cc_byte c <? 0) eqn:E; [discriminate|]. apply Z.ltb_ge in E.
    destruct (cc_count c =? 0) eqn:E3; [discriminate|]. apply Z.eqb_neq in E3. tauto.
  - split; [exact (thr_actions_disjoint _ _ _ TA) | apply sort_by_sorted].
  - apply sort_by_sorted.
  - intros a Ha. apply (Permutation_in _ (Permutation_sym (sort_by_perm abyte _))) in Ha.
    apply in_app_or in Ha. destruct Ha as [Ha|Ha]; [|apply in_app_or in Ha; destruct Ha as [Ha|Ha]].
    + destruct (H2 a Ha) as [h [_ P]]. unfold check_halt in P.
      destruct ((hc_dur h <? 0) || (hc_byte h <? 0)); [discriminate|].
      destruct (hc_count h =? 0) eqn:E3; [discriminate|]. apply Z.eqb_neq in E3.
      inversion P; subst. exact E3.
    + destruct (C2 a Ha) as [c [_ P]]. unfold check_close in P.
      destruct (cc_byte c <? 0); [discriminate|].
      destruct (cc_count c =? 0) eqn:E3; [discriminate|]. apply Z.eqb_neq in E3.
      inversion P; subst. exact E3.
    + destruct (thr_actions_bytes _ _ _ TA a Ha) as [_ [_ [_ [b [K _]]]]].
      unfold eff_count. rewrite K. discriminate.
Qed.

(* ---- whole configuration ---- *)

Lemma validate_accepts_only_good c shs : validate c = Some shs ->
  defaults_ok (cf_defaults c) = true /\
  (forall sc, In sc (cf_shapes c) -> exists sh, validate_shape sc = Some sh /\ shape_ok sc sh /\ In (sc_regex sc, sh) shs) /\
  (forall k sh, In (k, sh) shs -> exists sc, In sc (cf_shapes c) /\ k = sc_regex sc /\ shape_ok sc sh).
Proof.
  unfold validate. destruct (negb (defaults_ok (cf_defaults c))) eqn:D; [discriminate|].
  apply negb_false_iff in D. intros H.
  destruct (map_opt_some _ _ _ H) as [M1 [M2 _]]. split; [exact D|]. split.
  - intros sc Hsc. destruct (M1 sc Hsc) as [[k sh] [P Hin]].
    destruct (validate_shape sc) as [sh'|] eqn:V; [|discriminate]. inversion P; subst.
    exists sh. split; [reflexivity|]. split; [apply validate_shape_ok; exact V | exact Hin].
  - intros k sh Hin. destruct (M2 (k, sh) Hin) as [sc [Hsc P]].
    destruct (validate_shape sc) as [sh'|] eqn:V; [|discriminate]. inversion P; subst.
    exists sc. split; [exact Hsc|]. split; [reflexivity | apply validate_shape_ok; exact V].
Qed.

Lemma defaults_ok_iff d : defaults_ok d = true <->
  match d with None => True | Some (up, down, l) => 0 <= up /\ 0 <= down /\ 0 <= l end.
Proof.
  destruct d as [[[up down] l]|]; cbn [defaults_ok]; [|tauto].
  rewrite negb_true_iff, !orb_false_iff, !Z.ltb_ge. tauto.
Qed.

(* one defective element anywhere makes the whole configuration rejected *)
Lemma validate_rejects c :
  (match cf_defaults c with Some (up, down, l) => up < 0 \/ down < 0 \/ l < 0 | None => False end) \/
  (exists sc, In sc (cf_shapes c) /\
     (sc_regex sc = [] \/ sc_regex_ok sc = false \/ sc_maxbw sc < 0 \/
      (exists t, In t (sc_thr sc) /\ (tc_bw t <= 0 \/ parse_throttle t = None)) \/
      (exists h, In h (sc_halts sc) /\ (hc_dur h < 0 \/ hc_byte h < 0 \/ hc_count h = 0)) \/
      (exists x, In x (sc_closes sc) /\ (cc_byte x < 0 \/ cc_count x = 0)))) ->
  validate c = None.
Proof.
  intros H. destruct (validate c) as [shs|] eqn:V; [exfalso|reflexivity].
  destruct (validate_accepts_only_good c shs V) as [D [G _]].
  destruct H as [H|[sc [Hsc H]]].
  - apply defaults_ok_iff in D. destruct (cf_defaults c) as [[[up down] l]|]; [lia | exact H].
  - destruct (G sc Hsc) as [sh [_ [OK _]]]. destruct OK.
    destruct H as [H|[H|[H|[[t [Ht H]]|[[h [Hh H]]|[x [Hx H]]]]]]].
    + tauto.
    + destruct so_regex0 as [_ E]. congruence.
    + lia.
    + destruct (so_thr0 t Ht) as [A [th B]]. destruct H; [lia | congruence].
    + destruct (so_halts0 h Hh) as [A [B C]]. lia.
    + destruct (so_closes0 x Hx) as [A B]. lia.
Qed.

Example malformed_ranges_rejected :
  map (fun s => parse_throttle (mkTC (list_ascii_of_string s) 100))
      ["10-5"; "7-7"; "5--9"; "abc-9"; "12"; "9223372036854775808-"; "1-2-3"]%string
  = [None; None; None; None; None; None; None].
Proof. vm_compute. reflexivity. Qed.

Example wellformed_ranges_parsed :
  map (fun s => parse_throttle (mkTC (list_ascii_of_string s) 100)) ["-"; "5-"; "-9"; "+3-+9"; "0-1"]%string
  = [Some (mkThr 0 (-1) 100); Some (mkThr 5 (-1) 100); Some (mkThr 0 9 100); Some (mkThr 3 9 100); Some (mkThr 0 1 100)].
Proof. vm_compute. reflexivity. Qed.
