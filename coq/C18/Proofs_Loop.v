(* C18 — proofs, part 4: the write loop, by induction with an invariant.

   For ALL action lists sorted by byte (what validation produces), range
   starts, head lengths, sequences of writes and positive grant streams:
   no panic, no out-of-fuel, close at k cuts exactly there, halts and
   bandwidth changes happen exactly at their offsets, counts are decremented.

   Invariant (InvAt): the action list is split as  done ++ todo ;
     acts s = map fire done ++ todo      (passed actions fired-or-untouched)
     next s = head of todo (index = length done), enabled, off s <= its byte
     every element of done is behind the range start, or disabled, or a
       non-close action whose event is stamped at hl + (byte - rs)
     bytes emitted = (hl - hdr_left) + (off - rs);  no ForceClose so far. *)
From Coq Require Import List ZArith Bool Ascii Arith Lia Sorted.
From Martian.C18 Require Import Gen_Shape Model Proofs.
Import ListNotations.
Open Scope Z_scope.

(* ------------------------------------------------------------------ *)
(* lists                                                                *)
(* ------------------------------------------------------------------ *)

Lemma zlen_app {A} (a b : list A) : Zlength (a ++ b) = Zlength a + Zlength b.
Proof. rewrite !Zlength_correct, app_length. lia. Qed.

Lemma zlen_nonneg {A} (a : list A) : 0 <= Zlength a.
Proof. rewrite Zlength_correct. lia. Qed.

Lemma upd_mid {A} (l1 : list A) a l2 x : upd (l1 ++ a :: l2) (length l1) x = l1 ++ x :: l2.
Proof. induction l1 as [|h t IH]; cbn [app length upd]; [reflexivity | rewrite IH; reflexivity]. Qed.

Lemma nth_error_mid {A} (l1 : list A) a l2 : nth_error (l1 ++ a :: l2) (length l1) = Some a.
Proof. induction l1 as [|h t IH]; cbn [app length nth_error]; [reflexivity | exact IH]. Qed.

Lemma skipn_mid {A} (l1 : list A) a l2 : skipn (S (length l1)) (l1 ++ a :: l2) = l2.
Proof. induction l1 as [|h t IH]; cbn [app length skipn]; [reflexivity | exact IH]. Qed.

Lemma skipn_len_app {A} (l1 l2 : list A) : skipn (length l1) (l1 ++ l2) = l2.
Proof. induction l1 as [|h t IH]; cbn [app length skipn]; [reflexivity | exact IH]. Qed.

Lemma take_some n (b : bytes) : 0 <= n <= Zlength b ->
  take n b = Some (firstn (Z.to_nat n) b, skipn (Z.to_nat n) b).
Proof.
  intros H. unfold take.
  assert ((0 <=? n) && (n <=? Zlength b) = true) as ->; [|reflexivity].
  apply andb_true_iff. split; apply Z.leb_le; lia.
Qed.

Lemma skipn_length_z n (b : bytes) : 0 < n <= Zlength b -> (length (skipn (Z.to_nat n) b) < length b)%nat.
Proof. intros H. rewrite skipn_length. rewrite Zlength_correct in H. lia. Qed.

Lemma firstn_zlen n (b : bytes) : 0 <= n <= Zlength b -> Zlength (firstn (Z.to_nat n) b) = n.
Proof. intros H. rewrite Zlength_correct in *. rewrite firstn_length. lia. Qed.

(* ------------------------------------------------------------------ *)
(* stamps                                                               *)
(* ------------------------------------------------------------------ *)

Lemma stamps_app : forall l1 l2 p,
  stamps p (l1 ++ l2) = stamps p l1 ++ stamps (p + Zlength (emitted l1)) l2.
Proof.
  induction l1 as [|e l1 IH]; intros l2 p.
  - cbn. rewrite Z.add_0_r. reflexivity.
  - destruct e; cbn [app stamps emitted]; rewrite IH; cbn [app]; try reflexivity.
    rewrite zlen_app, Z.add_assoc. reflexivity.
Qed.

Lemma stamps_mono p l1 l2 x : In x (stamps p l1) -> In x (stamps p (l1 ++ l2)).
Proof. intros H. rewrite stamps_app. apply in_or_app. left. exact H. Qed.

(* a stamp (p, e): e occurs in the trace with exactly p bytes delivered before it *)
Lemma stamp_position : forall evs p0 p e, In (p, e) (stamps p0 evs) ->
  exists l1 l2, evs = l1 ++ e :: l2 /\ p = p0 + Zlength (emitted l1).
Proof.
  induction evs as [|x evs IH]; intros p0 p e H; [destruct H|].
  assert (Hrec : forall q, In (p, e) (stamps q evs) ->
            exists l1 l2, evs = l1 ++ e :: l2 /\ p = q + Zlength (emitted l1)) by (intros q; apply IH).
  destruct x as [bs|d|d|b|]; cbn [stamps] in H.
  - destruct (Hrec _ H) as [l1 [l2 [E1 E2]]]. exists (Emit bs :: l1), l2. split; [rewrite E1; reflexivity|].
    cbn [emitted]. rewrite zlen_app. lia.
  - destruct H as [H|H].
    + inversion H; subst. exists [], evs. split; [reflexivity | cbn; lia].
    + destruct (Hrec _ H) as [l1 [l2 [E1 E2]]]. exists (Latency d :: l1), l2. split; [rewrite E1; reflexivity | exact E2].
  - destruct H as [H|H].
    + inversion H; subst. exists [], evs. split; [reflexivity | cbn; lia].
    + destruct (Hrec _ H) as [l1 [l2 [E1 E2]]]. exists (Sleep d :: l1), l2. split; [rewrite E1; reflexivity | exact E2].
  - destruct H as [H|H].
    + inversion H; subst. exists [], evs. split; [reflexivity | cbn; lia].
    + destruct (Hrec _ H) as [l1 [l2 [E1 E2]]]. exists (SetBw b :: l1), l2. split; [rewrite E1; reflexivity | exact E2].
  - destruct H as [H|H].
    + inversion H; subst. exists [], evs. split; [reflexivity | cbn; lia].
    + destruct (Hrec _ H) as [l1 [l2 [E1 E2]]]. exists (ForceClose :: l1), l2. split; [rewrite E1; reflexivity | exact E2].
Qed.

(* ------------------------------------------------------------------ *)
(* counts, firing                                                       *)
(* ------------------------------------------------------------------ *)

Definition fire (rs : Z) (a : action) : action := if abyte a <? rs then a else dec a.

Lemma dec_disabled a : eff_count a = 0 -> dec a = a.
Proof.
  unfold eff_count, dec. destruct a as [k b c]; cbn [kind count abyte].
  destruct k; intros H; try reflexivity; subst c; reflexivity.
Qed.

Lemma fire_disabled rs a : eff_count a = 0 -> fire rs a = a.
Proof. intros H. unfold fire. rewrite (dec_disabled a H). destruct (abyte a <? rs); reflexivity. Qed.

Lemma fire_behind rs a : abyte a < rs -> fire rs a = a.
Proof. intros H. unfold fire. apply Z.ltb_lt in H. rewrite H. reflexivity. Qed.

Lemma fire_reached rs a : rs <= abyte a -> fire rs a = dec a.
Proof. intros H. unfold fire. apply Z.ltb_ge in H. rewrite H. reflexivity. Qed.

Lemma map_fire_disabled rs l : Forall (fun a => eff_count a = 0) l -> map (fire rs) l = l.
Proof.
  induction 1 as [|a l Ha Hl IH]; [reflexivity|]. cbn [map]. rewrite IH, (fire_disabled rs a Ha). reflexivity.
Qed.

Lemma map_fire_skipped rs l : Forall (fun a => abyte a < rs \/ eff_count a = 0) l -> map (fire rs) l = l.
Proof.
  induction 1 as [|a l Ha Hl IH]; [reflexivity|]. cbn [map]. rewrite IH.
  destruct Ha as [Ha|Ha]; [rewrite (fire_behind rs a Ha) | rewrite (fire_disabled rs a Ha)]; reflexivity.
Qed.

Lemma abyte_dec a : abyte (dec a) = abyte a.
Proof. unfold dec. destruct (kind a); reflexivity. Qed.

Lemma kind_dec a : kind (dec a) = kind a.
Proof. unfold dec. destruct (kind a) eqn:K; cbn; congruence. Qed.

(* GetNextActionFromIndex as a split of the list *)
Lemma find_enabled_split : forall l base,
  match find_enabled l base with
  | Some (j, nb) => exists l1 a l2, l = l1 ++ a :: l2 /\ j = (base + length l1)%nat /\
                      Forall (fun a => eff_count a = 0) l1 /\ eff_count a <> 0 /\ abyte a = nb
  | None => Forall (fun a => eff_count a = 0) l
  end.
Proof.
  induction l as [|a l IH]; intros base; cbn [find_enabled]; [constructor|].
  destruct (eff_count a =? 0) eqn:E.
  - apply Z.eqb_eq in E. specialize (IH (S base)). destruct (find_enabled l (S base)) as [[j nb]|].
    + destruct IH as [l1 [a' [l2 [E1 [E2 [E3 [E4 E5]]]]]]]. exists (a :: l1), a', l2.
      split; [rewrite E1; reflexivity|]. split; [cbn [length]; lia|]. split; [constructor; assumption | split; assumption].
    + constructor; assumption.
  - apply Z.eqb_neq in E. exists [], a, l. split; [reflexivity|]. split; [cbn; lia|].
    split; [constructor | split; [exact E | reflexivity]].
Qed.

(* sort.Search(byte >= start) as a split of the list *)
Lemma search_ge_split : forall l start base,
  exists l1 l2, l = l1 ++ l2 /\ search_ge l start base = (base + length l1)%nat /\
    Forall (fun a => abyte a < start) l1 /\
    match l2 with [] => True | a :: _ => start <= abyte a end.
Proof.
  induction l as [|a l IH]; intros start base; cbn [search_ge].
  - exists [], []. split; [reflexivity|]. split; [cbn; lia|]. split; constructor.
  - destruct (abyte a >=? start) eqn:E.
    + exists [], (a :: l). split; [reflexivity|]. split; [cbn; lia|]. split; [constructor|].
      rewrite Z.geb_leb in E. apply Z.leb_le in E. exact E.
    + rewrite Z.geb_leb in E. apply Z.leb_gt in E.
      destruct (IH start (S base)) as [l1 [l2 [E1 [E2 [E3 E4]]]]].
      exists (a :: l1), l2. split; [rewrite E1; reflexivity|]. split; [rewrite E2; cbn [length]; lia|].
      split; [constructor; assumption | exact E4].
Qed.

(* sortedness *)
Definition by_byte (a b : action) : Prop := abyte a <= abyte b.

Lemma ssorted_app_r {A} (R : A -> A -> Prop) l1 l2 : StronglySorted R (l1 ++ l2) -> StronglySorted R l2.
Proof. induction l1 as [|h t IH]; [auto|]. cbn [app]. intros H. inversion H; subst. auto. Qed.

Lemma ssorted_head_le l1 a l2 x : StronglySorted by_byte (l1 ++ a :: l2) -> In x l2 -> abyte a <= abyte x.
Proof.
  intros H Hx. apply ssorted_app_r in H. inversion H as [|? ? _ Hf]; subst.
  rewrite Forall_forall in Hf. exact (Hf x Hx).
Qed.

Lemma sorted_by_byte_strong l : Sorted (fun a b => abyte a <= abyte b) l -> StronglySorted by_byte l.
Proof.
  intros H. apply Sorted_StronglySorted; [|exact H].
  intros x y z. unfold by_byte. lia.
Qed.

(* first_close over a split *)
Lemma first_close_app l1 l2 rs :
  first_close (l1 ++ l2) rs = match first_close l1 rs with Some k => Some k | None => first_close l2 rs end.
Proof.
  induction l1 as [|a l1 IH]; [reflexivity|]. cbn [app first_close].
  destruct (kind a); try exact IH. destruct (negb (count a =? 0) && (rs <=? abyte a)); [reflexivity | exact IH].
Qed.

Definition not_live_close (rs : Z) (a : action) : Prop :=
  abyte a < rs \/ eff_count a = 0 \/ kind a <> KClose.

Lemma first_close_none l rs : Forall (not_live_close rs) l -> first_close l rs = None.
Proof.
  induction 1 as [|a l Ha Hl IH]; [reflexivity|]. cbn [first_close].
  destruct (kind a) eqn:K; try exact IH.
  assert (negb (count a =? 0) && (rs <=? abyte a) = false) as ->; [|exact IH].
  destruct Ha as [Ha|[Ha|Ha]]; [| |congruence].
  - apply andb_false_iff. right. apply Z.leb_gt. exact Ha.
  - apply andb_false_iff. left. unfold eff_count in Ha. rewrite K in Ha. rewrite Ha. reflexivity.
Qed.

Lemma first_close_here c l rs : kind c = KClose -> eff_count c <> 0 -> rs <= abyte c ->
  first_close (c :: l) rs = Some (abyte c).
Proof.
  intros K E R. cbn [first_close]. rewrite K. unfold eff_count in E. rewrite K in E.
  assert (negb (count c =? 0) && (rs <=? abyte c) = true) as ->; [|reflexivity].
  apply andb_true_iff. split; [apply negb_true_iff, Z.eqb_neq; exact E | apply Z.leb_le; exact R].
Qed.

Lemma first_close_some : forall l rs k, first_close l rs = Some k ->
  exists l1 c l2, l = l1 ++ c :: l2 /\ kind c = KClose /\ eff_count c <> 0 /\ rs <= abyte c /\ abyte c = k.
Proof.
  induction l as [|a l IH]; intros rs k H; [discriminate|]. cbn [first_close] in H.
  assert (Hrec : first_close l rs = Some k ->
            exists l1 c l2, a :: l = l1 ++ c :: l2 /\ kind c = KClose /\ eff_count c <> 0 /\ rs <= abyte c /\ abyte c = k).
  { intros H'. destruct (IH rs k H') as [l1 [c [l2 [E R]]]]. exists (a :: l1), c, l2. rewrite E. split; [reflexivity | exact R]. }
  destruct (kind a) eqn:K; try (apply Hrec; exact H).
  destruct (negb (count a =? 0) && (rs <=? abyte a)) eqn:E; [|apply Hrec; exact H].
  apply andb_true_iff in E. destruct E as [E1 E2]. apply negb_true_iff, Z.eqb_neq in E1. apply Z.leb_le in E2.
  inversion H; subst. exists [], a, l. repeat split; try assumption. unfold eff_count. rewrite K. exact E1.
Qed.

(* the two-level fill gives the minimum of both grants and the amount wanted *)
Lemma nested_pos rl rg amt : 0 < rl -> 0 < rg -> 0 <= amt ->
  nested rl rg amt = Z.min (Z.min rl rg) amt.
Proof.
  intros A B C. unfold nested. destruct (Z.min rl amt =? 0) eqn:E.
  - apply Z.eqb_eq in E. lia.
  - apply Z.eqb_neq in E. lia.
Qed.

Lemma nested_bounds rl rg amt : 0 < rl -> 0 < rg -> 0 <= amt ->
  0 <= nested rl rg amt /\ nested rl rg amt <= rl /\ nested rl rg amt <= rg /\ nested rl rg amt <= amt.
Proof. intros A B C. rewrite (nested_pos rl rg amt A B C). lia. Qed.

(* ------------------------------------------------------------------ *)
(* one iteration of the loop, unfolded                                  *)
(* ------------------------------------------------------------------ *)

Definition cont (f : nat) (g : nat -> Z * Z) (rest : bytes) (total1 : Z) (evs0 : list ev)
           (s' : st) (extra : list ev) : st * list ev * res :=
  let '(s3, evs3, r) := body_loop f g s' rest total1 in (s3, evs0 ++ extra ++ evs3, r).

Definition amount (s : st) (len : Z) : Z :=
  match next s with
  | Some (_, nb) => if nb - off s <=? len then nb - off s else len
  | None => len
  end.

Lemma body_loop_step f g s x b' total :
  body_loop (S f) g s (x :: b') total =
  let bb := x :: b' in
  let mx := nested (fst (g (gi s))) (snd (g (gi s))) (amount s (Zlength bb)) in
  match take mx bb with
  | None => (s, [], RPanic)
  | Some (chunk, rest) =>
    let evs0 := if mx =? 0 then [] else [Emit chunk] in
    let s1 := set_off_gi s (off s + mx) (if mx =? 0 then gi s else S (gi s)) in
    match next s with
    | Some (ind, nb) =>
      if off s + mx >=? nb then
        if negb (valid s) then
          let '(i2, evs2, r2) := default_loop (S (length rest)) g (gi s1) rest 0 in
          (set_unshaped s1 i2, evs0 ++ evs2,
           match r2 with ROk n => ROk (total + mx + n) | RClosed n => RClosed (total + mx + n) | x => x end)
        else
          match nth_error (acts s) ind with
          | None => (s1, evs0, RPanic)
          | Some a =>
            if eff_count a =? 0 then
              cont f g rest (total + mx) evs0 (set_next s1 (next_from_index (valid s) (acts s) (S ind))) []
            else
              let acts' := upd (acts s) ind (dec a) in
              let s2 := set_acts s1 acts' in
              match kind a with
              | KClose => (s2, evs0 ++ [ForceClose], RClosed (total + mx))
              | k => cont f g rest (total + mx) evs0 (set_next s2 (next_from_index (valid s) acts' (S ind))) [ev_of k]
              end
          end
      else cont f g rest (total + mx) evs0 s1 []
    | None => cont f g rest (total + mx) evs0 s1 []
    end
  end.
Proof. reflexivity. Qed.

(* ------------------------------------------------------------------ *)
(* the invariant                                                        *)
(* ------------------------------------------------------------------ *)

Definition is_closed (r : res) : bool := match r with RClosed _ => true | _ => false end.

Section Loop.

Variable acts0 : list action.      (* Shape.Actions when the context was set *)
Variable rs hl : Z.                (* range start, head length *)
Variable g : nat -> Z * Z.         (* bucket grants: (local, global) per chunk *)
Hypothesis sorted0 : StronglySorted by_byte acts0.
Hypothesis hl_nonneg : 0 <= hl.
Hypothesis g_pos : forall i, 0 < fst (g i) /\ 0 < snd (g i).

(* an action already passed: behind the range start, disabled, or a fired
   non-close action whose event sits exactly at hl + (byte - rs) *)
Definition passed_ok (pre : list ev) (a : action) : Prop :=
  abyte a < rs \/ eff_count a = 0 \/
  (kind a <> KClose /\ In (hl + (abyte a - rs), ev_of (kind a)) (stamps 0 pre)).

Definition DoneOK (done : list action) (pre : list ev) : Prop := Forall (passed_ok pre) done.

Lemma doneok_mono done pre more : DoneOK done pre -> DoneOK done (pre ++ more).
Proof.
  unfold DoneOK. intros H. eapply Forall_impl; [|exact H]. intros a [A|[A|[A B]]].
  - left. exact A.
  - right. left. exact A.
  - right. right. split; [exact A | apply stamps_mono; exact B].
Qed.

Lemma doneok_not_live done pre : DoneOK done pre -> Forall (not_live_close rs) done.
Proof.
  intros H. eapply Forall_impl; [|exact H]. intros a [A|[A|[A _]]]; unfold not_live_close; tauto.
Qed.

Record InvAt (s : st) (pre : list ev) (done todo : list action) : Prop := mkInv
  { iv_sh : shaping s = true;
    iv_va : valid s = true;
    iv_hdr : 0 <= hdr_left s <= hl;
    iv_hoff : 0 < hdr_left s -> off s = rs;
    iv_rs : rs <= off s;
    iv_len : Zlength (emitted pre) = (hl - hdr_left s) + (off s - rs);
    iv_nofc : ~ In ForceClose pre;
    iv_split : acts0 = done ++ todo;
    iv_acts : acts s = map (fire rs) done ++ todo;
    iv_next : next s = match todo with [] => None | a :: _ => Some (length done, abyte a) end;
    iv_head : match todo with [] => True | a :: _ => eff_count a <> 0 /\ off s <= abyte a end;
    iv_done : DoneOK done pre }.

Definition Inv (s : st) (pre : list ev) : Prop := exists done todo, InvAt s pre done todo.

(* how a run can end *)
Inductive Outcome (s' : st) (all : list ev) (r : res) : Prop :=
| OutOk n : r = ROk n -> Inv s' all -> Outcome s' all r
| OutClosed n done c todo pre' :
    r = RClosed n -> acts0 = done ++ c :: todo ->
    kind c = KClose -> eff_count c <> 0 -> rs <= abyte c ->
    DoneOK done pre' -> all = pre' ++ [ForceClose] -> ~ In ForceClose pre' ->
    Zlength (emitted all) = hl + (abyte c - rs) ->
    acts s' = map (fire rs) (done ++ [c]) ++ todo ->
    Outcome s' all r.

Lemma not_in_app_fc (a b : list ev) : ~ In ForceClose a -> ~ In ForceClose b -> ~ In ForceClose (a ++ b).
Proof. intros A B H. apply in_app_or in H. tauto. Qed.

Lemma evs0_emitted (mx : Z) (chunk : bytes) : Zlength chunk = mx ->
  emitted (if mx =? 0 then [] else [Emit chunk]) = chunk.
Proof.
  intros H. destruct (mx =? 0) eqn:E; [|cbn; apply app_nil_r].
  apply Z.eqb_eq in E. subst mx. destruct chunk; [reflexivity|].
  rewrite Zlength_cons in E. pose proof (zlen_nonneg chunk). lia.
Qed.

Lemma evs0_nofc (mx : Z) (chunk : bytes) : ~ In ForceClose (if mx =? 0 then [] else [Emit chunk]).
Proof. destruct (mx =? 0); cbn; [tauto | intros [H|[]]; discriminate]. Qed.

(* the state after emitting a chunk, before any action *)
Lemma inv_after_chunk s pre done todo mx chunk i :
  InvAt s pre done todo -> hdr_left s = 0 -> Zlength chunk = mx -> 0 <= mx ->
  match todo with [] => True | a :: _ => off s + mx <= abyte a end ->
  InvAt (set_off_gi s (off s + mx) i) (pre ++ (if mx =? 0 then [] else [Emit chunk])) done todo.
Proof.
  intros I H0 Hc Hm Hh. destruct I. constructor; cbn [set_off_gi shaping valid hdr_left off next acts]; try assumption.
  - intros F. lia.
  - lia.
  - rewrite emitted_app, zlen_app, (evs0_emitted mx chunk Hc), iv_len0. lia.
  - apply not_in_app_fc; [assumption | apply evs0_nofc].
  - destruct todo as [|a t]; [exact I|]. split; [tauto | exact Hh].
  - apply doneok_mono. assumption.
Qed.

(* advancing past a fired (or disabled) head of todo *)
Lemma inv_advance s pre done a t extra :
  InvAt s pre done (a :: t) -> hdr_left s = 0 -> off s = abyte a ->
  passed_ok (pre ++ extra) a -> ~ In ForceClose extra -> emitted extra = [] ->
  let acts' := map (fire rs) done ++ fire rs a :: t in
  exists done' todo',
    InvAt (set_next (set_acts s acts') (next_from_index true acts' (S (length done)))) (pre ++ extra) done' todo' /\
    (length todo' < length (a :: t))%nat.
Proof.
  intros I H0 Hoff Hp Hfc Hem acts'. destruct I.
  assert (Hsk : skipn (S (length done)) acts' = t).
  { unfold acts'. rewrite <- (map_length (fire rs) done). apply skipn_mid. }
  unfold next_from_index. rewrite Hsk.
  pose proof (find_enabled_split t (S (length done))) as FS.
  assert (Hcommon : forall done' todo', acts0 = done' ++ todo' -> acts' = map (fire rs) done' ++ todo' ->
             DoneOK done' (pre ++ extra) ->
             forall nx, nx = match todo' with [] => None | a' :: _ => Some (length done', abyte a') end ->
             match todo' with [] => True | a' :: _ => eff_count a' <> 0 /\ off s <= abyte a' end ->
             InvAt (set_next (set_acts s acts') nx) (pre ++ extra) done' todo').
  { intros done' todo' E1 E2 E3 nx E4 E5. constructor; cbn [set_next set_acts shaping valid hdr_left off next acts]; try assumption.
    - rewrite emitted_app, Hem, app_nil_r. assumption.
    - apply not_in_app_fc; assumption. }
  destruct (find_enabled t (S (length done))) as [[j nb]|].
  - destruct FS as [l1 [a' [l2 [E1 [E2 [E3 [E4 E5]]]]]]].
    exists (done ++ a :: l1), (a' :: l2). split; [|rewrite E1; cbn [length]; rewrite app_length; cbn [length]; lia].
    apply Hcommon.
    + rewrite iv_split0, E1, <- app_assoc. reflexivity.
    + unfold acts'. rewrite E1, map_app. cbn [map]. rewrite (map_fire_disabled rs l1 E3), <- app_assoc. reflexivity.
    + unfold DoneOK. apply Forall_app. split; [apply doneok_mono; assumption|].
      constructor; [exact Hp|]. eapply Forall_impl; [|exact E3]. intros z Hz. right. left. exact Hz.
    + rewrite E2, app_length. cbn [length]. rewrite <- E5. f_equal. f_equal. lia.
    + split; [exact E4|]. rewrite Hoff.
      apply (ssorted_head_le done a t a'); [rewrite <- iv_split0; exact sorted0|].
      rewrite E1. apply in_or_app. right. left. reflexivity.
  - exists (done ++ a :: t), []. split; [|cbn [length]; lia].
    apply Hcommon.
    + rewrite iv_split0, <- app_assoc, app_nil_r. reflexivity.
    + unfold acts'. rewrite map_app. cbn [map]. rewrite (map_fire_disabled rs t FS), app_nil_r. reflexivity.
    + unfold DoneOK. apply Forall_app. split; [apply doneok_mono; assumption|].
      constructor; [exact Hp|]. eapply Forall_impl; [|exact FS]. intros z Hz. right. left. exact Hz.
    + reflexivity.
    + exact I.
Qed.

Lemma nth_error_mid_n {A} (l1 : list A) a l2 n : n = length l1 -> nth_error (l1 ++ a :: l2) n = Some a.
Proof. intros ->. apply nth_error_mid. Qed.

Lemma upd_mid_n {A} (l1 : list A) a l2 x n : n = length l1 -> upd (l1 ++ a :: l2) n x = l1 ++ x :: l2.
Proof. intros ->. apply upd_mid. Qed.

(* The loop, by induction on the fuel; the measure is  bytes left + actions left. *)
Lemma body_inv : forall fuel b s total pre done todo s' evs r,
  InvAt s pre done todo -> hdr_left s = 0 ->
  (length b + length todo < fuel)%nat ->
  body_loop fuel g s b total = (s', evs, r) ->
  Outcome s' (pre ++ evs) r.
Proof.
  induction fuel as [|f IH]; intros b s total pre done todo s' evs r I H0 Hf H; [lia|].
  destruct b as [|x b'].
  - cbn in H. injection H as <- <- <-. rewrite app_nil_r.
    eapply OutOk; [reflexivity | exists done, todo; exact I].
  - rewrite body_loop_step in H. cbn zeta in H.
    set (bb := x :: b') in *.
    assert (Hlen1 : 1 <= Zlength bb) by (unfold bb; rewrite Zlength_cons; pose proof (zlen_nonneg b'); lia).
    assert (Hlenb : length bb = S (length b')) by reflexivity.
    destruct (g_pos (gi s)) as [Hg1 Hg2].
    set (gm := Z.min (fst (g (gi s))) (snd (g (gi s)))) in *.
    assert (Hg : 0 < gm) by (unfold gm; lia).
    destruct todo as [|a t].
    + (* ---- no action ahead ---- *)
      pose proof (iv_next _ _ _ _ I) as Hn. cbn in Hn.
      unfold amount in H. rewrite Hn in H.
      rewrite (nested_pos _ _ (Zlength bb) Hg1 Hg2) in H by lia. fold gm in H.
      set (mx := Z.min gm (Zlength bb)) in *.
      assert (Hmx : 0 < mx <= Zlength bb) by (unfold mx; lia).
      rewrite (take_some mx bb) in H by lia.
      unfold cont in H.
      destruct (body_loop f g _ _ _) as [[s3 evs3] r3] eqn:B. injection H as <- <- <-.
      cbn [app]. rewrite app_assoc.
      eapply (IH _ _ _ _ done [] _ _ _ _ _ _ B).
      Unshelve.
      * apply inv_after_chunk; [exact I | exact H0 | apply firstn_zlen; lia | lia | exact Logic.I].
      * exact H0.
      * pose proof (skipn_length_z mx bb Hmx). cbn [length] in *. lia.
    + (* ---- an action ahead, at abyte a ---- *)
      pose proof (iv_next _ _ _ _ I) as Hn. cbn in Hn.
      destruct (iv_head _ _ _ _ I) as [Hen Hoff].
      pose proof (iv_rs _ _ _ _ I) as Hrs.
      unfold amount in H. rewrite Hn in H.
      set (till := abyte a - off s) in *.
      set (amt := if till <=? Zlength bb then till else Zlength bb) in *.
      assert (Hamt : 0 <= amt <= Zlength bb /\ amt <= till /\ (amt = 0 -> till = 0)).
      { unfold amt. destruct (till <=? Zlength bb) eqn:E; [apply Z.leb_le in E | apply Z.leb_gt in E]; unfold till in *; lia. }
      rewrite (nested_pos _ _ amt Hg1 Hg2) in H by lia. fold gm in H.
      set (mx := Z.min gm amt) in *.
      assert (Hmx : 0 <= mx <= amt /\ (mx = 0 -> amt = 0)) by (unfold mx; lia).
      rewrite (take_some mx bb) in H by lia.
      set (chunk := firstn (Z.to_nat mx) bb) in *.
      set (rest := skipn (Z.to_nat mx) bb) in *.
      assert (Hchunk : Zlength chunk = mx) by (apply firstn_zlen; lia).
      assert (Hrestle : (length rest <= length bb)%nat) by (unfold rest; rewrite skipn_length; lia).
      set (evs0 := if mx =? 0 then [] else [Emit chunk]) in *.
      set (s1 := set_off_gi s (off s + mx) (if mx =? 0 then gi s else S (gi s))) in *.
      destruct (off s + mx >=? abyte a) eqn:G.
      * (* the action offset is reached exactly *)
        rewrite Z.geb_leb in G. apply Z.leb_le in G.
        assert (Hat : off s + mx = abyte a) by (unfold till in *; lia).
        rewrite (iv_va _ _ _ _ I) in H. cbn [negb] in H.
        rewrite (iv_acts _ _ _ _ I) in H.
        rewrite (nth_error_mid_n (map (fire rs) done) a t (length done)) in H by (rewrite map_length; reflexivity).
        assert (eff_count a =? 0 = false) as E0 by (apply Z.eqb_neq; exact Hen).
        rewrite E0 in H.
        rewrite (upd_mid_n (map (fire rs) done) a t (dec a) (length done)) in H by (rewrite map_length; reflexivity).
        assert (Hfire : fire rs a = dec a) by (apply fire_reached; lia).
        assert (I1 : InvAt s1 (pre ++ evs0) done (a :: t)).
        { apply inv_after_chunk; [exact I | exact H0 | exact Hchunk | lia | lia]. }
        assert (Hlen1' : Zlength (emitted (pre ++ evs0)) = hl + (abyte a - rs)).
        { rewrite (iv_len _ _ _ _ I1). cbn [s1 set_off_gi hdr_left off]. rewrite H0. lia. }
        (* a non-close action fires and the loop goes on *)
        assert (Hgo : forall k, kind a = k -> k <> KClose ->
                   cont f g rest (total + mx) evs0
                        (set_next (set_acts s1 (map (fire rs) done ++ dec a :: t))
                                  (next_from_index true (map (fire rs) done ++ dec a :: t) (S (length done))))
                        [ev_of k] = (s', evs, r) -> Outcome s' (pre ++ evs) r).
        { intros k K Kn Hc. unfold cont in Hc.
          destruct (body_loop f g _ rest (total + mx)) as [[s3 evs3] r3] eqn:B. injection Hc as <- <- <-.
          assert (P1 : passed_ok ((pre ++ evs0) ++ [ev_of k]) a).
          { right. right. split; [congruence|]. rewrite K, stamps_app. apply in_or_app. right.
            rewrite Hlen1'. destruct k; cbn [ev_of stamps]; left; reflexivity. }
          assert (P2 : ~ In ForceClose [ev_of k]).
          { destruct k; cbn; intros [F|[]]; try discriminate. congruence. }
          assert (P3 : emitted [ev_of k] = []) by (destruct k; reflexivity).
          destruct (inv_advance s1 (pre ++ evs0) done a t [ev_of k] I1 H0 Hat P1 P2 P3) as [done' [todo' [I' Hl]]].
          cbn zeta in I'. rewrite Hfire in I'.
          change (pre ++ evs0 ++ ev_of k :: evs3) with (pre ++ evs0 ++ [ev_of k] ++ evs3).
          rewrite !app_assoc.
          eapply (IH _ _ _ _ done' todo' _ _ _ I' _ _ B).
          Unshelve.
          + exact H0.
          + cbn [length] in *. lia. }
        destruct (kind a) eqn:K.
        -- apply (Hgo (KHalt d) eq_refl); [discriminate | exact H].
        -- (* close_connection *)
           injection H as <- <- <-.
           eapply (OutClosed _ _ _ _ done a t (pre ++ evs0)); try reflexivity; try assumption.
           ++ exact (iv_split _ _ _ _ I).
           ++ lia.
           ++ exact (iv_done _ _ _ _ I1).
           ++ rewrite app_assoc. reflexivity.
           ++ exact (iv_nofc _ _ _ _ I1).
           ++ rewrite app_assoc, emitted_app. cbn [emitted]. rewrite app_nil_r. exact Hlen1'.
           ++ cbn [set_acts acts]. rewrite map_app. cbn [map]. rewrite Hfire, <- app_assoc. reflexivity.
        -- apply (Hgo (KBw b) eq_refl); [discriminate | exact H].
      * (* still before the action offset *)
        rewrite Z.geb_leb in G. apply Z.leb_gt in G.
        assert (Hpos : 0 < mx) by (unfold till in *; lia).
        unfold cont in H.
        destruct (body_loop f g _ _ _) as [[s3 evs3] r3] eqn:B. injection H as <- <- <-.
        cbn [app]. rewrite app_assoc.
        eapply (IH _ _ _ _ done (a :: t) _ _ _ _ _ _ B).
        Unshelve.
        -- apply inv_after_chunk; [exact I | exact H0 | exact Hchunk | lia | lia].
        -- exact H0.
        -- assert (length rest < length bb)%nat by (apply skipn_length_z; lia). cbn [length] in *. lia.
Qed.

(* header bytes / latency: everything but hdr_left and the trace is unchanged *)
Lemma inv_hdr s s1 pre done todo extra w :
  InvAt s pre done todo ->
  shaping s1 = shaping s -> valid s1 = valid s -> off s1 = off s -> next s1 = next s -> acts s1 = acts s ->
  hdr_left s1 = hdr_left s - w -> 0 <= w <= hdr_left s ->
  Zlength (emitted extra) = w -> ~ In ForceClose extra ->
  InvAt s1 (pre ++ extra) done todo.
Proof.
  intros I E1 E2 E3 E4 E5 E6 Hw Hz Hfc. destruct I.
  constructor; rewrite ?E1, ?E2, ?E3, ?E4, ?E5, ?E6; try assumption.
  - lia.
  - intros F. apply iv_hoff0. lia.
  - rewrite emitted_app, zlen_app, Hz, iv_len0. lia.
  - apply not_in_app_fc; assumption.
  - apply doneok_mono. assumption.
Qed.

Lemma lat_evs_nofc s : ~ In ForceClose (lat_evs s).
Proof. unfold lat_evs. destruct (lat s); cbn; [intros [F|[]]; discriminate | tauto]. Qed.

Lemma inv_acts_len s pre done todo : InvAt s pre done todo -> (length todo <= length (acts s))%nat.
Proof. intros I. rewrite (iv_acts _ _ _ _ I), app_length. lia. Qed.

Lemma write_inv s pre b s' evs r :
  Inv s pre -> write g s b = (s', evs, r) -> Outcome s' (pre ++ evs) r.
Proof.
  intros [done [todo I]] H. unfold write in H.
  rewrite (iv_sh _ _ _ _ I) in H. cbn [negb] in H.
  pose proof (iv_hdr _ _ _ _ I) as Hh.
  pose proof (inv_acts_len _ _ _ _ I) as Hal.
  destruct (0 <? hdr_left s) eqn:E.
  - apply Z.ltb_lt in E.
    set (w := Z.min (Zlength b) (hdr_left s)) in *.
    pose proof (zlen_nonneg b) as Hb.
    assert (Hw : 0 <= w <= Zlength b /\ w <= hdr_left s) by (unfold w; lia).
    rewrite (take_some w b) in H by lia.
    set (hd := firstn (Z.to_nat w) b) in *. set (rest := skipn (Z.to_nat w) b) in *.
    set (s1 := set_hdr (clear_lat s) (hdr_left s - w)) in *.
    assert (I1 : InvAt s1 (pre ++ (lat_evs s ++ [Emit hd])) done todo).
    { apply (inv_hdr s s1 pre done todo _ w I); try reflexivity; try lia.
      - rewrite emitted_app, emitted_lat. cbn [app emitted]. rewrite app_nil_r. apply firstn_zlen. lia.
      - apply not_in_app_fc; [apply lat_evs_nofc | cbn; intros [F|[]]; discriminate]. }
    destruct (Z.eq_dec (hdr_left s - w) 0) as [Z0|Zn].
    + destruct (body_loop _ g s1 rest w) as [[s2 evs2] r2] eqn:B. injection H as <- <- <-.
      replace (pre ++ lat_evs s ++ Emit hd :: evs2) with ((pre ++ (lat_evs s ++ [Emit hd])) ++ evs2)
        by (rewrite <- !app_assoc; reflexivity).
      eapply (body_inv _ _ _ _ _ done todo _ _ _ I1 _ _ B).
      Unshelve.
      * exact Z0.
      * cbn [clear_lat acts] in *. lia.
    + (* the whole buffer was header *)
      assert (Hrest : rest = []).
      { unfold rest. assert (w = Zlength b) as -> by lia. rewrite Zlength_correct, Nat2Z.id. apply skipn_all. }
      rewrite Hrest in H. cbn [body_loop] in H. injection H as <- <- <-.
      eapply OutOk; [reflexivity|]. exists done, todo.
      replace (pre ++ lat_evs s ++ [Emit hd]) with (pre ++ (lat_evs s ++ [Emit hd])) by reflexivity. exact I1.
  - apply Z.ltb_ge in E. assert (H0 : hdr_left s = 0) by lia.
    assert (I1 : InvAt (clear_lat s) (pre ++ lat_evs s) done todo).
    { apply (inv_hdr s (clear_lat s) pre done todo _ 0 I); try reflexivity; try lia.
      - cbn [clear_lat hdr_left]. lia.
      - rewrite emitted_lat. reflexivity.
      - apply lat_evs_nofc. }
    destruct (body_loop _ g (clear_lat s) b 0) as [[s2 evs2] r2] eqn:B. injection H as <- <- <-.
    rewrite app_assoc.
    eapply (body_inv _ _ _ _ _ done todo _ _ _ I1 _ _ B).
    Unshelve.
    + exact H0.
    + cbn [clear_lat acts] in *. lia.
Qed.

Lemma run_inv : forall ws s pre s' evs r,
  Inv s pre -> run g s ws = (s', evs, r) -> Outcome s' (pre ++ evs) r.
Proof.
  induction ws as [|w ws IH]; intros s pre s' evs r I H.
  - cbn in H. injection H as <- <- <-. rewrite app_nil_r. eapply OutOk; [reflexivity | exact I].
  - cbn [run] in H. destruct (write g s w) as [[s1 e1] r1] eqn:W.
    pose proof (write_inv _ _ _ _ _ _ I W) as O.
    destruct (is_ok r1) eqn:OK.
    + destruct ws as [|w2 ws'].
      * injection H as <- <- <-. exact O.
      * destruct (run g s1 (w2 :: ws')) as [[s2 e2] r2] eqn:R. injection H as <- <- <-.
        rewrite app_assoc. eapply IH; [|exact R].
        destruct O as [n En I1 | n ? ? ? ? En]; [exact I1 | rewrite En in OK; discriminate].
    + injection H as <- <- <-. exact O.
Qed.

(* proxy.go 531-568 establishes the invariant *)
Lemma open_ctx_inv thr lt i : rs > -1 ->
  Inv (fst (open_ctx true acts0 thr true rs hl lt i)) [].
Proof.
  intros Hrs. unfold open_ctx. assert (rs >? -1 = true) as -> by (apply Z.gtb_lt; lia).
  cbn [andb fst].
  unfold next_from_byte, next_from_index.
  destruct (search_ge_split acts0 rs 0) as [l1 [l2 [E1 [E2 [E3 E4]]]]].
  rewrite E2. cbn [Nat.add]. rewrite E1, skipn_len_app.
  pose proof (find_enabled_split l2 (length l1)) as FS.
  assert (Hsk1 : Forall (fun a => abyte a < rs \/ eff_count a = 0) l1).
  { eapply Forall_impl; [|exact E3]. intros a Ha. left. exact Ha. }
  destruct (find_enabled l2 (length l1)) as [[j nb]|].
  - destruct FS as [m1 [a [m2 [F1 [F2 [F3 [F4 F5]]]]]]].
    assert (Hsk : Forall (fun a => abyte a < rs \/ eff_count a = 0) (l1 ++ m1)).
    { apply Forall_app. split; [exact Hsk1|]. eapply Forall_impl; [|exact F3]. intros z Hz. right. exact Hz. }
    exists (l1 ++ m1), (a :: m2). constructor; cbn [shaping valid hdr_left off next acts emitted]; try reflexivity; try lia.
    + rewrite Zlength_nil. lia.
    + intros F. destruct F.
    + rewrite E1, F1, <- app_assoc. reflexivity.
    + rewrite (map_fire_skipped rs _ Hsk), F1, <- app_assoc. reflexivity.
    + rewrite F2, app_length, F5. reflexivity.
    + split; [exact F4|].
      (* rs <= byte of the head of l2 <= byte of a *)
      destruct m1 as [|h m1'].
      * cbn [app] in F1. rewrite F1 in E4. exact E4.
      * rewrite F1 in E4. cbn [app] in E4.
        assert (abyte h <= abyte a); [|lia].
        apply (ssorted_head_le l1 h (m1' ++ a :: m2) a).
        -- rewrite E1, F1 in sorted0. exact sorted0.
        -- apply in_or_app. right. left. reflexivity.
    + unfold DoneOK. eapply Forall_impl; [|exact Hsk]. intros z [Hz|Hz]; [left | right; left]; exact Hz.
  - assert (Hsk : Forall (fun a => abyte a < rs \/ eff_count a = 0) (l1 ++ l2)).
    { apply Forall_app. split; [exact Hsk1|]. eapply Forall_impl; [|exact FS]. intros z Hz. right. exact Hz. }
    exists (l1 ++ l2), []. constructor; cbn [shaping valid hdr_left off next acts emitted]; try reflexivity; try lia.
    + rewrite Zlength_nil. lia.
    + intros F. destruct F.
    + rewrite E1, app_nil_r. reflexivity.
    + rewrite (map_fire_skipped rs _ Hsk), app_nil_r. reflexivity.
    + unfold DoneOK. eapply Forall_impl; [|exact Hsk]. intros z [Hz|Hz]; [left | right; left]; exact Hz.
Qed.

(* ------------------------------------------------------------------ *)
(* consequences of an Outcome                                           *)
(* ------------------------------------------------------------------ *)

(* an action still ahead has not been crossed *)
Lemma inv_todo_ahead s all done todo a :
  InvAt s all done todo -> In a todo -> Zlength (emitted all) <= hl + (abyte a - rs).
Proof.
  intros I Ha. destruct I. destruct todo as [|h t]; [destruct Ha|].
  destruct iv_head0 as [_ Hoff].
  assert (abyte h <= abyte a).
  { destruct Ha as [<-|Ha]; [lia|]. apply (ssorted_head_le done h t a); [rewrite <- iv_split0; exact sorted0 | exact Ha]. }
  lia.
Qed.

Lemma outcome_no_bad s' all r : Outcome s' all r -> r <> RPanic /\ r <> RFuel.
Proof. intros [n E _ | n ? ? ? ? E]; rewrite E; split; discriminate. Qed.

Lemma outcome_fc_last s' all r : Outcome s' all r ->
  (is_closed r = true -> exists pre', all = pre' ++ [ForceClose] /\ ~ In ForceClose pre') /\
  (is_closed r = false -> ~ In ForceClose all).
Proof.
  intros [n E [done [todo I]] | n done c todo pre' E _ _ _ _ _ Ea Hn _ _]; rewrite E; cbn [is_closed]; split; try discriminate.
  - intros _. exact (iv_nofc _ _ _ _ I).
  - intros _. exists pre'. split; assumption.
Qed.

(* every enabled non-close action whose offset was crossed happened exactly there *)
Lemma outcome_actions s' all r : Outcome s' all r ->
  forall a, In a acts0 -> kind a <> KClose -> eff_count a <> 0 -> rs <= abyte a ->
    hl + (abyte a - rs) < Zlength (emitted all) ->
    In (hl + (abyte a - rs), ev_of (kind a)) (stamps 0 all).
Proof.
  intros O a Ha Hk He Hr Hx.
  assert (Hdone : forall done pre, DoneOK done pre -> In a done ->
             In (hl + (abyte a - rs), ev_of (kind a)) (stamps 0 pre)).
  { intros done pre D Hin. unfold DoneOK in D. rewrite Forall_forall in D.
    destruct (D a Hin) as [A|[A|[_ A]]]; [lia | congruence | exact A]. }
  destruct O as [n E [done [todo I]] | n done c todo pre' E Es Kc Ec Rc D Ea Hn Hl Hacts].
  - rewrite (iv_split _ _ _ _ I) in Ha. apply in_app_or in Ha. destruct Ha as [Ha|Ha].
    + exact (Hdone done all (iv_done _ _ _ _ I) Ha).
    + pose proof (inv_todo_ahead _ _ _ _ _ I Ha). lia.
  - rewrite Es in Ha. apply in_app_or in Ha. destruct Ha as [Ha|[Ha|Ha]].
    + rewrite Ea. apply stamps_mono. exact (Hdone done pre' D Ha).
    + subst c. congruence.
    + assert (abyte c <= abyte a) by (apply (ssorted_head_le done c todo a); [rewrite <- Es; exact sorted0 | exact Ha]).
      lia.
Qed.

(* the close clause *)
Lemma outcome_close s' all r data :
  Outcome s' all r -> (exists rest, data = emitted all ++ rest /\ (is_ok r = true -> rest = [])) ->
  close_spec acts0 rs hl data (emitted all) (is_closed r).
Proof.
  intros O [rest [Ed Eok]]. unfold close_spec.
  destruct O as [n E [done [todo I]] | n done c todo pre' E Es Kc Ec Rc D Ea Hn Hl Hacts]; rewrite E in *; cbn [is_closed is_ok] in *.
  - specialize (Eok eq_refl). subst rest. rewrite app_nil_r in Ed. subst data.
    destruct (first_close acts0 rs) as [k|] eqn:FC; [|reflexivity].
    split; [|intros _; left; reflexivity].
    intros Hlt. exfalso.
    destruct (first_close_some _ _ _ FC) as [l1 [c [l2 [E1 [K1 [K2 [K3 K4]]]]]]].
    assert (Hin : In c acts0) by (rewrite E1; apply in_or_app; right; left; reflexivity).
    rewrite (iv_split _ _ _ _ I) in Hin. apply in_app_or in Hin. destruct Hin as [Hin|Hin].
    + pose proof (doneok_not_live _ _ (iv_done _ _ _ _ I)) as NL. rewrite Forall_forall in NL.
      destruct (NL c Hin) as [A|[A|A]]; [lia | congruence | congruence].
    + pose proof (inv_todo_ahead _ _ _ _ _ I Hin). lia.
  - assert (FC : first_close acts0 rs = Some (abyte c)).
    { rewrite Es, first_close_app, (first_close_none done rs (doneok_not_live _ _ D)).
      apply first_close_here; assumption. }
    rewrite FC. split.
    + intros _. split; [reflexivity|].
      rewrite Ed. rewrite <- Hl.
      rewrite Zlength_correct, Nat2Z.id, firstn_app, Nat.sub_diag, firstn_all. cbn [firstn]. rewrite app_nil_r. reflexivity.
    + intros Hle. right. rewrite Ed in Hle. rewrite zlen_app, Hl in Hle.
      destruct rest; [rewrite Ed, app_nil_r; reflexivity|].
      rewrite Zlength_cons in Hle. pose proof (zlen_nonneg rest). lia.
Qed.

(* counts: the final action list is the initial one with every passed action
   at or after the range start decremented; actions not yet passed are untouched
   and lie at or beyond the last delivered byte *)
Lemma outcome_counts s' all r : Outcome s' all r ->
  exists done todo, acts0 = done ++ todo /\ acts s' = map (fire rs) done ++ todo /\
    (forall a, In a todo -> Zlength (emitted all) <= hl + (abyte a - rs)).
Proof.
  intros [n E [done [todo I]] | n done c todo pre' E Es Kc Ec Rc D Ea Hn Hl Hacts].
  - exists done, todo. split; [exact (iv_split _ _ _ _ I)|]. split; [exact (iv_acts _ _ _ _ I)|].
    intros a Ha. exact (inv_todo_ahead _ _ _ _ _ I Ha).
  - exists (done ++ [c]), todo. split; [rewrite Es, <- app_assoc; reflexivity|]. split; [exact Hacts|].
    intros a Ha.
    assert (abyte c <= abyte a) by (apply (ssorted_head_le done c todo a); [rewrite <- Es; exact sorted0 | exact Ha]).
    lia.
Qed.

End Loop.

(* ------------------------------------------------------------------ *)
(* closed statements, all inputs                                        *)
(* ------------------------------------------------------------------ *)

Definition shaped_start (acts0 : list action) (thr : list throttle) (rs hl : Z) (lt : option Z) (i : nat) : st :=
  fst (open_ctx true acts0 thr true rs hl lt i).

Lemma run_outcome acts0 thr rs hl lt i g ws s' evs r :
  StronglySorted by_byte acts0 -> 0 <= hl -> rs > -1 -> (forall k, 0 < fst (g k) /\ 0 < snd (g k)) ->
  run g (shaped_start acts0 thr rs hl lt i) ws = (s', evs, r) ->
  Outcome acts0 rs hl s' evs r.
Proof.
  intros Hs Hh Hr Hg H.
  change evs with ([] ++ evs).
  eapply (run_inv acts0 rs hl g Hs Hg ws _ [] _ _ _ _ H).
  Unshelve. apply open_ctx_inv; assumption.
Qed.

(* never a panic, never out of fuel; the close clause; a forced close is last *)
Lemma loop_safe_and_close acts0 thr rs hl lt i g ws s' evs r :
  StronglySorted by_byte acts0 -> 0 <= hl -> rs > -1 -> (forall k, 0 < fst (g k) /\ 0 < snd (g k)) ->
  run g (shaped_start acts0 thr rs hl lt i) ws = (s', evs, r) ->
  r <> RPanic /\ r <> RFuel /\
  close_spec acts0 rs hl (concat ws) (emitted evs) (is_closed r) /\
  (is_closed r = true -> exists pre', evs = pre' ++ [ForceClose] /\ ~ In ForceClose pre') /\
  (is_closed r = false -> ~ In ForceClose evs).
Proof.
  intros Hs Hh Hr Hg H.
  pose proof (run_outcome _ _ _ _ _ _ _ _ _ _ _ Hs Hh Hr Hg H) as O.
  destruct (outcome_no_bad _ _ _ _ _ _ O) as [A B].
  destruct (outcome_fc_last _ _ _ _ _ _ O) as [C D].
  split; [exact A|]. split; [exact B|]. split; [|split; assumption].
  apply (outcome_close acts0 rs hl Hs s' evs r (concat ws) O).
  exact (run_delivers g ws _ _ _ _ H).
Qed.

(* close at k, explicit form *)
Lemma close_at_k acts0 thr rs hl lt i g ws s' evs r l1 c l2 :
  StronglySorted by_byte acts0 -> 0 <= hl -> rs > -1 -> (forall k, 0 < fst (g k) /\ 0 < snd (g k)) ->
  acts0 = l1 ++ c :: l2 -> kind c = KClose -> count c <> 0 -> rs <= abyte c ->
  Forall (not_live_close rs) l1 ->                       (* no earlier live close *)
  hl + (abyte c - rs) < Zlength (concat ws) ->           (* more than that was written *)
  run g (shaped_start acts0 thr rs hl lt i) ws = (s', evs, r) ->
  emitted evs = firstn (Z.to_nat (hl + (abyte c - rs))) (concat ws) /\
  (exists n, r = RClosed n) /\
  exists pre', evs = pre' ++ [ForceClose] /\ ~ In ForceClose pre'.
Proof.
  intros Hs Hh Hr Hg E K C R NL Hlt H.
  destruct (loop_safe_and_close _ _ _ _ _ _ _ _ _ _ _ Hs Hh Hr Hg H) as [_ [_ [CS [FL _]]]].
  assert (FC : first_close acts0 rs = Some (abyte c)).
  { rewrite E, first_close_app, (first_close_none l1 rs NL). apply first_close_here; try assumption.
    unfold eff_count. rewrite K. exact C. }
  unfold close_spec in CS. rewrite FC in CS. destruct CS as [CS _]. destruct (CS Hlt) as [Hc Hd].
  split; [exact Hd|]. split; [destruct r; try discriminate; eexists; reflexivity | exact (FL Hc)].
Qed.

(* halts and bandwidth changes: exactly at their offset, before any later byte *)
Lemma action_at_offset acts0 thr rs hl lt i g ws s' evs r a :
  StronglySorted by_byte acts0 -> 0 <= hl -> rs > -1 -> (forall k, 0 < fst (g k) /\ 0 < snd (g k)) ->
  run g (shaped_start acts0 thr rs hl lt i) ws = (s', evs, r) ->
  In a acts0 -> kind a <> KClose -> eff_count a <> 0 -> rs <= abyte a ->
  hl + (abyte a - rs) < Zlength (emitted evs) ->          (* a later byte was delivered *)
  exists before after, evs = before ++ ev_of (kind a) :: after /\
    Zlength (emitted before) = hl + (abyte a - rs).
Proof.
  intros Hs Hh Hr Hg H Ha Hk He Hra Hx.
  pose proof (run_outcome _ _ _ _ _ _ _ _ _ _ _ Hs Hh Hr Hg H) as O.
  pose proof (outcome_actions acts0 rs hl Hs s' evs r O a Ha Hk He Hra Hx) as St.
  destruct (stamp_position _ _ _ _ St) as [b1 [b2 [E1 E2]]]. exists b1, b2. split; [exact E1 | lia].
Qed.

Lemma halt_sleeps acts0 thr rs hl lt i g ws s' evs r a d :
  StronglySorted by_byte acts0 -> 0 <= hl -> rs > -1 -> (forall k, 0 < fst (g k) /\ 0 < snd (g k)) ->
  run g (shaped_start acts0 thr rs hl lt i) ws = (s', evs, r) ->
  In a acts0 -> kind a = KHalt d -> count a <> 0 -> rs <= abyte a ->
  hl + (abyte a - rs) < Zlength (emitted evs) ->
  exists before after, evs = before ++ Sleep d :: after /\
    Zlength (emitted before) = hl + (abyte a - rs).
Proof.
  intros Hs Hh Hr Hg H Ha Hk Hc Hra Hx.
  assert (K1 : kind a <> KClose) by congruence.
  assert (K2 : eff_count a <> 0) by (unfold eff_count; rewrite Hk; exact Hc).
  destruct (action_at_offset _ _ _ _ _ _ _ _ _ _ _ a Hs Hh Hr Hg H Ha K1 K2 Hra Hx) as [b1 [b2 [E1 E2]]].
  rewrite Hk in E1. exists b1, b2. split; assumption.
Qed.

Lemma counts_after_run acts0 thr rs hl lt i g ws s' evs r :
  StronglySorted by_byte acts0 -> 0 <= hl -> rs > -1 -> (forall k, 0 < fst (g k) /\ 0 < snd (g k)) ->
  run g (shaped_start acts0 thr rs hl lt i) ws = (s', evs, r) ->
  exists done todo, acts0 = done ++ todo /\
    acts s' = map (fun a => if abyte a <? rs then a else dec a) done ++ todo /\
    (forall a, In a todo -> Zlength (emitted evs) <= hl + (abyte a - rs)).
Proof.
  intros Hs Hh Hr Hg H.
  exact (outcome_counts acts0 rs hl Hs s' evs r (run_outcome _ _ _ _ _ _ _ _ _ _ _ Hs Hh Hr Hg H)).
Qed.

(* ------------------------------------------------------------------ *)
(* successive responses: the hypotheses hold again for the next one     *)
(* ------------------------------------------------------------------ *)

Lemma ssorted_keys l : StronglySorted by_byte l <-> StronglySorted Z.le (map abyte l).
Proof.
  induction l as [|a l IH]; cbn [map]; [split; constructor|]. split; intros H; inversion H as [|? ? Hs Hf]; subst; constructor.
  - apply IH. exact Hs.
  - exact (proj2 (Forall_map abyte (Z.le (abyte a)) l) Hf).
  - apply IH. exact Hs.
  - exact (proj1 (Forall_map abyte (Z.le (abyte a)) l) Hf).
Qed.

Lemma abyte_fire rs a : abyte (fire rs a) = abyte a.
Proof. unfold fire. destruct (abyte a <? rs); [reflexivity | apply abyte_dec]. Qed.

Lemma sorted_after_run acts0 thr rs hl lt i g ws s' evs r :
  StronglySorted by_byte acts0 -> 0 <= hl -> rs > -1 -> (forall k, 0 < fst (g k) /\ 0 < snd (g k)) ->
  run g (shaped_start acts0 thr rs hl lt i) ws = (s', evs, r) ->
  StronglySorted by_byte (acts s') /\ map abyte (acts s') = map abyte acts0 /\ map kind (acts s') = map kind acts0.
Proof.
  intros Hs Hh Hr Hg H.
  destruct (outcome_counts acts0 rs hl Hs s' evs r (run_outcome _ _ _ _ _ _ _ _ _ _ _ Hs Hh Hr Hg H))
    as [done [todo [E1 [E2 _]]]].
  assert (Hk : map abyte (acts s') = map abyte acts0).
  { rewrite E2, E1, !map_app, map_map. f_equal. apply map_ext. intros a. apply abyte_fire. }
  split; [apply ssorted_keys; rewrite Hk; apply ssorted_keys; exact Hs|]. split; [exact Hk|].
  rewrite E2, E1, !map_app, map_map. f_equal. apply map_ext. intros a.
  unfold fire. destruct (abyte a <? rs); [reflexivity | apply kind_dec].
Qed.

(* a matching response after any previous context starts from [shaped_start] *)
Lemma respond_matched prev acts thr rs hl :
  fst (respond prev true acts thr true rs hl) = shaped_start acts thr rs hl (lat prev) (gi prev).
Proof. reflexivity. Qed.
