(* C18 — property theorems.  Statements closed by [exact] + Print Assumptions. *)
From Coq Require Import Ascii String.
From Coq Require Import List ZArith Bool Arith Sorted Lia.
From Martian.C18 Require Import Gen_Shape Model Proofs Proofs_Validate Proofs_Loop Proofs_Audit.
Import ListNotations.
Open Scope Z_scope.

(* Bytes clause, full strength: for EVERY grant stream (even non-positive
   ones), every connection state (even ill-formed), every sequence of writes:
   what reaches the client is a prefix of what was written, and all of it
   unless the run ended with an error (force close). *)
Theorem C18_bytes_prefix : forall g ws s s' evs r,
  run g s ws = (s', evs, r) ->
  exists rest, concat ws = emitted evs ++ rest /\ (is_ok r = true -> rest = []).
Proof. exact run_delivers. Qed.
Print Assumptions C18_bytes_prefix.

(* Only matching responses are shaped: with a URL that does not match (or an
   invalid / multipart range) the context is unshaped, and an unshaped
   connection performs no halt, bandwidth change or close, for all writes. *)
Theorem C18_only_matching : forall g ws v acts thr rs hl lt i s' evs r,
  run g (fst (open_ctx v acts thr false rs hl lt i)) ws = (s', evs, r) ->
  forallb (fun e => negb (is_action_ev e)) evs = true /\ (forall n, r <> RClosed n) /\
  exists rest, concat ws = emitted evs ++ rest /\ (is_ok r = true -> rest = []).
Proof.
  intros g ws v acts thr rs hl lt i s' evs r H.
  destruct (run_unshaped g ws _ _ _ _ (proj1 (open_ctx_unmatched v acts thr rs hl lt i)) H) as [A B].
  split; [exact A|]. split; [exact B|]. exact (run_delivers g ws _ _ _ _ H).
Qed.
Print Assumptions C18_only_matching.

(* Successive responses on a keep-alive connection: whatever context the previous
   response left behind (any state [prev]: byte offset, armed action, header
   bytes outstanding), a response that matches no shape performs no action and
   delivers every byte, for all writes and grant streams. *)
Theorem C18_nonmatching_after_any_context : forall g ws prev v acts thr rs hl s' evs r,
  run g (fst (respond prev v acts thr false rs hl)) ws = (s', evs, r) ->
  forallb (fun e => negb (is_action_ev e)) evs = true /\ (forall n, r <> RClosed n) /\
  exists rest, concat ws = emitted evs ++ rest /\ (is_ok r = true -> rest = []).
Proof. exact nonmatching_after_any_context. Qed.
Print Assumptions C18_nonmatching_after_any_context.

Theorem C18_invalid_range_unshaped : forall v acts thr m rs hl lt i,
  rs <= -1 -> shaping (fst (open_ctx v acts thr m rs hl lt i)) = false.
Proof. exact open_ctx_bad_range. Qed.
Print Assumptions C18_invalid_range_unshaped.

(* ---- the shaped write loop: ALL action lists sorted by byte (what validation
   produces: C18_accepted_actions_sorted), all range starts > -1, head lengths
   >= 0, sequences of writes, grant streams.  Grants are assumed POSITIVE:
   FillThrottleLocked calls fn only when fill < capacity, and the Go loop
   terminates only then; under that assumption the fuel given by [write]
   suffices, so RFuel (and RPanic) are excluded by the statement. ---- *)

(* the two-level bucket fill: what one iteration writes (and advances by) is
   the minimum of the local grant, the global grant and the amount wanted *)
Theorem C18_chunk_within_both_buckets : forall rl rg amt, 0 < rl -> 0 < rg -> 0 <= amt ->
  nested rl rg amt = Z.min (Z.min rl rg) amt /\
  0 <= nested rl rg amt /\ nested rl rg amt <= rl /\ nested rl rg amt <= rg /\ nested rl rg amt <= amt.
Proof. intros rl rg amt A B C. split; [exact (nested_pos rl rg amt A B C) | exact (nested_bounds rl rg amt A B C)]. Qed.
Print Assumptions C18_chunk_within_both_buckets.

(* no panic, no out-of-fuel; the close clause in the oracle's form; a forced
   close is the last event and there is at most one *)
Theorem C18_loop_safe_and_close_spec : forall acts0 thr rs hl lt i g ws s' evs r,
  StronglySorted by_byte acts0 -> 0 <= hl -> rs > -1 -> (forall k, 0 < fst (g k) /\ 0 < snd (g k)) ->
  run g (shaped_start acts0 thr rs hl lt i) ws = (s', evs, r) ->
  r <> RPanic /\ r <> RFuel /\
  close_spec acts0 rs hl (concat ws) (emitted evs) (is_closed r) /\
  (is_closed r = true -> exists pre', evs = pre' ++ [ForceClose] /\ ~ In ForceClose pre') /\
  (is_closed r = false -> ~ In ForceClose evs).
Proof. exact loop_safe_and_close. Qed.
Print Assumptions C18_loop_safe_and_close_spec.

(* Close at k: a close action c at byte k >= range start with count <> 0 and no
   live close before it in the list; more than head + (k - rs) bytes written.
   Then the bytes delivered are exactly the first hl + (k - rs) bytes written
   (head ++ body[0 .. k - rs)), the result is the force-close error, ForceClose
   is the last event and occurs once -- for every write split and grant stream. *)
Theorem C18_close_at_k : forall acts0 thr rs hl lt i g ws s' evs r l1 c l2,
  StronglySorted by_byte acts0 -> 0 <= hl -> rs > -1 -> (forall k, 0 < fst (g k) /\ 0 < snd (g k)) ->
  acts0 = l1 ++ c :: l2 -> kind c = KClose -> count c <> 0 -> rs <= abyte c ->
  Forall (not_live_close rs) l1 ->
  hl + (abyte c - rs) < Zlength (concat ws) ->
  run g (shaped_start acts0 thr rs hl lt i) ws = (s', evs, r) ->
  emitted evs = firstn (Z.to_nat (hl + (abyte c - rs))) (concat ws) /\
  (exists n, r = RClosed n) /\
  exists pre', evs = pre' ++ [ForceClose] /\ ~ In ForceClose pre'.
Proof. exact close_at_k. Qed.
Print Assumptions C18_close_at_k.

(* Halts: a halt of d ms with count <> 0 at byte a >= range start, a byte beyond
   it delivered: Sleep d occurs in the trace with exactly hl + (a - rs) bytes
   delivered before it, i.e. before any later byte. *)
Theorem C18_halt_sleeps : forall acts0 thr rs hl lt i g ws s' evs r a d,
  StronglySorted by_byte acts0 -> 0 <= hl -> rs > -1 -> (forall k, 0 < fst (g k) /\ 0 < snd (g k)) ->
  run g (shaped_start acts0 thr rs hl lt i) ws = (s', evs, r) ->
  In a acts0 -> kind a = KHalt d -> count a <> 0 -> rs <= abyte a ->
  hl + (abyte a - rs) < Zlength (emitted evs) ->
  exists before after, evs = before ++ Sleep d :: after /\
    Zlength (emitted before) = hl + (abyte a - rs).
Proof. exact halt_sleeps. Qed.
Print Assumptions C18_halt_sleeps.

(* the same for every non-close action (bandwidth changes: SetBw b) *)
Theorem C18_action_at_offset : forall acts0 thr rs hl lt i g ws s' evs r a,
  StronglySorted by_byte acts0 -> 0 <= hl -> rs > -1 -> (forall k, 0 < fst (g k) /\ 0 < snd (g k)) ->
  run g (shaped_start acts0 thr rs hl lt i) ws = (s', evs, r) ->
  In a acts0 -> kind a <> KClose -> eff_count a <> 0 -> rs <= abyte a ->
  hl + (abyte a - rs) < Zlength (emitted evs) ->
  exists before after, evs = before ++ ev_of (kind a) :: after /\
    Zlength (emitted before) = hl + (abyte a - rs).
Proof. exact action_at_offset. Qed.
Print Assumptions C18_action_at_offset.

(* Counts: afterwards the action list is the initial one with every action that
   was passed and lies at or after the range start decremented (Halt / Close:
   count - 1 when positive; see Gen_Shape.dec_count); the actions not yet passed
   are untouched and none of them has been crossed. *)
Theorem C18_counts_decremented : forall acts0 thr rs hl lt i g ws s' evs r,
  StronglySorted by_byte acts0 -> 0 <= hl -> rs > -1 -> (forall k, 0 < fst (g k) /\ 0 < snd (g k)) ->
  run g (shaped_start acts0 thr rs hl lt i) ws = (s', evs, r) ->
  exists done todo, acts0 = done ++ todo /\
    acts s' = map (fun a => if abyte a <? rs then a else dec a) done ++ todo /\
    (forall a, In a todo -> Zlength (emitted evs) <= hl + (abyte a - rs)).
Proof. exact counts_after_run. Qed.
Print Assumptions C18_counts_decremented.

(* Successive responses: after any run the action list (with its updated counts)
   is still sorted, with the same bytes and kinds, and a matching response after
   any previous context starts from [shaped_start] on that list -- so the
   theorems above apply again to the next response on the connection. *)
Theorem C18_next_response_same_hypotheses : forall acts0 thr rs hl lt i g ws s' evs r,
  StronglySorted by_byte acts0 -> 0 <= hl -> rs > -1 -> (forall k, 0 < fst (g k) /\ 0 < snd (g k)) ->
  run g (shaped_start acts0 thr rs hl lt i) ws = (s', evs, r) ->
  StronglySorted by_byte (acts s') /\ map abyte (acts s') = map abyte acts0 /\ map kind (acts s') = map kind acts0.
Proof. exact sorted_after_run. Qed.
Print Assumptions C18_next_response_same_hypotheses.

Theorem C18_matching_response_after_any_context : forall prev acts thr rs hl,
  fst (respond prev true acts thr true rs hl) = shaped_start acts thr rs hl (lat prev) (gi prev).
Proof. exact respond_matched. Qed.
Print Assumptions C18_matching_response_after_any_context.

(* the hypothesis on the action list is what validation guarantees *)
Theorem C18_accepted_actions_sorted : forall sc sh,
  validate_shape sc = Some sh -> StronglySorted by_byte (sh_acts sh).
Proof.
  intros sc sh H. apply sorted_by_byte_strong. exact (so_sorted sc sh (validate_shape_ok sc sh H)).
Qed.
Print Assumptions C18_accepted_actions_sorted.

(* Rate: through a bucket of capacity c, with d drains and no SetCapacity in
   between, at most (d + 1) * c bytes pass (so n bytes need >= ceil(n/c) - 1
   drains, one drain per interval); SetCapacity starts an empty bucket. *)
Theorem C18_throttle_rate : forall ops b,
  no_setcap ops = true -> wants_nonneg ops -> 0 <= fill b <= cap b ->
  bpassed b ops <= count_drains ops * cap b + (cap b - fill b).
Proof. exact bpassed_bound. Qed.
Print Assumptions C18_throttle_rate.

(* Validation: an accepted configuration has only well-formed parts; the
   stored throttles are sorted and pairwise disjoint, the actions sorted. *)
Theorem C18_validate_accepts_only_wellformed : forall c shs, validate c = Some shs ->
  defaults_ok (cf_defaults c) = true /\
  (forall sc, In sc (cf_shapes c) -> exists sh, validate_shape sc = Some sh /\ shape_ok sc sh /\ In (sc_regex sc, sh) shs) /\
  (forall k sh, In (k, sh) shs -> exists sc, In sc (cf_shapes c) /\ k = sc_regex sc /\ shape_ok sc sh).
Proof. exact validate_accepts_only_good. Qed.
Print Assumptions C18_validate_accepts_only_wellformed.

Theorem C18_validate_rejects : forall c,
  (match cf_defaults c with Some (up, down, l) => up < 0 \/ down < 0 \/ l < 0 | None => False end) \/
  (exists sc, In sc (cf_shapes c) /\
     (sc_regex sc = [] \/ sc_regex_ok sc = false \/ sc_maxbw sc < 0 \/
      (exists t, In t (sc_thr sc) /\ (tc_bw t <= 0 \/ parse_throttle t = None)) \/
      (exists h, In h (sc_halts sc) /\ (hc_dur h < 0 \/ hc_byte h < 0 \/ hc_count h = 0)) \/
      (exists x, In x (sc_closes sc) /\ (cc_byte x < 0 \/ cc_count x = 0)))) ->
  validate c = None.
Proof. exact validate_rejects. Qed.
Print Assumptions C18_validate_rejects.

Theorem C18_overlapping_throttles_rejected : forall dbw t t2 rest pre,
  (t_start t2 < t_end t \/ t_end t = -1) -> thr_actions (pre ++ t :: t2 :: rest) dbw = None.
Proof. exact thr_actions_overlap_rejected. Qed.
Print Assumptions C18_overlapping_throttles_rejected.

(* A rejected configuration leaves the listener exactly as it was. *)
Theorem C18_reject_keeps_active : forall l c, validate c = None -> post l c = (l, OStatus 400).
Proof. exact post_rejected. Qed.
Print Assumptions C18_reject_keeps_active.

(* An accepted configuration is not in force on any connection accepted before
   it (for every listener history), and a connection accepted afterwards gets
   the new shapes, latency and one pair of buckets per shape. *)
Theorem C18_applies_to_later_connections : forall ops c shs k,
  let l := fst (lrun listener_init ops) in
  validate c = Some shs ->
  (forall x, In x (l_conns (fst (post l c))) -> conn_valid (fst (post l c)) x k = false) /\
  l_active (fst (post l c)) = build_map shs.
Proof.
  intros ops c shs k l Hv. split.
  - exact (old_connections_invalid l c shs k (lrun_inv ops listener_init linv_init) Hv).
  - exact (proj1 (proj2 (post_accepted l c shs Hv))).
Qed.
Print Assumptions C18_applies_to_later_connections.

Theorem C18_new_connection_uses_active : forall l,
  let '(l', o) := accept l in
  exists c, l_conns l' = c :: l_conns l /\ o = OConn (c_id c) /\
    c_est c = l_modified l /\ c_latency c = l_latency l /\
    c_nbuckets c = 2 * Z.of_nat (length (l_active l)) /\
    forall k, conn_valid l' c k = existsb (fun kv => bytes_eqb (fst kv) k) (l_active l).
Proof. exact new_connection_uses_active. Qed.
Print Assumptions C18_new_connection_uses_active.

(* ...but the default bandwidth does reach older connections: they write
   through the listener-wide bucket (known finding C18-K1). *)
Theorem C18_default_bandwidth_later_only_refuted :
  exists ops c x, let l := fst (lrun listener_init ops) in
    In x (l_conns l) /\ validate c <> None /\
    conn_default_cap (fst (post l c)) x <> c_wcap x.
Proof.
  exists [LAccept], (mkCfg (Some (1000, 2000, 0)) []), (mkConn 0 0 0 0 default_bw).
  cbn. split; [left; reflexivity|]. split; discriminate.
Qed.
Print Assumptions C18_default_bandwidth_later_only_refuted.

(* Resources (model of the REPAIRED Conn.Close): after any history of
   configurations, accepts and closes -- each close with ANY outcome of the
   underlying connection's Close ([LClose id ok], ok : bool) -- the live
   per-connection buckets are exactly those of the connections still open; none
   when all are closed. *)
Theorem C18_close_releases : forall ops,
  let l := fst (lrun listener_init ops) in
  l_live l = sum_buckets (l_conns l) /\ (l_conns l = [] -> l_live l = 0).
Proof. exact release_all. Qed.
Print Assumptions C18_close_releases.

(* one Close, whatever the wrapped connection's Close returns: the buckets of
   that connection are released and it is no longer open *)
Theorem C18_close_releases_any_underlying_outcome : forall ops id uok c r,
  let l := fst (lrun listener_init ops) in
  filter (fun c => Nat.eqb (c_id c) id) (l_conns l) = c :: r ->
  l_live (fst (close_conn l id uok)) = l_live l - c_nbuckets c /\
  ~ In id (map c_id (l_conns (fst (close_conn l id uok)))) /\
  close_conn l id uok = close_conn l id (negb uok).
Proof.
  intros ops id uok c r l F.
  destruct (close_conn_releases l id uok c r (lrun_inv ops listener_init linv_init) F) as [A B].
  split; [exact A|]. split; [exact B | apply close_conn_any_outcome].
Qed.
Print Assumptions C18_close_releases_any_underlying_outcome.

(* GetNextActionFromByte calls sort.Search (binary search); the model's loop uses the
   linear first-match scan [search_ge]: on every list sorted by byte they agree, so
   modelling sort.Search by the scan is a theorem, not an assumption *)
Theorem C18_binary_search_refines : forall l start,
  StronglySorted by_byte l -> bsearch_ge l start = search_ge l start 0.
Proof. exact bsearch_ge_is_search_ge. Qed.
Print Assumptions C18_binary_search_refines.

Example C18_example_bsearch :
  let l := [mkAct (KHalt 9) 3 1; mkAct (KBw 7) 4 (-1); mkAct KClose 5 1; mkAct KClose 5 0; mkAct (KHalt 1) 9 1] in
  map (bsearch_ge l) [0; 3; 4; 5; 6; 9; 10] = [0; 0; 1; 2; 4; 4; 5]%nat /\
  map (fun s => search_ge l s 0) [0; 3; 4; 5; 6; 9; 10] = [0; 0; 1; 2; 4; 4; 5]%nat.
Proof. vm_compute. split; reflexivity. Qed.

(* ---- the range start (proxyutil.GetRangeStart) ---- *)

(* a well-formed single-range Content-Range "bytes a-b/t..." with t a number or "*"
   (unknown complete length): the start is a as an int64 (every magnitude up to
   2^63 - 1), -1 when it does not fit *)
Theorem C18_range_start_wellformed : forall (a b t : list ascii) rest,
  all_digits a -> a <> [] -> all_digits b -> b <> [] ->
  (match t with c :: _ => is_digit c = true \/ c = "*"%char | [] => False end) ->
  range_start 206 false (list_ascii_of_string "bytes " ++ a ++ "-"%char :: b ++ "/"%char :: t ++ rest)
  = match parse_int64 a with Some v => v | None => -1 end.
Proof. exact range_start_wellformed. Qed.
Print Assumptions C18_range_start_wellformed.

Theorem C18_range_start_not_partial : forall status mp cr, status <> 206 -> range_start status mp cr = 0.
Proof. exact range_start_not_partial. Qed.
Print Assumptions C18_range_start_not_partial.

(* boundary magnitudes; the unknown total "*"; malformed values *)
Example C18_example_range_start :
  map (fun s => range_start 206 false (list_ascii_of_string s))
    ["bytes 0-9/10"; "bytes 2147483647-2147483700/9999999999"; "bytes 2147483648-2147483700/9999999999";
     "bytes 4294967296-4294967300/9999999999"; "bytes 1099511627776-1099511627800/1099511628000";
     "bytes 9223372036854775807-9223372036854775807/9223372036854775807";
     "bytes 9223372036854775808-9223372036854775809/9223372036854775810";
     "bytes 5-9"; "bytes -9/10"; "5-9/10"; "items 5-9/10"; "xbytes 5-9/10, bytes 7-9/10"; ""; "bytes 100-599/*";
     "bytes 3000000000-3000000499/*"; "bytes 5-9/x"]%string
  = [0; 2147483647; 2147483648; 4294967296; 1099511627776; 9223372036854775807; -1; -1; -1; -1; -1; 5; -1; 100; 3000000000; -1]
  /\ range_start 200 false (list_ascii_of_string "bytes 100-599/700") = 0
  /\ range_start 206 true (list_ascii_of_string "bytes 100-599/700") = -1.
Proof. vm_compute. repeat split; reflexivity. Qed.

(* ---- throttles of an accepted shape (audit round) ---- *)

(* what validation stores: separated throttles; for each its ChangeBandwidth(own
   bandwidth) at its first byte and ChangeBandwidth(max/default) at its finite end
   unless another throttle starts there; and no other bandwidth action *)
Theorem C18_accepted_throttle_actions : forall sc sh, validate_shape sc = Some sh ->
  separated (sh_thr sh) /\
  (forall t, In t (sh_thr sh) -> In (bw_act (t_bw t) (t_start t)) (sh_acts sh)) /\
  (forall t, In t (sh_thr sh) -> t_end t <> -1 -> (forall t', In t' (sh_thr sh) -> t_start t' <> t_end t) ->
     In (bw_act (sh_maxbw sh) (t_end t)) (sh_acts sh)) /\
  (forall a b, In a (sh_acts sh) -> kind a = KBw b ->
     exists t, In t (sh_thr sh) /\ (a = bw_act (t_bw t) (t_start t) \/ (a = bw_act (sh_maxbw sh) (t_end t) /\ t_end t <> -1))).
Proof. exact accepted_throttle_actions. Qed.
Print Assumptions C18_accepted_throttle_actions.

(* GetCurrentThrottle (search for the first start beyond the offset, look at the
   previous throttle, -1 only honoured for the last) finds exactly the throttle
   that contains the offset *)
Theorem C18_current_throttle_refines : forall thr rs,
  separated thr -> Sorted (le_key t_start) thr -> current_throttle true thr rs = throttle_at thr rs.
Proof. exact current_throttle_is_throttle_at. Qed.
Print Assumptions C18_current_throttle_refines.

Theorem C18_range_start_inside_throttle : forall sc sh t rs hl lt i,
  validate_shape sc = Some sh -> In t (sh_thr sh) -> contains t rs -> rs > -1 ->
  snd (open_ctx true (sh_acts sh) (sh_thr sh) true rs hl lt i) = [SetBw (t_bw t)].
Proof. exact range_start_inside_throttle. Qed.
Print Assumptions C18_range_start_inside_throttle.

Theorem C18_throttle_start_sets_bandwidth : forall sc sh t rs hl lt i g ws s' evs r,
  validate_shape sc = Some sh -> In t (sh_thr sh) ->
  0 <= hl -> rs > -1 -> (forall k, 0 < fst (g k) /\ 0 < snd (g k)) ->
  run g (shaped_start (sh_acts sh) (sh_thr sh) rs hl lt i) ws = (s', evs, r) ->
  rs <= t_start t -> hl + (t_start t - rs) < Zlength (emitted evs) ->
  exists before after, evs = before ++ SetBw (t_bw t) :: after /\
    Zlength (emitted before) = hl + (t_start t - rs).
Proof. exact throttle_start_sets_bandwidth. Qed.
Print Assumptions C18_throttle_start_sets_bandwidth.

(* The oracles run on the real outputs are the statements. *)
Theorem C18_oracle_prefix : forall data delivered closed,
  ok_prefix data delivered closed = true <->
  (exists rest, data = delivered ++ rest) /\ (closed = false -> delivered = data).
Proof. exact ok_prefix_iff. Qed.
Print Assumptions C18_oracle_prefix.

Theorem C18_oracle_close : forall acts rs hl data delivered closed,
  ok_close acts rs hl data delivered closed = true <-> close_spec acts rs hl data delivered closed.
Proof. exact ok_close_iff. Qed.
Print Assumptions C18_oracle_close.

Theorem C18_oracle_halts : forall acts rs hl nd gaps,
  ok_halts acts rs hl nd gaps = true <-> halts_spec acts rs hl nd gaps.
Proof. exact ok_halts_iff. Qed.
Print Assumptions C18_oracle_halts.

Theorem C18_oracle_release : forall ops leaked,
  ok_release ops leaked = true <-> leaked = l_live (fst (lrun listener_init ops)).
Proof. exact ok_release_iff. Qed.
Print Assumptions C18_oracle_release.

Theorem C18_oracle_rate : forall b n el tol,
  ok_rate b n el tol = true <-> n <= ((el + tol) / (drain_interval_ms * 1000) + 2) * b.
Proof. exact ok_rate_iff. Qed.
Print Assumptions C18_oracle_rate.

Definition payload (n : nat) : list ascii := map (fun i => ascii_of_nat (65 + i)) (seq 0 n).

(* throttle_bandwidth clause: for the separated throttle list of an accepted shape, OK means
   every throttle containing the chunk's offset has the observed capacity as its bandwidth *)
Theorem C18_oracle_chunk_bw : forall thr o cap, separated thr ->
  (ok_chunk_bw thr o cap = true <-> forall t, In t thr -> contains t o -> cap = t_bw t).
Proof. exact ok_chunk_bw_iff. Qed.
Print Assumptions C18_oracle_chunk_bw.

Theorem C18_oracle_unshaped : forall data delivered cut,
  ok_unshaped data delivered cut = true <-> cut = false /\ delivered = data.
Proof. exact ok_unshaped_iff. Qed.
Print Assumptions C18_oracle_unshaped.

Theorem C18_oracle_total_delay : forall evs el,
  ok_total_delay evs el = true <-> delays_before_last_byte evs <= el.
Proof. exact ok_total_delay_iff. Qed.
Print Assumptions C18_oracle_total_delay.

(* ...where every Latency / Sleep before a delivered byte counts in full *)
Theorem C18_delays_before_a_byte : forall pre x xs r,
  Forall (fun e => match e with Sleep d | Latency d => 0 <= d | _ => True end) r ->
  delays_all pre <= delays_before_last_byte (pre ++ Emit (x :: xs) :: r).
Proof. exact delays_before_a_byte_ge. Qed.
Print Assumptions C18_delays_before_a_byte.

Theorem C18_oracle_accepted_wrongly : forall c code,
  accepted_wrongly c code = true <->
  code = 200 /\ (c = None \/ exists c', c = Some c' /\ validate c' = None).
Proof. exact accepted_wrongly_iff. Qed.
Print Assumptions C18_oracle_accepted_wrongly.

Theorem C18_oracle_validity : forall l c k v, ok_validity l c k v = true <-> v = conn_valid l c k.
Proof. exact ok_validity_iff. Qed.
Print Assumptions C18_oracle_validity.

Theorem C18_oracle_no_leak : forall n, ok_no_leak n = true <-> n <= 0.
Proof. exact ok_no_leak_iff. Qed.
Print Assumptions C18_oracle_no_leak.

Theorem C18_oracle_grant : forall c b, ok_grant c b = true <-> c <= b.
Proof. exact ok_grant_iff. Qed.
Print Assumptions C18_oracle_grant.

Theorem C18_bytes_inside : forall a b rs n, 0 <= n ->
  0 <= bytes_inside a b rs n <= n /\
  (a <= rs -> (b = -1 \/ rs + n <= b) -> bytes_inside a b rs n = n).
Proof. exact bytes_inside_spec. Qed.
Print Assumptions C18_bytes_inside.

(* Non-vacuity: a head of 2 bytes, halt at 3, bandwidth change at 4, close at 5,
   range start 1, three writes, grants of 2 bytes. *)
Example C18_example :
  let acts := [mkAct (KHalt 9) 3 1; mkAct (KBw 7) 4 (-1); mkAct KClose 5 1] in
  let s0 := fst (open_ctx true acts [] true 1 2 (Some 4) 0) in
  let ws := [payload 3; skipn 3 (payload 5); skipn 5 (payload 9)] in
  snd (fst (run (fun _ => (2, 2)) s0 ws)) =
    [Latency 4; Emit (firstn 2 (payload 9)); Emit [ascii_of_nat 67]; Emit [ascii_of_nat 68]; Sleep 9;
     Emit [ascii_of_nat 69]; SetBw 7; Emit [ascii_of_nat 70]; ForceClose]
  /\ snd (run (fun _ => (2, 2)) s0 ws) = RClosed 1.
Proof. vm_compute. split; reflexivity. Qed.

(* the hypotheses of C18_close_at_k / C18_halt_sleeps are met by that configuration *)
Example C18_example_hypotheses :
  let acts := [mkAct (KHalt 9) 3 1; mkAct (KBw 7) 4 (-1); mkAct KClose 5 1] in
  StronglySorted by_byte acts /\
  acts = [mkAct (KHalt 9) 3 1; mkAct (KBw 7) 4 (-1)] ++ mkAct KClose 5 1 :: [] /\
  Forall (not_live_close 1) [mkAct (KHalt 9) 3 1; mkAct (KBw 7) 4 (-1)] /\
  2 + (5 - 1) < Zlength (payload 9) /\ (forall k : nat, 0 < fst ((fun _ : nat => (2, 2)) k) /\ 0 < snd ((fun _ : nat => (2, 2)) k)).
Proof.
  cbn zeta. split.
  - repeat constructor; unfold by_byte; cbn; discriminate.
  - split; [reflexivity|]. split; [|split; [reflexivity | intros; split; reflexivity]].
    constructor; [right; right; discriminate|]. constructor; [right; right; discriminate | constructor].
Qed.

(* non-vacuity of the throttle theorems: the accepted shape of C18_example_validate *)
Definition has_bw_action (b at_ : Z) (l : list action) : bool :=
  existsb (fun a => match kind a with KBw x => (x =? b) && (abyte a =? at_) | _ => false end) l.

Example C18_example_throttles :
  match validate_shape (mkSC (list_ascii_of_string "a") true 1000
      [mkTC (list_ascii_of_string "1000-2000") 300; mkTC (list_ascii_of_string "500-1000") 100]
      [mkHC 530 5 1] [mkCC 1078 1]) with
  | Some sh =>
      sh_thr sh = [mkThr 500 1000 100; mkThr 1000 2000 300] /\
      throttle_at (sh_thr sh) 700 = Some 100 /\ throttle_at (sh_thr sh) 1000 = Some 300 /\ throttle_at (sh_thr sh) 2000 = None /\
      current_throttle true (sh_thr sh) 1999 = Some 300 /\
      ok_chunk_bw (sh_thr sh) 700 100 = true /\ ok_chunk_bw (sh_thr sh) 700 1000 = false /\
      has_bw_action 100 500 (sh_acts sh) = true /\ has_bw_action 1000 2000 (sh_acts sh) = true /\
      has_bw_action 1000 1000 (sh_acts sh) = false
  | None => False
  end.
Proof. vm_compute. repeat split; reflexivity. Qed.

Example C18_example_contains : contains (mkThr 500 1000 100) 700 /\ ~ contains (mkThr 500 1000 100) 1000 /\
  separated [mkThr 500 1000 100; mkThr 1000 2000 300].
Proof.
  split; [unfold contains; simpl; lia|].
  split; [intros C; unfold contains in C; simpl in C; destruct C as [_ [C|C]]; [exact (Z.lt_irrefl _ C) | discriminate C]|].
  cbn [separated]. split; [|split; [constructor | exact I]].
  constructor; [|constructor]. cbn [t_end t_start]. split; [discriminate | lia].
Qed.

Example C18_example_delays :
  delays_before_last_byte [Latency 2; Emit [ascii_of_nat 65]; Sleep 3; Emit [ascii_of_nat 66]; Sleep 7] = 5000
  /\ ok_total_delay [Latency 2; Emit [ascii_of_nat 65]; Sleep 3; Emit [ascii_of_nat 66]; Sleep 7] 4999 = false.
Proof. vm_compute. split; reflexivity. Qed.

Example C18_example_validate :
  match validate (mkCfg None [mkSC (list_ascii_of_string "a") true 1000
      [mkTC (list_ascii_of_string "1000-2000") 300; mkTC (list_ascii_of_string "500-1000") 100]
      [mkHC 530 5 1] [mkCC 1078 1]]) with
  | Some [(_, sh)] => map abyte (sh_acts sh) = [500; 530; 1000; 1078; 2000] /\ map t_start (sh_thr sh) = [500; 1000]
  | _ => False
  end.
Proof. vm_compute. split; reflexivity. Qed.
