(* C18 — sanity test of the write-loop model by computation (NOT a proof
   obligation of the property: the action clauses are proved for all inputs in
   Proofs_Loop.v).  A small finite family of configurations, range starts,
   write splits and grant streams is run through [run] and the clause
   conclusions are checked as booleans; kept as a cheap regression test of the
   model definitions (compiles in a few seconds). *)
From Coq Require Import List ZArith Bool Ascii Arith Lia.
From Martian.C18 Require Import Gen_Shape Model Proofs Proofs_Loop.
Import ListNotations.
Open Scope Z_scope.

Definition ev_eqb (a b : ev) : bool :=
  match a, b with
  | Sleep x, Sleep y => x =? y
  | SetBw x, SetBw y => x =? y
  | ForceClose, ForceClose => true
  | Latency x, Latency y => x =? y
  | _, _ => false
  end.

Definition has_stamp (p : Z) (e : ev) (l : list (Z * ev)) : bool :=
  existsb (fun pe => (fst pe =? p) && ev_eqb (snd pe) e) l.

Definition is_bad (r : res) : bool := match r with RPanic | RFuel => true | _ => false end.

(* everything the action clauses say about one run *)
Definition run_ok (acts : list action) (rs hl : Z) (ws : list bytes) (g : nat -> Z * Z) : bool :=
  let s0 := fst (open_ctx true acts [] true rs hl None 0) in
  let '(s', evs, r) := run g s0 ws in
  let data := concat ws in
  let del := emitted evs in
  negb (is_bad r)
  && ok_prefix data del (is_closed r)
  && ok_close acts rs hl data del (is_closed r)
  (* every enabled halt / bandwidth change whose offset was crossed happened exactly there *)
  && forallb (fun a =>
       match kind a with
       | KClose => true
       | k => if negb (eff_count a =? 0) && (rs <=? abyte a) && (hl + (abyte a - rs) <? Zlength del)
              then has_stamp (hl + (abyte a - rs)) (ev_of k) (stamps 0 evs) else true
       end) acts
  (* a forced close is the last event and happens at most once *)
  && match rev evs with
     | ForceClose :: r' => is_closed r && negb (existsb (fun e => ev_eqb e ForceClose) r')
     | _ => negb (is_closed r) && negb (existsb (fun e => ev_eqb e ForceClose) evs)
     end.

Definition kinds : list akind := [KHalt 1; KClose; KBw 7].
Definition positions : list Z := [0; 2].
Definition counts : list Z := [1; -1].

Definition one_actions : list action :=
  flat_map (fun k => flat_map (fun p => map (fun c => mkAct k p c) counts) positions) kinds.

Definition action_lists : list (list action) :=
  [] :: map (fun a => [a]) one_actions
     ++ flat_map (fun a => map (fun b => sort_by abyte [a; b]) one_actions) one_actions.

Definition payload (n : nat) : bytes := map (fun i => ascii_of_nat (65 + i)) (seq 0 n).

Definition splits (b : bytes) : list (list bytes) :=
  map (fun i => [firstn i b; skipn i b]) (seq 0 (S (length b))).

Definition grant_streams : list (nat -> Z * Z) :=
  [fun _ => (1000, 1000); fun i => if Nat.even i then (1, 5) else (3, 2)].

Definition sweep2 : bool :=
  forallb (fun acts =>
    forallb (fun rs =>
      forallb (fun hl =>
        forallb (fun n =>
          forallb (fun ws => forallb (fun g => run_ok acts rs hl ws g) grant_streams)
                  (splits (payload n)))
          [0; 5]%nat)
        [0; 2])
      [0; 1])
    action_lists.

Example sanity_sweep2 : sweep2 = true.
Proof. vm_cast_no_check (eq_refl true). Qed.

(* three actions, three-way splits, fewer other values *)
Definition action_lists3 : list (list action) :=
  flat_map (fun a => flat_map (fun b => map (fun c => sort_by abyte [a; b; c])
     [mkAct KClose 2 1; mkAct (KHalt 1) 2 1; mkAct (KBw 7) 1 (-1); mkAct KClose 4 (-1)])
     [mkAct (KHalt 1) 0 1; mkAct (KHalt 2) 2 (-1); mkAct KClose 2 2; mkAct (KBw 5) 2 (-1)])
     [mkAct (KHalt 1) 1 1; mkAct KClose 0 1; mkAct (KBw 9) 2 (-1); mkAct (KHalt 3) 4 2].

Definition splits3 (b : bytes) : list (list bytes) :=
  flat_map (fun i => map (fun j => [firstn i b; firstn j (skipn i b); skipn j (skipn i b)])
                         (seq 0 (S (length b - i)))) (seq 0 (S (length b))).

Definition sweep3 : bool :=
  forallb (fun acts =>
    forallb (fun rs =>
      forallb (fun hl =>
        forallb (fun ws => forallb (fun g => run_ok acts rs hl ws g) grant_streams)
                (splits3 (payload 4)))
        [1])
      [0; 2])
    action_lists3.

Example sanity_sweep3 : sweep3 = true.
Proof. vm_cast_no_check (eq_refl true). Qed.

