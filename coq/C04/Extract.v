From Coq Require Import ExtrOcamlBasic ExtrOcamlString.
From Martian.Common Require Import ExtractBase.
From Martian.C04 Require Import Model.
Extraction Language OCaml.
Extraction "model.ml" base_anchor repaired original init step run quiescentb settle
  run_script spec_views measure_view c04_ok c04_first_fail released_ok all_shut
  connect_response fail_ok after_tunnel_here probe_ok probe_agrees connect_downstream down_ok is_2xx expected_status status_ok eos_flag target_release_ok target_release_agrees stream_ok tunnel_cut.
