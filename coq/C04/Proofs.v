(* C04 — lemmas and proofs about the tunnel LTS of Model.v. *)
From Coq Require Import List NArith Bool Arith Lia Ascii.
From Martian.C04 Require Import Model.
Import ListNotations.

(* ------------------------------------------------------------------ *)
(* Small facts                                                          *)
(* ------------------------------------------------------------------ *)

Lemma phase_eqb_iff a b : phase_eqb a b = true <-> a = b.
Proof. destruct a, b; simpl; split; intro H; try reflexivity; discriminate. Qed.

Lemma phase_eqb_false a b : phase_eqb a b = false <-> a <> b.
Proof. destruct a, b; simpl; split; intro H; try discriminate; try congruence; exfalso; apply H; reflexivity. Qed.

Lemma is_nil_iff {A} (l : list A) : is_nil l = true <-> l = [].
Proof. destruct l; simpl; split; intro H; try reflexivity; discriminate. Qed.

Lemma is_nil_false {A} (l : list A) : is_nil l = false <-> l <> [].
Proof. destruct l; simpl; split; intro H; try discriminate; try congruence; exfalso; apply H; reflexivity. Qed.

Lemma bufsize_pos : 0 < bufsize.
Proof. unfold bufsize. apply Nat.lt_0_succ. Qed.

Lemma push_spec tin w tin' w' :
  push tin w = (tin', w') ->
  tin' ++ w' = tin ++ w /\ (w = [] -> w' = []) /\ length w' < bufsize.
Proof.
  unfold push. destruct (Nat.leb bufsize (length w)) eqn:E; intro H; inversion H; subst.
  - rewrite app_nil_r. split; [reflexivity|]. split; [reflexivity|]. simpl. apply bufsize_pos.
  - split; [reflexivity|]. split; [tauto|]. apply Nat.leb_gt in E. exact E.
Qed.

Lemma firstn_nonnil_skipn_shorter {A} n (l : list A) :
  firstn n l <> [] -> length (skipn n l) < length l.
Proof.
  intro H. destruct n; [simpl in H; congruence|]. destruct l; [simpl in H; congruence|].
  rewrite skipn_length. simpl. lia.
Qed.

Ltac bools :=
  repeat match goal with
  | H : _ && _ = true |- _ => apply andb_true_iff in H; destruct H
  | H : negb _ = true |- _ => apply negb_true_iff in H
  | H : negb _ = false |- _ => apply negb_false_iff in H
  | H : phase_eqb _ _ = true |- _ => apply phase_eqb_iff in H
  | H : is_nil _ = true |- _ => apply is_nil_iff in H
  | H : is_nil _ = false |- _ => apply is_nil_false in H
  end.

(* ------------------------------------------------------------------ *)
(* Relational reading of each step                                      *)
(* ------------------------------------------------------------------ *)

(* What a client->target move does: some non-empty chunk leaves the source
   and the concatenation delivered++buffered grows by exactly that chunk. *)
Lemma step_Drain1 c s s' :
  (buffered c = false -> wbuf s = []) ->
  step c s Drain1 = Some s' ->
  dir1 s = Running /\ rbuf s <> [] /\
  exists tin w, s' = set_c2t s [] (c2t_src s) w tin
    /\ tin ++ w = t_in s ++ wbuf s ++ rbuf s
    /\ (buffered c = false -> w = []).
Proof.
  intro NB. unfold step.
  destruct (phase_eqb (dir1 s) Running && negb (is_nil (rbuf s))) eqn:G; [|discriminate].
  bools. destruct (buffered c) eqn:B.
  - destruct (push (t_in s) (wbuf s ++ rbuf s)) as [tin w] eqn:P. intro HS; inversion HS; subst.
    apply push_spec in P. destruct P as (P1 & _ & _).
    split; [assumption|]. split; [assumption|]. exists tin, w. split; [reflexivity|].
    split; [exact P1|]. intros; discriminate.
  - intro HS; inversion HS; subst. split; [assumption|]. split; [assumption|].
    exists (t_in s ++ rbuf s), (wbuf s). split; [reflexivity|]. rewrite (NB eq_refl). split.
    + rewrite app_nil_r. reflexivity.
    + reflexivity.
Qed.

Lemma step_Copy1 c s n s' :
  (buffered c = false -> wbuf s = []) ->
  step c s (Copy1 n) = Some s' ->
  dir1 s = Running /\ rbuf s = [] /\
  exists chunk rest tin w, c2t_src s = chunk ++ rest /\ chunk <> []
    /\ s' = set_c2t s [] rest w tin
    /\ tin ++ w = t_in s ++ wbuf s ++ chunk
    /\ (wbuf s = [] -> w = []).
Proof.
  intro NB. unfold step.
  destruct (phase_eqb (dir1 s) Running && is_nil (rbuf s)) eqn:G; [|discriminate].
  bools. destruct (push (t_in s) (wbuf s)) as [tin0 w0] eqn:P.
  apply push_spec in P. destruct P as (P1 & P2 & P3).
  destruct (negb (buffered c) || is_nil w0) eqn:F.
  - destruct (is_nil (firstn n (c2t_src s))) eqn:K; [discriminate|]. bools.
    intro HS; inversion HS; subst. split; [assumption|]. split; [assumption|].
    exists (firstn n (c2t_src s)), (skipn n (c2t_src s)), (tin0 ++ firstn n (c2t_src s)), w0.
    split; [symmetry; apply firstn_skipn|]. split; [assumption|]. split; [reflexivity|].
    assert (W0 : w0 = []).
    { apply orb_true_iff in F. destruct F as [F|F]; bools.
      - apply P2. apply NB. exact F.
      - exact F. }
    subst w0. split; [|exact P2].
    rewrite app_nil_r in *. rewrite P1. rewrite <- app_assoc. reflexivity.
  - apply orb_false_iff in F. destruct F as [F1 F2]. bools.
    destruct (push tin0 (w0 ++ firstn (Nat.min n (bufsize - length w0)) (c2t_src s))) as [tin w] eqn:Q.
    destruct (is_nil (firstn (Nat.min n (bufsize - length w0)) (c2t_src s))) eqn:K; [discriminate|]. bools.
    intro HS; inversion HS; subst. split; [assumption|]. split; [assumption|].
    apply push_spec in Q. destruct Q as (Q1 & _ & _).
    eexists _, _, tin, w.
    split; [symmetry; apply firstn_skipn|]. split; [eassumption|]. split; [reflexivity|].
    split.
    + rewrite Q1. rewrite app_assoc. rewrite P1. rewrite <- app_assoc. reflexivity.
    + intro W. exfalso. apply F2. apply P2. exact W.
Qed.
