(* C04 — lemmas and proofs about the tunnel LTS of Model.v. *)
From Coq Require Import List NArith Bool Arith Lia Ascii.
From Martian.C04 Require Import Model.
Import ListNotations.

(* ------------------------------------------------------------------ *)
(* Small facts                                                          *)
(* ------------------------------------------------------------------ *)

Lemma phase_eqb_iff a b : phase_eqb a b = true <-> a = b.
Proof. destruct a, b; simpl; split; intro H; try reflexivity; discriminate. Qed.

Lemma phase_eqb_false a b : phase_eqb a b = false <-> a <> b.
Proof. destruct a, b; simpl; split; intro H; try discriminate; try congruence; exfalso; apply H; reflexivity. Qed.

Lemma is_nil_iff {A} (l : list A) : is_nil l = true <-> l = [].
Proof. destruct l; simpl; split; intro H; try reflexivity; discriminate. Qed.

Lemma is_nil_false {A} (l : list A) : is_nil l = false <-> l <> [].
Proof. destruct l; simpl; split; intro H; try discriminate; try congruence; exfalso; apply H; reflexivity. Qed.

Lemma bufsize_pos : 0 < bufsize.
Proof. unfold bufsize. apply Nat.lt_0_succ. Qed.

Global Opaque bufsize.

Lemma push_spec tin w tin' w' :
  push tin w = (tin', w') ->
  tin' ++ w' = tin ++ w /\ (w = [] -> w' = []) /\ length w' < bufsize.
Proof.
  unfold push. destruct (Nat.leb bufsize (length w)) eqn:E; intro H; inversion H; subst.
  - rewrite app_nil_r. split; [reflexivity|]. split; [reflexivity|]. simpl. apply bufsize_pos.
  - split; [reflexivity|]. split; [tauto|]. apply Nat.leb_gt in E. exact E.
Qed.

Lemma firstn_nonnil_skipn_shorter {A} n (l : list A) :
  firstn n l <> [] -> length (skipn n l) < length l.
Proof.
  intro H. destruct n; [simpl in H; congruence|]. destruct l; [simpl in H; congruence|].
  rewrite skipn_length. simpl. lia.
Qed.

Ltac bools :=
  repeat match goal with
  | H : _ && _ = true |- _ => apply andb_true_iff in H; destruct H
  | H : negb _ = true |- _ => apply negb_true_iff in H
  | H : negb _ = false |- _ => apply negb_false_iff in H
  | H : phase_eqb _ _ = true |- _ => apply phase_eqb_iff in H
  | H : is_nil _ = true |- _ => apply is_nil_iff in H
  | H : is_nil _ = false |- _ => apply is_nil_false in H
  end.

(* ------------------------------------------------------------------ *)
(* Relational reading of each step                                      *)
(* ------------------------------------------------------------------ *)

(* What a client->target move does: some non-empty chunk leaves the source
   and the concatenation delivered++buffered grows by exactly that chunk. *)
Lemma step_Drain1 c s s' :
  (buffered c = false -> wbuf s = []) ->
  step c s Drain1 = Some s' ->
  dir1 s = Running /\ rbuf s <> [] /\
  exists tin w, s' = set_c2t s [] (c2t_src s) w tin
    /\ tin ++ w = t_in s ++ wbuf s ++ rbuf s
    /\ (buffered c = false -> w = []).
Proof.
  intro NB. unfold step.
  destruct (phase_eqb (dir1 s) Running && negb (is_nil (rbuf s))) eqn:G; [|discriminate].
  bools. destruct (buffered c) eqn:B.
  - destruct (push (t_in s) (wbuf s ++ rbuf s)) as [tin w] eqn:P. intro HS; inversion HS; subst.
    apply push_spec in P. destruct P as (P1 & _ & _).
    split; [assumption|]. split; [assumption|]. exists tin, w. split; [reflexivity|].
    split; [exact P1|]. intros; discriminate.
  - intro HS; inversion HS; subst. split; [assumption|]. split; [assumption|].
    exists (t_in s ++ rbuf s), (wbuf s). split; [reflexivity|]. rewrite (NB eq_refl). split.
    + rewrite app_nil_r. reflexivity.
    + reflexivity.
Qed.

Lemma step_Copy1 c s n s' :
  (buffered c = false -> wbuf s = []) ->
  step c s (Copy1 n) = Some s' ->
  dir1 s = Running /\ rbuf s = [] /\
  exists chunk rest tin w, c2t_src s = chunk ++ rest /\ chunk <> []
    /\ s' = set_c2t s [] rest w tin
    /\ tin ++ w = t_in s ++ wbuf s ++ chunk
    /\ (wbuf s = [] -> w = []).
Proof.
  intro NB. unfold step.
  destruct (phase_eqb (dir1 s) Running && is_nil (rbuf s)) eqn:G; [|discriminate].
  bools. destruct (push (t_in s) (wbuf s)) as [tin0 w0] eqn:P.
  apply push_spec in P. destruct P as (P1 & P2 & P3).
  destruct (negb (buffered c) || is_nil w0) eqn:F.
  - destruct (is_nil (firstn n (c2t_src s))) eqn:K; [discriminate|]. bools.
    intro HS; inversion HS; subst. split; [assumption|]. split; [assumption|].
    exists (firstn n (c2t_src s)), (skipn n (c2t_src s)), (tin0 ++ firstn n (c2t_src s)), w0.
    split; [symmetry; apply firstn_skipn|]. split; [assumption|]. split; [reflexivity|].
    assert (W0 : w0 = []).
    { apply orb_true_iff in F. destruct F as [F|F]; bools.
      - apply P2. apply NB. exact F.
      - exact F. }
    subst w0. split; [|exact P2].
    rewrite app_nil_r in *. rewrite P1. rewrite <- app_assoc. reflexivity.
  - apply orb_false_iff in F. destruct F as [F1 F2]. bools.
    destruct (push tin0 (w0 ++ firstn (Nat.min n (bufsize - length w0)) (c2t_src s))) as [tin w] eqn:Q.
    destruct (is_nil (firstn (Nat.min n (bufsize - length w0)) (c2t_src s))) eqn:K; [discriminate|]. bools.
    intro HS; inversion HS; subst. split; [assumption|]. split; [assumption|].
    apply push_spec in Q. destruct Q as (Q1 & _ & _).
    eexists _, _, tin, w.
    split; [symmetry; apply firstn_skipn|]. split; [eassumption|]. split; [reflexivity|].
    split.
    + rewrite Q1. rewrite app_assoc. rewrite P1. rewrite <- app_assoc. reflexivity.
    + intro W. exfalso. apply F2. apply P2. exact W.
Qed.

(* ------------------------------------------------------------------ *)
(* The invariant                                                        *)
(* ------------------------------------------------------------------ *)

Record Inv (c : cfg) (s : st) : Prop := mkInv
  { i_c2t : t_in s ++ wbuf s ++ rbuf s ++ c2t_src s = c_sent s;
    i_t2c : c_in s ++ t2c_src s = t_sent s;
    i_nobuf : buffered c = false -> wbuf s = [];
    i_d1 : dir1 s = Done -> c_abort s = false -> t_abort s = false ->
           c_wr_open s = false /\ rbuf s = [] /\ c2t_src s = [];
    i_d1w : dir1 s = Done -> c_wr_open s = false \/ t_abort s = true;
    i_d1e : dir1 s = Done -> eos_prop c = true -> t_eos s = true /\ wbuf s = [];
    i_d2 : dir2 s = Done -> c_abort s = false -> t_abort s = false ->
           t_wr_open s = false /\ t2c_src s = [];
    i_d2w : dir2 s = Done -> t_wr_open s = false \/ c_abort s = true;
    i_d2e : dir2 s = Done -> eos_prop c = true -> c_eos s = true;
    i_te : t_eos s = true -> dir1 s = Done /\ wbuf s = [];
    i_ce : c_eos s = true -> dir2 s = Done;
    i_cl : closed s = true -> dir1 s = Done /\ dir2 s = Done /\ t_eos s = true /\ c_eos s = true;
    i_ca : c_abort s = true -> c_wr_open s = false;
    i_ta : t_abort s = true -> t_wr_open s = false }.

Lemma inv_init c e p : Inv c (init e p).
Proof.
  constructor; simpl; try discriminate; try reflexivity.
  - rewrite app_nil_r. reflexivity.
Qed.

Ltac done_contra :=
  match goal with
  | H1 : dir1 ?s = Running, H2 : dir1 ?s = Done |- _ => rewrite H1 in H2; discriminate
  | H1 : dir2 ?s = Running, H2 : dir2 ?s = Done |- _ => rewrite H1 in H2; discriminate
  end.

(* saturate implications whose premise is at hand, split, close by congruence *)
Ltac sat :=
  intros;
  repeat match goal with
  | H : ?A -> _, H' : ?A |- _ => specialize (H H')
  end;
  repeat match goal with H : _ /\ _ |- _ => destruct H end;
  try done_contra; try discriminate; try congruence;
  repeat split; try done_contra; try congruence; auto;
  try (match goal with H : _ \/ _ |- _ => destruct H end; try congruence; auto).

Ltac inv_goals t1 t2 :=
  constructor; simpl; [ t1 | t2 | sat | sat | sat | sat | sat | sat | sat | sat | sat | sat | sat | sat ].

Ltac open_inv I := destruct I as [Ic2t It2c Inb Id1 Id1w Id1e Id2 Id2w Id2e Ite Ice Icl Ica Ita].

Lemma inv_step c s l s' : Inv c s -> step c s l = Some s' -> Inv c s'.
Proof.
  intros I HS. destruct l.
  - (* ClientSend *)
    unfold step in HS. destruct (c_wr_open s) eqn:O; [|discriminate]. inversion HS; subst; clear HS.
    open_inv I.
    inv_goals ltac:(rewrite <- Ic2t; repeat rewrite <- app_assoc; reflexivity) ltac:(exact It2c).
  - (* TargetSend *)
    unfold step in HS. destruct (t_wr_open s) eqn:O; [|discriminate]. inversion HS; subst; clear HS.
    open_inv I.
    inv_goals ltac:(exact Ic2t) ltac:(rewrite <- It2c; repeat rewrite <- app_assoc; reflexivity).
  - (* ClientShut *)
    unfold step in HS. destruct (c_wr_open s) eqn:O; [|discriminate]. inversion HS; subst; clear HS.
    open_inv I. inv_goals ltac:(exact Ic2t) ltac:(exact It2c).
  - (* TargetShut *)
    unfold step in HS. destruct (t_wr_open s) eqn:O; [|discriminate]. inversion HS; subst; clear HS.
    open_inv I. inv_goals ltac:(exact Ic2t) ltac:(exact It2c).
  - (* ClientAbort *)
    unfold step in HS. destruct (c_abort s) eqn:O; [discriminate|]. inversion HS; subst; clear HS.
    open_inv I. inv_goals ltac:(exact Ic2t) ltac:(exact It2c).
  - (* TargetAbort *)
    unfold step in HS. destruct (t_abort s) eqn:O; [discriminate|]. inversion HS; subst; clear HS.
    open_inv I. inv_goals ltac:(exact Ic2t) ltac:(exact It2c).
  - (* Drain1 *)
    apply step_Drain1 in HS; [|apply I]. destruct HS as (R & NE & tin & w & E & C & NB). subst s'.
    open_inv I.
    inv_goals ltac:(rewrite <- Ic2t; rewrite app_assoc; rewrite C; repeat rewrite <- app_assoc; reflexivity)
              ltac:(exact It2c).
  - (* Copy1 *)
    apply step_Copy1 in HS; [|apply I].
    destruct HS as (R & RB & chunk & rest & tin & w & E & NE & E' & C & NB).
    subst s'. open_inv I.
    inv_goals ltac:(rewrite <- Ic2t; rewrite RB, E; simpl; rewrite app_assoc; rewrite C;
                    repeat rewrite <- app_assoc; reflexivity)
              ltac:(exact It2c).
  - (* Eof1 *)
    unfold step in HS.
    destruct (phase_eqb (dir1 s) Running && is_nil (rbuf s) && is_nil (c2t_src s) && negb (c_wr_open s)) eqn:G;
      [|discriminate]. bools. rename H into R, H2 into RB, H1 into SRC, H0 into O.
    open_inv I. destruct (eos_prop c) eqn:EP; inversion HS; subst; clear HS.
    + inv_goals ltac:(rewrite <- Ic2t; rewrite RB, SRC; repeat rewrite app_nil_r; reflexivity)
                ltac:(exact It2c).
    + inv_goals ltac:(rewrite <- Ic2t; rewrite RB, SRC; repeat rewrite app_nil_r; reflexivity)
                ltac:(exact It2c).
  - (* Copy2 *)
    unfold step in HS. destruct (phase_eqb (dir2 s) Running) eqn:G; [|discriminate].
    destruct (is_nil (firstn n (t2c_src s))) eqn:K; [discriminate|]. bools.
    inversion HS; subst; clear HS. open_inv I.
    inv_goals ltac:(exact Ic2t)
              ltac:(rewrite <- It2c; rewrite <- app_assoc; rewrite firstn_skipn; reflexivity).
  - (* Eof2 *)
    unfold step in HS.
    destruct (phase_eqb (dir2 s) Running && is_nil (t2c_src s) && negb (t_wr_open s)) eqn:G; [|discriminate].
    bools. rename H into R, H1 into SRC, H0 into O.
    inversion HS; subst; clear HS. open_inv I.
    inv_goals ltac:(exact Ic2t) ltac:(rewrite <- It2c; rewrite SRC; reflexivity).
    rewrite H0. reflexivity.
  - (* Err1 *)
    unfold step in HS.
    destruct (phase_eqb (dir1 s) Running
              && (c_abort s || (t_abort s && negb (is_nil (rbuf s) && is_nil (c2t_src s))))) eqn:G;
      [|discriminate].
    apply andb_true_iff in G. destruct G as (R & AB). apply phase_eqb_iff in R.
    assert (ABf : c_abort s = true \/ t_abort s = true).
    { apply orb_true_iff in AB. destruct AB as [AB|AB]; [left; exact AB|].
      apply andb_true_iff in AB. right. apply AB. }
    open_inv I. destruct (eos_prop c) eqn:EP; inversion HS; subst; clear HS.
    + inv_goals ltac:(rewrite <- Ic2t; repeat rewrite <- app_assoc; reflexivity) ltac:(exact It2c).
      all: destruct ABf as [X|X]; try congruence; auto.
    + inv_goals ltac:(exact Ic2t) ltac:(exact It2c).
      all: destruct ABf as [X|X]; try congruence; auto.
  - (* Err2 *)
    unfold step in HS.
    destruct (phase_eqb (dir2 s) Running && (t_abort s || (c_abort s && negb (is_nil (t2c_src s))))) eqn:G;
      [|discriminate].
    apply andb_true_iff in G. destruct G as (R & AB). apply phase_eqb_iff in R.
    assert (ABf : t_abort s = true \/ c_abort s = true).
    { apply orb_true_iff in AB. destruct AB as [AB|AB]; [left; exact AB|].
      apply andb_true_iff in AB. right. apply AB. }
    inversion HS; subst; clear HS. open_inv I.
    inv_goals ltac:(exact Ic2t) ltac:(exact It2c).
    all: try (destruct ABf as [X|X]; try congruence; auto; fail).
    all: match goal with HE : eos_prop _ = true |- _ => rewrite HE; reflexivity end.
  - (* Join *)
    unfold step in HS.
    destruct (phase_eqb (dir1 s) Done && phase_eqb (dir2 s) Done && negb (closed s)) eqn:G; [|discriminate].
    bools. inversion HS; subst; clear HS. open_inv I.
    inv_goals ltac:(rewrite <- Ic2t; rewrite <- app_assoc; reflexivity) ltac:(exact It2c).
Qed.

Lemma inv_run c tr : forall s s', Inv c s -> run c s tr = Some s' -> Inv c s'.
Proof.
  induction tr as [|l tr IH]; simpl; intros s s' I R.
  - inversion R; subst; exact I.
  - destruct (step c s l) as [s1|] eqn:HS; [|discriminate].
    eapply IH; [eapply inv_step; eassumption|exact R].
Qed.

Definition reachable (c : cfg) (early peeked : list byte) (tr : list label) (s : st) : Prop :=
  run c (init early peeked) tr = Some s.

Lemma inv_reachable c e p tr s : reachable c e p tr s -> Inv c s.
Proof. intro R. eapply inv_run; [apply inv_init|exact R]. Qed.

Lemma run_app c tr1 : forall tr2 s s1 s2,
  run c s tr1 = Some s1 -> run c s1 tr2 = Some s2 -> run c s (tr1 ++ tr2) = Some s2.
Proof.
  induction tr1 as [|l tr1 IH]; simpl; intros tr2 s s1 s2 R1 R2.
  - inversion R1; subst; exact R2.
  - destruct (step c s l) as [sx|]; [|discriminate]. eapply IH; eassumption.
Qed.

(* ------------------------------------------------------------------ *)
(* Ghost fields are what the ends did                                   *)
(* ------------------------------------------------------------------ *)

Definition lbl_cbytes (l : label) : list byte := match l with ClientSend bs => bs | _ => [] end.
Definition lbl_tbytes (l : label) : list byte := match l with TargetSend bs => bs | _ => [] end.
Definition lbl_cshut (l : label) : bool := match l with ClientShut | ClientAbort => true | _ => false end.
Definition lbl_tshut (l : label) : bool := match l with TargetShut | TargetAbort => true | _ => false end.
Definition lbl_cabort (l : label) : bool := match l with ClientAbort => true | _ => false end.
Definition lbl_tabort (l : label) : bool := match l with TargetAbort => true | _ => false end.

(* case analysis of one step: split every guard, then read off the new state *)
Ltac crack HS :=
  unfold step in HS;
  repeat match type of HS with
  | context [push ?a ?b] => destruct (push a b) eqn:?
  | (if ?b then _ else _) = Some _ => destruct b eqn:?; try discriminate
  end;
  inversion HS; subst; clear HS.

Lemma ghost_step c s l s' :
  step c s l = Some s' ->
  c_sent s' = c_sent s ++ lbl_cbytes l /\ t_sent s' = t_sent s ++ lbl_tbytes l /\
  c_wr_open s' = c_wr_open s && negb (lbl_cshut l) /\
  t_wr_open s' = t_wr_open s && negb (lbl_tshut l) /\
  c_abort s' = c_abort s || lbl_cabort l /\
  t_abort s' = t_abort s || lbl_tabort l.
Proof.
  intro HS. destruct l; crack HS; simpl;
    repeat match goal with H : _ && _ = true |- _ => apply andb_true_iff in H; destruct H end;
    repeat match goal with
    | H : negb (c_wr_open s) = true |- _ => apply negb_true_iff in H; rewrite H
    | H : negb (t_wr_open s) = true |- _ => apply negb_true_iff in H; rewrite H
    end;
    rewrite ?app_nil_r, ?andb_true_r, ?andb_false_r, ?orb_false_r, ?orb_true_r; auto 10.
Qed.

Lemma client_bytes_cons l tr : client_bytes (l :: tr) = lbl_cbytes l ++ client_bytes tr.
Proof. destruct l; reflexivity. Qed.
Lemma target_bytes_cons l tr : target_bytes (l :: tr) = lbl_tbytes l ++ target_bytes tr.
Proof. destruct l; reflexivity. Qed.
Lemma client_shut_cons l tr : client_shut (l :: tr) = lbl_cshut l || client_shut tr.
Proof. destruct l; reflexivity. Qed.
Lemma target_shut_cons l tr : target_shut (l :: tr) = lbl_tshut l || target_shut tr.
Proof. destruct l; reflexivity. Qed.

Lemma client_aborted_cons l tr : client_aborted (l :: tr) = lbl_cabort l || client_aborted tr.
Proof. destruct l; reflexivity. Qed.
Lemma target_aborted_cons l tr : target_aborted (l :: tr) = lbl_tabort l || target_aborted tr.
Proof. destruct l; reflexivity. Qed.

Lemma ghost_run c tr : forall s s',
  run c s tr = Some s' ->
  c_sent s' = c_sent s ++ client_bytes tr /\ t_sent s' = t_sent s ++ target_bytes tr /\
  c_wr_open s' = c_wr_open s && negb (client_shut tr) /\
  t_wr_open s' = t_wr_open s && negb (target_shut tr) /\
  c_abort s' = c_abort s || client_aborted tr /\
  t_abort s' = t_abort s || target_aborted tr.
Proof.
  induction tr as [|l tr IH]; intros s s' R.
  - simpl in R. inversion R; subst. simpl.
    repeat rewrite app_nil_r. repeat rewrite andb_true_r. repeat rewrite orb_false_r. auto 10.
  - simpl in R. destruct (step c s l) as [s1|] eqn:HS; [|discriminate].
    apply ghost_step in HS. destruct HS as (A & B & C & D & E & F).
    apply IH in R. destruct R as (A' & B' & C' & D' & E' & F').
    rewrite client_bytes_cons, target_bytes_cons, client_shut_cons, target_shut_cons,
            client_aborted_cons, target_aborted_cons.
    rewrite A', B', C', D', E', F', A, B, C, D, E, F. repeat rewrite <- app_assoc.
    repeat rewrite negb_orb. repeat rewrite andb_assoc. repeat rewrite orb_assoc. auto 10.
Qed.

(* ------------------------------------------------------------------ *)
(* Quiescence                                                           *)
(* ------------------------------------------------------------------ *)

Definition quiescent (c : cfg) (s : st) : Prop :=
  forall l, internal l = true -> step c s l = None.

Lemma phase_cases (p : phase) : p = Running \/ p = Done.
Proof. destruct p; auto. Qed.

(* what quiescentb says, in propositional form *)
Lemma quiescentb_facts s :
  quiescentb s = true ->
  (dir1 s = Running -> rbuf s = [] /\ c2t_src s = [] /\ c_wr_open s = true /\ c_abort s = false) /\
  (dir2 s = Running -> t2c_src s = [] /\ t_wr_open s = true /\ t_abort s = false) /\
  (dir1 s = Done -> dir2 s = Done -> closed s = true).
Proof.
  unfold quiescentb. intro Q.
  destruct (dir1 s) eqn:D1, (dir2 s) eqn:D2; simpl in Q;
    destruct (rbuf s), (c2t_src s), (t2c_src s), (c_wr_open s), (t_wr_open s), (closed s),
             (c_abort s), (t_abort s);
    simpl in Q; try discriminate; repeat split; intros; try discriminate; auto.
Qed.

Lemma next_none_quiescentb s : next_internal s = None <-> quiescentb s = true.
Proof.
  unfold next_internal, quiescentb.
  destruct (dir1 s), (dir2 s); simpl;
    destruct (rbuf s), (c2t_src s), (t2c_src s), (c_wr_open s), (t_wr_open s), (closed s),
             (c_abort s), (t_abort s);
    simpl; split; intro H; try reflexivity; try discriminate.
Qed.

Lemma next_internal_internal s l : next_internal s = Some l -> internal l = true.
Proof.
  unfold next_internal.
  repeat match goal with |- context[if ?b then _ else _] => destruct b end;
    intro H; inversion H; reflexivity.
Qed.

Lemma firstn_length_all {A} (l : list A) : firstn (length l) l = l.
Proof. apply firstn_all. Qed.

(* the scheduler only proposes enabled labels *)
Lemma next_internal_enabled c s l : next_internal s = Some l -> exists s', step c s l = Some s'.
Proof.
  unfold next_internal.
  destruct (phase_eqb (dir1 s) Running && negb (is_nil (rbuf s))) eqn:G1.
  { intro H; inversion H; subst. unfold step. rewrite G1.
    destruct (buffered c); [destruct (push _ _)|]; eexists; reflexivity. }
  destruct (phase_eqb (dir1 s) Running && negb (is_nil (c2t_src s))) eqn:G2.
  { intro H; inversion H; subst. bools. rename H0 into R, H1 into SRC.
    assert (RB : is_nil (rbuf s) = true).
    { rewrite R in G1. simpl in G1. apply negb_false_iff in G1. exact G1. }
    unfold step. rewrite R. simpl. rewrite RB.
    destruct (push (t_in s) (wbuf s)) as [tin0 w0] eqn:P. apply push_spec in P. destruct P as (_ & _ & L).
    destruct (negb (buffered c) || is_nil w0).
    - rewrite firstn_all. apply is_nil_false in SRC. rewrite SRC. eexists; reflexivity.
    - destruct (push tin0 _) eqn:Q.
      destruct (is_nil (firstn (Nat.min (length (c2t_src s)) (bufsize - length w0)) (c2t_src s))) eqn:K.
      + exfalso. bools. destruct (c2t_src s) as [|x xs]; [congruence|].
        assert (Nat.min (length (x :: xs)) (bufsize - length w0) = S (Nat.pred (Nat.min (length (x :: xs)) (bufsize - length w0)))) as E.
        { simpl length. lia. }
        rewrite E in K. simpl in K. discriminate.
      + eexists; reflexivity. }
  destruct (phase_eqb (dir1 s) Running && negb (c_wr_open s)) eqn:G3.
  { intro H; inversion H; subst. bools. rename H0 into R, H1 into O.
    unfold step. rewrite R in *. simpl in *. apply negb_false_iff in G1, G2. rewrite G1, G2, O. simpl.
    destruct (eos_prop c); eexists; reflexivity. }
  destruct (phase_eqb (dir2 s) Running && negb (is_nil (t2c_src s))) eqn:G4.
  { intro H; inversion H; subst. bools. unfold step. rewrite H0. simpl. rewrite firstn_all.
    apply is_nil_false in H1. rewrite H1. eexists; reflexivity. }
  destruct (phase_eqb (dir2 s) Running && negb (t_wr_open s)) eqn:G5.
  { intro H; inversion H; subst. bools. unfold step. rewrite H0 in *. simpl in *.
    apply negb_false_iff in G4. rewrite G4, H1. simpl. eexists; reflexivity. }
  destruct (phase_eqb (dir1 s) Running && c_abort s) eqn:G5a.
  { intro H; inversion H; subst. apply andb_true_iff in G5a. destruct G5a as (R & A).
    unfold step. rewrite R, A. simpl. destruct (eos_prop c); eexists; reflexivity. }
  destruct (phase_eqb (dir2 s) Running && t_abort s) eqn:G5b.
  { intro H; inversion H; subst. apply andb_true_iff in G5b. destruct G5b as (R & A).
    unfold step. rewrite R, A. simpl. eexists; reflexivity. }
  destruct (phase_eqb (dir1 s) Done && phase_eqb (dir2 s) Done && negb (closed s)) eqn:G6.
  { intro H; inversion H; subst. unfold step. rewrite G6. eexists; reflexivity. }
  discriminate.
Qed.

Lemma firstn_nil_of_nil {A} n : firstn n (@nil A) = [].
Proof. destruct n; reflexivity. Qed.

Lemma quiescentb_sound c s : quiescentb s = true -> quiescent c s.
Proof.
  intros Q l IL. apply quiescentb_facts in Q. destruct Q as (Q1 & Q2 & Q3).
  destruct l; try discriminate; unfold step.
  - destruct (phase_eqb (dir1 s) Running && negb (is_nil (rbuf s))) eqn:G; [|reflexivity].
    bools. destruct (Q1 H) as (X & _). congruence.
  - destruct (phase_eqb (dir1 s) Running && is_nil (rbuf s)) eqn:G; [|reflexivity].
    bools. destruct (Q1 H) as (_ & X & _). rewrite X.
    destruct (push (t_in s) (wbuf s)) as [tin0 w0].
    destruct (negb (buffered c) || is_nil w0).
    + rewrite firstn_nil_of_nil. reflexivity.
    + destruct (push tin0 _). rewrite firstn_nil_of_nil. reflexivity.
  - destruct (phase_eqb (dir1 s) Running && is_nil (rbuf s) && is_nil (c2t_src s) && negb (c_wr_open s)) eqn:G;
      [|reflexivity]. bools. destruct (Q1 H) as (_ & _ & X & _). congruence.
  - destruct (phase_eqb (dir2 s) Running) eqn:G; [|reflexivity]. bools.
    destruct (Q2 G) as (X & _). rewrite X. rewrite firstn_nil_of_nil. reflexivity.
  - destruct (phase_eqb (dir2 s) Running && is_nil (t2c_src s) && negb (t_wr_open s)) eqn:G; [|reflexivity].
    bools. destruct (Q2 H) as (_ & X & _). congruence.
  - destruct (phase_eqb (dir1 s) Running) eqn:G; [|reflexivity]. apply phase_eqb_iff in G.
    destruct (Q1 G) as (X1 & X2 & _ & X4). rewrite X1, X2, X4. simpl. rewrite andb_false_r. reflexivity.
  - destruct (phase_eqb (dir2 s) Running) eqn:G; [|reflexivity]. apply phase_eqb_iff in G.
    destruct (Q2 G) as (X1 & _ & X3). rewrite X1, X3. simpl. rewrite andb_false_r. reflexivity.
  - destruct (phase_eqb (dir1 s) Done && phase_eqb (dir2 s) Done && negb (closed s)) eqn:G; [|reflexivity].
    bools. rewrite (Q3 H H1) in H0. discriminate.
Qed.

Lemma quiescentb_iff c s : quiescentb s = true <-> quiescent c s.
Proof.
  split; [apply quiescentb_sound|].
  intro Q. apply next_none_quiescentb. destruct (next_internal s) as [l|] eqn:N; [|reflexivity].
  exfalso. destruct (next_internal_enabled c s l N) as [s' HS].
  rewrite (Q l (next_internal_internal s l N)) in HS. discriminate.
Qed.

(* internal steps terminate *)
Lemma measure_decreases c s l s' :
  step c s l = Some s' -> internal l = true -> measure s' < measure s.
Proof.
  intros HS IL. destruct l; try discriminate.
  - unfold step in HS.
    destruct (phase_eqb (dir1 s) Running && negb (is_nil (rbuf s))) eqn:G; [|discriminate]. bools.
    assert (0 < length (rbuf s)) by (destruct (rbuf s); [congruence|simpl; lia]).
    destruct (buffered c); [destruct (push _ _)|]; inversion HS; subst; unfold measure; simpl; lia.
  - unfold step in HS.
    destruct (phase_eqb (dir1 s) Running && is_nil (rbuf s)) eqn:G; [|discriminate]. bools.
    destruct (push (t_in s) (wbuf s)) as [tin0 w0].
    destruct (negb (buffered c) || is_nil w0).
    + destruct (is_nil (firstn n (c2t_src s))) eqn:K; [discriminate|]. bools.
      apply firstn_nonnil_skipn_shorter in K.
      inversion HS; subst; unfold measure; simpl. rewrite H0. simpl. lia.
    + destruct (push tin0 _).
      destruct (is_nil (firstn (Nat.min n (bufsize - length w0)) (c2t_src s))) eqn:K; [discriminate|]. bools.
      apply firstn_nonnil_skipn_shorter in K.
      inversion HS; subst; unfold measure; simpl. rewrite H0. simpl. lia.
  - unfold step in HS.
    destruct (phase_eqb (dir1 s) Running && is_nil (rbuf s) && is_nil (c2t_src s) && negb (c_wr_open s)) eqn:G;
      [|discriminate]. bools.
    destruct (eos_prop c); inversion HS; subst; unfold measure; simpl; rewrite H, H1, H2; simpl; lia.
  - unfold step in HS. destruct (phase_eqb (dir2 s) Running) eqn:G; [|discriminate].
    destruct (is_nil (firstn n (t2c_src s))) eqn:K; [discriminate|]. bools.
    apply firstn_nonnil_skipn_shorter in K.
    inversion HS; subst; unfold measure; simpl. lia.
  - unfold step in HS.
    destruct (phase_eqb (dir2 s) Running && is_nil (t2c_src s) && negb (t_wr_open s)) eqn:G; [|discriminate].
    bools. inversion HS; subst; unfold measure; simpl. rewrite H, H1. simpl. lia.
  - unfold step in HS.
    destruct (phase_eqb (dir1 s) Running) eqn:G; [|discriminate]. simpl in HS.
    destruct (c_abort s || t_abort s && negb (is_nil (rbuf s) && is_nil (c2t_src s))); [|discriminate].
    destruct (eos_prop c); inversion HS; subst; unfold measure; simpl; rewrite G; simpl; lia.
  - unfold step in HS.
    destruct (phase_eqb (dir2 s) Running) eqn:G; [|discriminate]. simpl in HS.
    destruct (t_abort s || c_abort s && negb (is_nil (t2c_src s))); [|discriminate].
    inversion HS; subst; unfold measure; simpl; rewrite G; simpl; lia.
  - unfold step in HS.
    destruct (phase_eqb (dir1 s) Done && phase_eqb (dir2 s) Done && negb (closed s)) eqn:G; [|discriminate].
    bools. inversion HS; subst; unfold measure; simpl. rewrite H, H1, H0. simpl. lia.
Qed.

(* settle never runs out of fuel and ends in a quiescent state reached by internal steps *)
Lemma settle_ok c : forall fuel s, measure s < fuel ->
  exists s' tr, settle c fuel s = Some s' /\ quiescentb s' = true
                /\ Forall (fun l => internal l = true) tr /\ run c s tr = Some s'.
Proof.
  induction fuel as [|f IH]; intros s M; [lia|].
  simpl. destruct (next_internal s) as [l|] eqn:N.
  - destruct (next_internal_enabled c s l N) as [s1 HS]. rewrite HS.
    pose proof (next_internal_internal s l N) as IL.
    pose proof (measure_decreases c s l s1 HS IL) as D.
    destruct (IH s1) as (s' & tr & S1 & Q & F & R); [lia|].
    exists s', (l :: tr). split; [exact S1|]. split; [exact Q|]. split.
    + constructor; assumption.
    + simpl. rewrite HS. exact R.
  - exists s, []. split; [reflexivity|]. split; [apply next_none_quiescentb; exact N|].
    split; [constructor|reflexivity].
Qed.

Lemma internal_no_env tr : Forall (fun l => internal l = true) tr ->
  client_bytes tr = [] /\ target_bytes tr = [] /\ client_shut tr = false /\ target_shut tr = false
  /\ client_aborted tr = false /\ target_aborted tr = false.
Proof.
  induction 1 as [|l tr IL F IH]; [simpl; auto 10|].
  destruct IH as (A & B & C & D & E & G).
  rewrite client_bytes_cons, target_bytes_cons, client_shut_cons, target_shut_cons,
          client_aborted_cons, target_aborted_cons, A, B, C, D, E, G.
  destruct l; try discriminate; simpl; auto 10.
Qed.

(* ------------------------------------------------------------------ *)
(* Safety                                                               *)
(* ------------------------------------------------------------------ *)

Lemma prefix_c2t c e p tr s : reachable c e p tr s ->
  t_in s ++ wbuf s ++ rbuf s ++ c2t_src s = c_sent s.
Proof. intro R. apply (i_c2t c s (inv_reachable _ _ _ _ _ R)). Qed.

Lemma prefix_t2c c e p tr s : reachable c e p tr s -> c_in s ++ t2c_src s = t_sent s.
Proof. intro R. apply (i_t2c c s (inv_reachable _ _ _ _ _ R)). Qed.

Lemma sent_is_written c e p tr s : reachable c e p tr s ->
  c_sent s = e ++ client_bytes tr /\ t_sent s = p ++ target_bytes tr /\
  c_wr_open s = negb (client_shut tr) /\ t_wr_open s = negb (target_shut tr) /\
  c_abort s = client_aborted tr /\ t_abort s = target_aborted tr.
Proof. intro R. apply ghost_run in R. simpl in R. exact R. Qed.

(* End of stream is shown to an end only after its peer shut (or the end itself
   aborted), and, when nobody aborted, after all of the peer's bytes. *)
Lemma no_premature_eos_inv c s : Inv c s ->
  (t_eos s = true -> (c_wr_open s = false \/ t_abort s = true) /\
                     (c_abort s = false -> t_abort s = false -> t_in s = c_sent s)) /\
  (c_eos s = true -> (t_wr_open s = false \/ c_abort s = true) /\
                     (c_abort s = false -> t_abort s = false -> c_in s = t_sent s)).
Proof.
  intro I. open_inv I. split; intro E.
  - destruct (Ite E) as (D & W). split; [exact (Id1w D)|]. intros A B.
    destruct (Id1 D A B) as (O & RB & SRC).
    rewrite <- Ic2t. rewrite W, RB, SRC. repeat rewrite app_nil_r. reflexivity.
  - pose proof (Ice E) as D. split; [exact (Id2w D)|]. intros A B.
    destruct (Id2 D A B) as (O & SRC).
    rewrite <- It2c. rewrite SRC. rewrite app_nil_r. reflexivity.
Qed.

Lemma released_only_when_done_inv c s : Inv c s -> closed s = true ->
  (c_wr_open s = false \/ t_abort s = true) /\ (t_wr_open s = false \/ c_abort s = true) /\
  (c_abort s = false -> t_abort s = false ->
   c_wr_open s = false /\ t_wr_open s = false /\ t_in s = c_sent s /\ c_in s = t_sent s).
Proof.
  intros I CL. pose proof (no_premature_eos_inv c s I) as (A & B).
  destruct (i_cl c s I CL) as (_ & _ & TE & CE).
  destruct (A TE) as (A1 & A2), (B CE) as (B1 & B2).
  split; [exact A1|]. split; [exact B1|]. intros NA NB.
  destruct A1 as [A1|A1]; [|congruence]. destruct B1 as [B1|B1]; [|congruence]. auto.
Qed.

(* ------------------------------------------------------------------ *)
(* Liveness as quiescence                                               *)
(* ------------------------------------------------------------------ *)

Lemma quiescent_drained c s : Inv c s -> quiescentb s = true ->
  c_abort s = false -> t_abort s = false ->
  rbuf s = [] /\ c2t_src s = [] /\ t2c_src s = [].
Proof.
  intros I Q NA NB. apply quiescentb_facts in Q. destruct Q as (Q1 & Q2 & _). open_inv I.
  destruct (phase_cases (dir1 s)) as [D1|D1], (phase_cases (dir2 s)) as [D2|D2];
    try (destruct (Q1 D1) as (? & ? & ? & ?)); try (destruct (Q2 D2) as (? & ? & ?));
    try (destruct (Id1 D1 NA NB) as (? & ? & ?)); try (destruct (Id2 D2 NA NB) as (? & ?)); auto.
Qed.

Lemma delivery_quiescent_inv c s : Inv c s -> quiescentb s = true -> wbuf s = [] ->
  c_abort s = false -> t_abort s = false ->
  t_in s = c_sent s /\ c_in s = t_sent s.
Proof.
  intros I Q W NA NB. destruct (quiescent_drained c s I Q NA NB) as (A & B & C).
  split.
  - rewrite <- (i_c2t c s I). rewrite W, A, B. repeat rewrite app_nil_r. reflexivity.
  - rewrite <- (i_t2c c s I). rewrite C. rewrite app_nil_r. reflexivity.
Qed.

Lemma quiescent_done s : quiescentb s = true ->
  (c_wr_open s = false -> dir1 s = Done) /\ (t_wr_open s = false -> dir2 s = Done).
Proof.
  intro Q. pose proof (quiescentb_facts s Q) as (Q1 & Q2 & _). split; intro O.
  - destruct (phase_cases (dir1 s)) as [D|D]; [|exact D]. destruct (Q1 D) as (_ & _ & X & _). congruence.
  - destruct (phase_cases (dir2 s)) as [D|D]; [|exact D]. destruct (Q2 D) as (_ & X & _). congruence.
Qed.

(* An end that shut OR ABORTED: its peer has been shown end-of-stream (when
   nobody aborted: after all the bytes); both ends done: released. *)
Lemma eos_quiescent_inv c s : eos_prop c = true -> Inv c s -> quiescentb s = true ->
  (c_wr_open s = false ->
     t_eos s = true /\ (c_abort s = false -> t_abort s = false -> t_in s = c_sent s)) /\
  (t_wr_open s = false ->
     c_eos s = true /\ (c_abort s = false -> t_abort s = false -> c_in s = t_sent s)) /\
  (c_wr_open s = false -> t_wr_open s = false -> closed s = true).
Proof.
  intros EP I Q. pose proof (quiescentb_facts s Q) as (_ & _ & Q3).
  pose proof (quiescent_done s Q) as (D1 & D2).
  pose proof (no_premature_eos_inv c s I) as (PA & PB).
  split; [|split].
  - intro O. destruct (i_d1e c s I (D1 O) EP) as (TE & _). split; [exact TE|]. apply PA; exact TE.
  - intro O. pose proof (i_d2e c s I (D2 O) EP) as CE. split; [exact CE|]. apply PB; exact CE.
  - intros O1 O2. apply Q3; auto.
Qed.

(* abortive closes in particular *)
Lemma abort_quiescent_inv c s : eos_prop c = true -> Inv c s -> quiescentb s = true ->
  (c_abort s = true -> t_eos s = true) /\ (t_abort s = true -> c_eos s = true) /\
  ((c_wr_open s = false \/ c_abort s = true) -> (t_wr_open s = false \/ t_abort s = true) ->
   closed s = true).
Proof.
  intros EP I Q. destruct (eos_quiescent_inv c s EP I Q) as (E1 & E2 & E3).
  split; [|split].
  - intro A. apply E1. apply (i_ca c s I A).
  - intro A. apply E2. apply (i_ta c s I A).
  - intros [O1|O1] [O2|O2]; apply E3; auto; try (apply (i_ca c s I O1)); try (apply (i_ta c s I O2)).
Qed.

(* without the repairs: end of stream reaches the other end only once BOTH ends have shut *)
Lemma eos_quiescent_weak_inv c s : Inv c s -> quiescentb s = true ->
  c_wr_open s = false -> t_wr_open s = false ->
  closed s = true /\ t_eos s = true /\ c_eos s = true /\
  (c_abort s = false -> t_abort s = false -> t_in s = c_sent s /\ c_in s = t_sent s).
Proof.
  intros I Q O1 O2. pose proof (quiescentb_facts s Q) as (_ & _ & Q3).
  pose proof (quiescent_done s Q) as (D1 & D2).
  pose proof (Q3 (D1 O1) (D2 O2)) as CL. destruct (i_cl c s I CL) as (_ & _ & TE & CE).
  destruct (released_only_when_done_inv c s I CL) as (_ & _ & A).
  split; [exact CL|]. split; [exact TE|]. split; [exact CE|]. intros NA NB.
  destruct (A NA NB) as (_ & _ & X & Y). auto.
Qed.

(* the buffer stays empty when nothing arrived with the CONNECT head *)
Lemma nobuf_without_early_step c s l s' :
  rbuf s = [] /\ wbuf s = [] -> step c s l = Some s' -> rbuf s' = [] /\ wbuf s' = [].
Proof.
  intros (RB & W) HS. destruct l; unfold step in HS.
  - destruct (c_wr_open s); [|discriminate]. inversion HS; subst; simpl; auto.
  - destruct (t_wr_open s); [|discriminate]. inversion HS; subst; simpl; auto.
  - destruct (c_wr_open s); [|discriminate]. inversion HS; subst; simpl; auto.
  - destruct (t_wr_open s); [|discriminate]. inversion HS; subst; simpl; auto.
  - destruct (c_abort s); [discriminate|]. inversion HS; subst; simpl; auto.
  - destruct (t_abort s); [discriminate|]. inversion HS; subst; simpl; auto.
  - rewrite RB in HS. simpl in HS. rewrite andb_false_r in HS. discriminate.
  - destruct (phase_eqb (dir1 s) Running && is_nil (rbuf s)); [|discriminate].
    rewrite W in HS. unfold push in HS at 1. simpl length in HS.
    destruct (Nat.leb bufsize 0) eqn:L.
    { apply Nat.leb_le in L. pose proof bufsize_pos. lia. }
    simpl is_nil in HS. rewrite orb_true_r in HS.
    destruct (is_nil (firstn n (c2t_src s))); [discriminate|]. inversion HS; subst; simpl; auto.
  - destruct (phase_eqb (dir1 s) Running && is_nil (rbuf s) && is_nil (c2t_src s) && negb (c_wr_open s));
      [|discriminate]. destruct (eos_prop c); inversion HS; subst; simpl; auto.
  - destruct (phase_eqb (dir2 s) Running); [|discriminate].
    destruct (is_nil (firstn n (t2c_src s))); [discriminate|]. inversion HS; subst; simpl; auto.
  - destruct (phase_eqb (dir2 s) Running && is_nil (t2c_src s) && negb (t_wr_open s)); [|discriminate].
    inversion HS; subst; simpl; auto.
  - destruct (phase_eqb (dir1 s) Running
              && (c_abort s || t_abort s && negb (is_nil (rbuf s) && is_nil (c2t_src s)))); [|discriminate].
    destruct (eos_prop c); inversion HS; subst; simpl; auto.
  - destruct (phase_eqb (dir2 s) Running && (t_abort s || c_abort s && negb (is_nil (t2c_src s))));
      [|discriminate]. inversion HS; subst; simpl; auto.
  - destruct (phase_eqb (dir1 s) Done && phase_eqb (dir2 s) Done && negb (closed s)); [|discriminate].
    inversion HS; subst; simpl; auto.
Qed.

Lemma nobuf_without_early_run c tr : forall s s',
  rbuf s = [] /\ wbuf s = [] -> run c s tr = Some s' -> rbuf s' = [] /\ wbuf s' = [].
Proof.
  induction tr as [|l tr IH]; simpl; intros s s' H R.
  - inversion R; subst; exact H.
  - destruct (step c s l) as [s1|] eqn:HS; [|discriminate].
    eapply IH; [eapply nobuf_without_early_step; eassumption|exact R].
Qed.

(* ------------------------------------------------------------------ *)
(* Checkpoints: a quiescent state shows exactly the ideal tunnel        *)
(* ------------------------------------------------------------------ *)

Definition ideal_view (s : st) : view :=
  mkView (c_sent s) (negb (c_wr_open s)) (t_sent s) (negb (t_wr_open s))
         (negb (c_wr_open s) && negb (t_wr_open s)).

Lemma quiescent_view c s : eos_prop c = true -> Inv c s -> quiescentb s = true -> wbuf s = [] ->
  c_abort s = false -> t_abort s = false ->
  view_of s = ideal_view s.
Proof.
  intros EP I Q W NA NB.
  destruct (delivery_quiescent_inv c s I Q W NA NB) as (A & B).
  destruct (eos_quiescent_inv c s EP I Q) as (E1 & E2 & E3).
  pose proof (no_premature_eos_inv c s I) as (P1 & P2).
  pose proof (released_only_when_done_inv c s I) as RL.
  unfold view_of, ideal_view. rewrite A, B.
  assert (TE : t_eos s = negb (c_wr_open s)).
  { destruct (c_wr_open s) eqn:O, (t_eos s) eqn:T; simpl; try reflexivity; exfalso;
      intuition congruence. }
  assert (CE : c_eos s = negb (t_wr_open s)).
  { destruct (t_wr_open s) eqn:O, (c_eos s) eqn:T; simpl; try reflexivity; exfalso;
      intuition congruence. }
  assert (CL : closed s = negb (c_wr_open s) && negb (t_wr_open s)).
  { destruct (closed s) eqn:K, (c_wr_open s) eqn:O1, (t_wr_open s) eqn:O2; simpl; try reflexivity;
      exfalso; intuition congruence. }
  rewrite TE, CE, CL. reflexivity.
Qed.

Lemma checkpoint_view e p tr s :
  reachable repaired e p tr s -> quiescentb s = true ->
  client_aborted tr = false -> target_aborted tr = false ->
  view_of s = spec_view e p tr.
Proof.
  intros R Q NA NB. pose proof (inv_reachable _ _ _ _ _ R) as I.
  destruct (sent_is_written _ _ _ _ _ R) as (A & B & C & D & E & F).
  rewrite NA in E. rewrite NB in F.
  rewrite (quiescent_view repaired s eq_refl I Q (i_nobuf _ _ I eq_refl) E F).
  unfold ideal_view, spec_view. rewrite A, B, C, D. repeat rewrite negb_involutive. reflexivity.
Qed.

(* With abortive closes: the surviving end is shown end-of-stream exactly when
   its peer shut or aborted, never loses or reorders what it receives, and the
   proxy releases both connections once both ends are done. *)
Lemma checkpoint_view_abort e p tr s :
  reachable repaired e p tr s -> quiescentb s = true ->
  (target_aborted tr = false -> t_eos s = client_shut tr) /\
  (client_aborted tr = false -> c_eos s = target_shut tr) /\
  (client_shut tr = true -> target_shut tr = true -> closed s = true) /\
  (exists rest, t_in s ++ rest = e ++ client_bytes tr) /\
  (exists rest, c_in s ++ rest = p ++ target_bytes tr).
Proof.
  intros R Q. pose proof (inv_reachable _ _ _ _ _ R) as I.
  destruct (sent_is_written _ _ _ _ _ R) as (A & B & C & D & E & F).
  destruct (eos_quiescent_inv repaired s eq_refl I Q) as (E1 & E2 & E3).
  pose proof (no_premature_eos_inv repaired s I) as (P1 & P2).
  split; [|split; [|split; [|split]]].
  - intro NB. rewrite NB in F.
    destruct (client_shut tr) eqn:CS; simpl in C.
    + first [apply E1; exact C|apply (E1 C)].
    + destruct (t_eos s) eqn:T; [|reflexivity]. first [destruct (P1 T) as ([X|X] & _)|destruct (P1 eq_refl) as ([X|X] & _)]; congruence.
  - intro NA. rewrite NA in E.
    destruct (target_shut tr) eqn:TS; simpl in D.
    + first [apply E2; exact D|apply (E2 D)].
    + destruct (c_eos s) eqn:T; [|reflexivity]. first [destruct (P2 T) as ([X|X] & _)|destruct (P2 eq_refl) as ([X|X] & _)]; congruence.
  - intros CS TS. rewrite CS in C. rewrite TS in D. simpl in C, D. apply E3; assumption.
  - exists (wbuf s ++ rbuf s ++ c2t_src s). rewrite <- A. apply (i_c2t _ _ I).
  - exists (t2c_src s). rewrite <- B. apply (i_t2c _ _ I).
Qed.

Lemma client_bytes_app a b : client_bytes (a ++ b) = client_bytes a ++ client_bytes b.
Proof.
  induction a as [|l a IH]; [reflexivity|]. rewrite <- app_comm_cons.
  rewrite !client_bytes_cons, IH, app_assoc. reflexivity.
Qed.
Lemma target_bytes_app a b : target_bytes (a ++ b) = target_bytes a ++ target_bytes b.
Proof.
  induction a as [|l a IH]; [reflexivity|]. rewrite <- app_comm_cons.
  rewrite !target_bytes_cons, IH, app_assoc. reflexivity.
Qed.
Lemma client_shut_app a b : client_shut (a ++ b) = client_shut a || client_shut b.
Proof. apply existsb_app. Qed.
Lemma target_shut_app a b : target_shut (a ++ b) = target_shut a || target_shut b.
Proof. apply existsb_app. Qed.

Definition no_abort_phase (p : pact) : Prop :=
  fin_abort (pa_cfin p) = false /\ fin_abort (pa_tfin p) = false.

Lemma phase_labels_env p :
  client_bytes (phase_labels p) = pa_c p /\ target_bytes (phase_labels p) = pa_t p /\
  client_shut (phase_labels p) = pa_cshut p /\ target_shut (phase_labels p) = pa_tshut p /\
  client_aborted (phase_labels p) = fin_abort (pa_cfin p) /\
  target_aborted (phase_labels p) = fin_abort (pa_tfin p).
Proof.
  unfold phase_labels, pa_cshut, pa_tshut. destruct p as [c cf t tf]; simpl.
  destruct c, t, cf, tf; simpl; repeat rewrite app_nil_r; auto 10.
Qed.

Lemma run_script_meets_spec_gen e p : forall ps s pre vs,
  Forall no_abort_phase ps ->
  Inv repaired s -> c_abort s = false -> t_abort s = false ->
  c_sent s = e ++ client_bytes pre -> t_sent s = p ++ target_bytes pre ->
  c_wr_open s = negb (client_shut pre) -> t_wr_open s = negb (target_shut pre) ->
  run_script repaired s ps = Some vs -> vs = spec_views_from e p pre ps.
Proof.
  induction ps as [|p0 ps IH]; intros s pre vs NAP I NA NB A B C D RS.
  - simpl in RS. inversion RS. reflexivity.
  - cbn [run_script] in RS.
    destruct (run repaired s (phase_labels p0)) as [s1|] eqn:R1; [|discriminate].
    destruct (settle repaired (S (measure s1)) s1) as [s2|] eqn:S2; [|discriminate].
    destruct (run_script repaired s2 ps) as [vs'|] eqn:RS'; [|discriminate].
    inversion RS; subst vs; clear RS.
    inversion NAP as [|? ? (NP1 & NP2) NAP']; subst.
    destruct (settle_ok repaired (S (measure s1)) s1) as (s2' & tr2 & S2' & Q & F & R2); [lia|].
    rewrite S2 in S2'. inversion S2'; subst s2'; clear S2'.
    pose proof (inv_run _ _ _ _ I R1) as I1. pose proof (inv_run _ _ _ _ I1 R2) as I2.
    destruct (ghost_run _ _ _ _ R1) as (A1 & B1 & C1 & D1 & E1 & F1).
    destruct (ghost_run _ _ _ _ R2) as (A2 & B2 & C2 & D2 & E2 & F2).
    destruct (internal_no_env tr2 F) as (N1 & N2 & N3 & N4 & N5 & N6).
    destruct (phase_labels_env p0) as (_ & _ & _ & _ & L5 & L6).
    rewrite N1, N2, N3, N4, N5, N6 in *. rewrite app_nil_r in A2, B2. simpl in C2, D2.
    rewrite andb_true_r in C2, D2. rewrite orb_false_r in E2, F2.
    rewrite L5, NP1, NA in E1. rewrite L6, NP2, NB in F1. simpl in E1, F1.
    rewrite E1 in E2. rewrite F1 in F2.
    set (pre' := pre ++ phase_labels p0).
    assert (A' : c_sent s2 = e ++ client_bytes pre').
    { unfold pre'. rewrite A2, A1, A, client_bytes_app, app_assoc. reflexivity. }
    assert (B' : t_sent s2 = p ++ target_bytes pre').
    { unfold pre'. rewrite B2, B1, B, target_bytes_app, app_assoc. reflexivity. }
    assert (C' : c_wr_open s2 = negb (client_shut pre')).
    { unfold pre'. rewrite C2, C1, C, client_shut_app, negb_orb. reflexivity. }
    assert (D' : t_wr_open s2 = negb (target_shut pre')).
    { unfold pre'. rewrite D2, D1, D, target_shut_app, negb_orb. reflexivity. }
    simpl. fold pre'. f_equal.
    + rewrite (quiescent_view repaired s2 eq_refl I2 Q (i_nobuf _ _ I2 eq_refl) E2 F2).
      unfold ideal_view, spec_view. rewrite A', B', C', D'. repeat rewrite negb_involutive. reflexivity.
    + eapply IH; eassumption.
Qed.

Lemma run_script_meets_spec e p ps vs :
  Forall no_abort_phase ps ->
  run_script repaired (init e p) ps = Some vs -> vs = spec_views e p ps.
Proof.
  intros NAP RS. unfold spec_views.
  eapply (run_script_meets_spec_gen e p ps (init e p) []); try exact RS; try exact NAP; simpl;
    try rewrite app_nil_r; try reflexivity. apply inv_init.
Qed.

(* ------------------------------------------------------------------ *)
(* The oracle                                                           *)
(* ------------------------------------------------------------------ *)

Lemma bytes_eqb_iff a : forall b, bytes_eqb a b = true <-> a = b.
Proof.
  induction a as [|x a IH]; intros [|y b]; simpl; split; intro H; try reflexivity; try discriminate.
  - apply andb_true_iff in H. destruct H as (H1 & H2). apply Ascii.eqb_eq in H1. apply IH in H2. congruence.
  - inversion H; subst. rewrite Ascii.eqb_refl. simpl. apply IH. reflexivity.
Qed.

Lemma eobs_ok_iff n e o : eobs_ok n e (Some o) = true <-> o = mkEobs n true e.
Proof.
  destruct o as [on op oe]. simpl. split; intro H.
  - apply andb_true_iff in H. destruct H as (H & H3). apply andb_true_iff in H. destruct H as (H1 & H2).
    apply N.eqb_eq in H1. apply eqb_prop in H3. simpl in *. subst. reflexivity.
  - inversion H; subst. rewrite N.eqb_refl, eqb_reflx. reflexivity.
Qed.

(* what the harness measured at one end is accepted iff that end received
   exactly the sent stream and saw end-of-stream exactly when it should *)
Lemma oracle_end r sent eos want :
  eobs_ok (N.of_nat (length sent)) want (Some (measure_end r sent eos)) = true
  <-> r = sent /\ eos = want.
Proof.
  rewrite eobs_ok_iff. unfold measure_end. split.
  - intro H. inversion H as [[H1 H2 H3]]. apply Nat2N.inj in H1.
    rewrite H1 in H2. rewrite firstn_all in H2. apply bytes_eqb_iff in H2. auto.
  - intros (-> & ->). rewrite firstn_all. f_equal. apply bytes_eqb_iff. reflexivity.
Qed.

Fixpoint ideal_from (cn tn : N) (cs ts : bool) (ps : list nphase) (obs : list cobs) : Prop :=
  match ps, obs with
  | [], [] => True
  | p :: ps', o :: obs' =>
      let cn' := (cn + np_c p)%N in
      let tn' := (tn + np_t p)%N in
      let cs' := cs || np_cshut p in
      let ts' := ts || np_tshut p in
      (forall e, ob_t o = Some e -> e = mkEobs cn' true cs') /\
      (forall e, ob_c o = Some e -> e = mkEobs tn' true ts') /\
      ideal_from cn' tn' cs' ts' ps' obs'
  | _, _ => False
  end.

Lemma opt_ok_iff n e (o : option eobs) :
  eobs_ok n e o = true <-> (forall x, o = Some x -> x = mkEobs n true e).
Proof.
  destruct o as [x|].
  - rewrite eobs_ok_iff. split; [intros -> y Hy; inversion Hy; reflexivity|intro H; apply H; reflexivity].
  - simpl. split; [intros _ x Hx; discriminate|reflexivity].
Qed.

Lemma c04_ok_from_iff : forall ps obs cn tn cs ts,
  c04_ok_from cn tn cs ts ps obs = true <-> ideal_from cn tn cs ts ps obs.
Proof.
  induction ps as [|p ps IH]; intros [|o obs] cn tn cs ts; simpl; try (split; [discriminate|tauto]).
  - split; auto.
  - rewrite !andb_true_iff, !opt_ok_iff, IH. tauto.
Qed.

Lemma released_ok_iff ps rel :
  released_ok ps rel = true <->
  (all_shut ps = true /\ rel = Some true) \/ (all_shut ps = false /\ rel = None).
Proof.
  unfold released_ok. destruct rel as [[|]|]; destruct (all_shut ps); simpl; split; intro H;
    try discriminate; try reflexivity; auto;
    destruct H as [(A & B)|(A & B)]; try discriminate; reflexivity.
Qed.

Lemma c04_ok_iff early peeked ps obs rel :
  c04_ok early peeked ps obs rel = true <->
  ideal_from early peeked false false ps obs /\
  ((all_shut ps = true /\ rel = Some true) \/ (all_shut ps = false /\ rel = None)).
Proof. unfold c04_ok. rewrite andb_true_iff, c04_ok_from_iff, released_ok_iff. tauto. Qed.

(* CONNECT failure *)
Lemma connect_fail_502 : connect_response DialErr = mkResp 502 true false.
Proof. reflexivity. Qed.

Lemma fail_ok_iff st w : fail_ok st w = true <-> st = 502%N /\ w = true.
Proof. unfold fail_ok. rewrite andb_true_iff, N.eqb_eq. tauto. Qed.

(* ------------------------------------------------------------------ *)
(* Statements over reachable states, as used in Properties.v            *)
(* ------------------------------------------------------------------ *)

Lemma no_premature_eos c e p tr s : reachable c e p tr s ->
  (t_eos s = true -> (c_wr_open s = false \/ t_abort s = true) /\
                     (c_abort s = false -> t_abort s = false -> t_in s = c_sent s)) /\
  (c_eos s = true -> (t_wr_open s = false \/ c_abort s = true) /\
                     (c_abort s = false -> t_abort s = false -> c_in s = t_sent s)).
Proof. intro R. exact (no_premature_eos_inv c s (inv_reachable _ _ _ _ _ R)). Qed.

Lemma released_only_when_both_done c e p tr s : reachable c e p tr s -> closed s = true ->
  (c_wr_open s = false \/ t_abort s = true) /\ (t_wr_open s = false \/ c_abort s = true) /\
  (c_abort s = false -> t_abort s = false ->
   c_wr_open s = false /\ t_wr_open s = false /\ t_in s = c_sent s /\ c_in s = t_sent s).
Proof. intro R. exact (released_only_when_done_inv c s (inv_reachable _ _ _ _ _ R)). Qed.

Lemma settle_reaches_quiescence c s :
  exists s' tr, settle c (S (measure s)) s = Some s' /\ quiescentb s' = true
                /\ Forall (fun l => internal l = true) tr /\ run c s tr = Some s'.
Proof. apply settle_ok. apply Nat.lt_succ_diag_r. Qed.

Lemma delivery_quiescent e p tr s :
  reachable repaired e p tr s -> quiescentb s = true ->
  c_abort s = false -> t_abort s = false ->
  t_in s = c_sent s /\ c_in s = t_sent s.
Proof.
  intros R Q. pose proof (inv_reachable _ _ _ _ _ R) as I.
  exact (delivery_quiescent_inv repaired s I Q (i_nobuf _ _ I eq_refl)).
Qed.

Lemma eos_quiescent e p tr s :
  reachable repaired e p tr s -> quiescentb s = true ->
  (c_wr_open s = false ->
     t_eos s = true /\ (c_abort s = false -> t_abort s = false -> t_in s = c_sent s)) /\
  (t_wr_open s = false ->
     c_eos s = true /\ (c_abort s = false -> t_abort s = false -> c_in s = t_sent s)) /\
  (c_wr_open s = false -> t_wr_open s = false -> closed s = true).
Proof.
  intros R Q. exact (eos_quiescent_inv repaired s eq_refl (inv_reachable _ _ _ _ _ R) Q).
Qed.

Lemma abort_quiescent e p tr s :
  reachable repaired e p tr s -> quiescentb s = true ->
  (c_abort s = true -> t_eos s = true) /\ (t_abort s = true -> c_eos s = true) /\
  ((c_wr_open s = false \/ c_abort s = true) -> (t_wr_open s = false \/ t_abort s = true) ->
   closed s = true).
Proof.
  intros R Q. exact (abort_quiescent_inv repaired s eq_refl (inv_reachable _ _ _ _ _ R) Q).
Qed.

Lemma delivery_quiescent_original_partial p tr s :
  reachable original [] p tr s -> quiescentb s = true ->
  c_abort s = false -> t_abort s = false ->
  t_in s = c_sent s /\ c_in s = t_sent s.
Proof.
  intros R Q. pose proof (inv_reachable _ _ _ _ _ R) as I.
  apply (delivery_quiescent_inv original s I Q).
  assert (H0 : rbuf (init [] p) = [] /\ wbuf (init [] p) = []) by (simpl; auto).
  exact (proj2 (nobuf_without_early_run original tr _ _ H0 R)).
Qed.

Lemma eos_quiescent_original_partial e p tr s :
  reachable original e p tr s -> quiescentb s = true ->
  c_wr_open s = false -> t_wr_open s = false ->
  closed s = true /\ t_eos s = true /\ c_eos s = true /\
  (c_abort s = false -> t_abort s = false -> t_in s = c_sent s /\ c_in s = t_sent s).
Proof. intros R Q. exact (eos_quiescent_weak_inv original s (inv_reachable _ _ _ _ _ R) Q). Qed.

Open Scope char_scope.

Lemma delivery_quiescent_original_refuted :
  exists early tr s, reachable original early [] tr s /\ quiescentb s = true /\ t_in s <> c_sent s.
Proof.
  exists ["a"], [Drain1; ClientSend ["b"; "c"]; Copy1 2].
  eexists. split; [vm_compute; reflexivity|]. split; [vm_compute; reflexivity|].
  vm_compute. discriminate.
Qed.

Lemma eos_quiescent_original_refuted :
  exists tr s, reachable original [] [] tr s /\ quiescentb s = true /\
               t_wr_open s = false /\ c_eos s = false.
Proof.
  exists [TargetShut; Eof2]. eexists.
  split; [vm_compute; reflexivity|]. repeat split; vm_compute; reflexivity.
Qed.

(* the code as it was: the client aborts, its copy loop ends with an error,
   nothing else can happen, and the target has not been told *)
Lemma abort_quiescent_original_refuted :
  exists tr s, reachable original [] [] tr s /\ quiescentb s = true /\
               c_abort s = true /\ t_eos s = false.
Proof.
  exists [ClientAbort; Err1]. eexists.
  split; [vm_compute; reflexivity|]. repeat split; vm_compute; reflexivity.
Qed.

Lemma connect_fail_both :
  connect_response DialErr = mkResp 502 true false /\
  forall st w, fail_ok st w = true <-> st = 502%N /\ w = true.
Proof. split; [exact connect_fail_502|exact fail_ok_iff]. Qed.

(* ------------------------------------------------------------------ *)
(* The oracle accepts what the harness would measure on the ideal views *)
(* ------------------------------------------------------------------ *)

Definition nphase_of (p : pact) : nphase :=
  mkNphase (N.of_nat (length (pa_c p))) (pa_cshut p) (N.of_nat (length (pa_t p))) (pa_tshut p).

Lemma measure_end_prefix a rest eos :
  measure_end a (a ++ rest) eos = mkEobs (N.of_nat (length a)) true eos.
Proof.
  unfold measure_end. f_equal.
  rewrite firstn_app, firstn_all, Nat.sub_diag. simpl. rewrite app_nil_r.
  apply bytes_eqb_iff. reflexivity.
Qed.

Lemma eobs_ok_refl n e : eobs_ok n e (Some (mkEobs n true e)) = true.
Proof. apply eobs_ok_iff. reflexivity. Qed.

Lemma measure_view_ideal a r1 b r2 cs ts cl :
  measure_view (a ++ r1) (b ++ r2) (mkView a cs b ts cl)
  = mkCobs (Some (mkEobs (N.of_nat (length a)) true cs)) (Some (mkEobs (N.of_nat (length b)) true ts)).
Proof. unfold measure_view. simpl. rewrite !measure_end_prefix. reflexivity. Qed.

Lemma oracle_accepts_ideal_gen e p : forall ps pre,
  c04_ok_from (N.of_nat (length (e ++ client_bytes pre))) (N.of_nat (length (p ++ target_bytes pre)))
              (client_shut pre) (target_shut pre) (map nphase_of ps)
              (map (measure_view ((e ++ client_bytes pre) ++ concat (map pa_c ps))
                                 ((p ++ target_bytes pre) ++ concat (map pa_t ps)))
                   (spec_views_from e p pre ps)) = true.
Proof.
  induction ps as [|p0 ps IH]; intro pre; [reflexivity|].
  cbn [map spec_views_from c04_ok_from concat].
  destruct (phase_labels_env p0) as (E1 & E2 & E3 & E4 & _ & _).
  specialize (IH (pre ++ phase_labels p0)).
  set (A := (e ++ client_bytes pre) ++ pa_c p0).
  set (B := (p ++ target_bytes pre) ++ pa_t p0).
  assert (EA : e ++ client_bytes (pre ++ phase_labels p0) = A).
  { unfold A. rewrite client_bytes_app, E1, app_assoc. reflexivity. }
  assert (EB : p ++ target_bytes (pre ++ phase_labels p0) = B).
  { unfold B. rewrite target_bytes_app, E2, app_assoc. reflexivity. }
  assert (EC : client_shut (pre ++ phase_labels p0) = client_shut pre || pa_cshut p0).
  { rewrite client_shut_app, E3. reflexivity. }
  assert (ED : target_shut (pre ++ phase_labels p0) = target_shut pre || pa_tshut p0).
  { rewrite target_shut_app, E4. reflexivity. }
  rewrite EA, EB, EC, ED in IH.
  unfold spec_view. rewrite EA, EB, EC, ED.
  rewrite (app_assoc (e ++ client_bytes pre) (pa_c p0)).
  rewrite (app_assoc (p ++ target_bytes pre) (pa_t p0)).
  fold A. fold B.
  rewrite measure_view_ideal. cbn [ob_t ob_c nphase_of np_c np_t np_cshut np_tshut].
  assert (LA : (N.of_nat (length (e ++ client_bytes pre)) + N.of_nat (length (pa_c p0)))%N = N.of_nat (length A)).
  { unfold A. rewrite (app_length (e ++ client_bytes pre)), Nat2N.inj_add. reflexivity. }
  assert (LB : (N.of_nat (length (p ++ target_bytes pre)) + N.of_nat (length (pa_t p0)))%N = N.of_nat (length B)).
  { unfold B. rewrite (app_length (p ++ target_bytes pre)), Nat2N.inj_add. reflexivity. }
  rewrite LA, LB. rewrite !eobs_ok_refl. simpl andb. exact IH.
Qed.

Lemma oracle_accepts_ideal e p ps :
  c04_ok_from (N.of_nat (length e)) (N.of_nat (length p)) false false (map nphase_of ps)
              (map (measure_view (e ++ concat (map pa_c ps)) (p ++ concat (map pa_t ps)))
                   (spec_views e p ps)) = true.
Proof.
  pose proof (oracle_accepts_ideal_gen e p ps []) as H. simpl in H.
  rewrite !app_nil_r in H. exact H.
Qed.
