(* C04 — audit round: totality of the executable model, schedule independence,
   what survives an abortive close, and the meaning of every verdict clause. *)
From Coq Require Import List NArith Bool Arith Lia Ascii.
From Martian.C04 Require Import Model Proofs.
Import ListNotations.

(* ------------------------------------------------------------------ *)
(* The environment is never blocked; admissible scripts are accepted    *)
(* ------------------------------------------------------------------ *)

(* what an end may do given whether it has shut / aborted *)
Definition env_label_ok (co ca to ta : bool) (l : label) : bool :=
  match l with
  | ClientSend _ | ClientShut => co
  | TargetSend _ | TargetShut => to
  | ClientAbort => negb ca
  | TargetAbort => negb ta
  | _ => false
  end.

Fixpoint env_ok (co ca to ta : bool) (tr : list label) : bool :=
  match tr with
  | [] => true
  | l :: tr' =>
      env_label_ok co ca to ta l
      && env_ok (co && negb (lbl_cshut l)) (ca || lbl_cabort l)
                (to && negb (lbl_tshut l)) (ta || lbl_tabort l) tr'
  end.

(* the proxy never refuses an action of an end: writes while open, shut while
   open, abort once *)
Lemma env_never_blocked c s l :
  env_label_ok (c_wr_open s) (c_abort s) (t_wr_open s) (t_abort s) l = true ->
  exists s', step c s l = Some s'.
Proof.
  destruct l; simpl; intro H; try discriminate; unfold step.
  - rewrite H. eexists; reflexivity.
  - rewrite H. eexists; reflexivity.
  - rewrite H. eexists; reflexivity.
  - rewrite H. eexists; reflexivity.
  - apply negb_true_iff in H. rewrite H. eexists; reflexivity.
  - apply negb_true_iff in H. rewrite H. eexists; reflexivity.
Qed.

Lemma run_env_total c tr : forall s,
  env_ok (c_wr_open s) (c_abort s) (t_wr_open s) (t_abort s) tr = true ->
  exists s', run c s tr = Some s'.
Proof.
  induction tr as [|l tr IH]; intros s H; [eexists; reflexivity|].
  simpl in H. apply andb_true_iff in H. destruct H as (H1 & H2).
  destruct (env_never_blocked c s l H1) as [s1 HS]. simpl. rewrite HS.
  destruct (ghost_step c s l s1 HS) as (_ & _ & C & D & E & F).
  apply IH. rewrite C, D, E, F. exact H2.
Qed.

(* admissible scripts: every phase's actions are allowed when they happen *)
Fixpoint script_ok (co ca to ta : bool) (ps : list pact) : bool :=
  match ps with
  | [] => true
  | p :: ps' =>
      let tr := phase_labels p in
      env_ok co ca to ta tr
      && script_ok (co && negb (client_shut tr)) (ca || client_aborted tr)
                   (to && negb (target_shut tr)) (ta || target_aborted tr) ps'
  end.

(* The executable model never rejects an admissible script and never runs out
   of fuel: [run_script] returns one view per phase. *)
Lemma run_script_total c : forall ps s,
  script_ok (c_wr_open s) (c_abort s) (t_wr_open s) (t_abort s) ps = true ->
  exists vs, run_script c s ps = Some vs /\ length vs = length ps.
Proof.
  induction ps as [|p ps IH]; intros s H; [exists []; auto|].
  cbn [script_ok] in H. apply andb_true_iff in H. destruct H as (H1 & H2).
  destruct (run_env_total c (phase_labels p) s H1) as [s1 R1].
  destruct (settle_ok c (S (measure s1)) s1) as (s2 & tr2 & S2 & Q & F & R2); [lia|].
  destruct (ghost_run _ _ _ _ R1) as (_ & _ & C1 & D1 & E1 & F1).
  destruct (ghost_run _ _ _ _ R2) as (_ & _ & C2 & D2 & E2 & F2).
  destruct (internal_no_env tr2 F) as (_ & _ & N3 & N4 & N5 & N6).
  rewrite N3, N4, N5, N6 in *. simpl in C2, D2. rewrite andb_true_r in C2, D2. rewrite orb_false_r in E2, F2.
  destruct (IH s2) as (vs & RS & L).
  { rewrite C2, D2, E2, F2, C1, D1, E1, F1. exact H2. }
  exists (view_of s2 :: vs). cbn [run_script]. rewrite R1, S2, RS. split; [reflexivity|].
  simpl. rewrite L. reflexivity.
Qed.

Lemma run_script_total_init c e p ps :
  script_ok true false true false ps = true ->
  exists vs, run_script c (init e p) ps = Some vs /\ length vs = length ps.
Proof. intro H. apply (run_script_total c ps (init e p)). exact H. Qed.

(* ------------------------------------------------------------------ *)
(* Every schedule of the internal steps ends in the same, ideal, view   *)
(* ------------------------------------------------------------------ *)

Lemma client_aborted_app a b : client_aborted (a ++ b) = client_aborted a || client_aborted b.
Proof. apply existsb_app. Qed.
Lemma target_aborted_app a b : target_aborted (a ++ b) = target_aborted a || target_aborted b.
Proof. apply existsb_app. Qed.

Lemma internal_run_bounded c tr : forall s s',
  Forall (fun l => internal l = true) tr -> run c s tr = Some s' ->
  length tr + measure s' <= measure s.
Proof.
  induction tr as [|l tr IH]; intros s s' F R.
  - simpl in R. inversion R; subst. simpl. lia.
  - inversion F as [|? ? IL F']; subst. simpl in R.
    destruct (step c s l) as [s1|] eqn:HS; [|discriminate].
    pose proof (measure_decreases c s l s1 HS IL). specialize (IH s1 s' F' R). simpl. lia.
Qed.

(* whatever order the copy loops, the drain, the end-of-copy steps and the join
   are scheduled in, and however many bytes each read returns: they stop after
   at most [measure s] steps, and any state in which none of them is enabled
   shows the ideal tunnel computed from the ends' actions alone *)
Lemma every_schedule_delivers e p tr s tr2 s' :
  reachable repaired e p tr s ->
  client_aborted tr = false -> target_aborted tr = false ->
  Forall (fun l => internal l = true) tr2 -> run repaired s tr2 = Some s' ->
  length tr2 <= measure s /\
  (quiescentb s' = true -> view_of s' = spec_view e p tr).
Proof.
  intros R NA NB F R2. split.
  - pose proof (internal_run_bounded repaired tr2 s s' F R2). lia.
  - intro Q. destruct (internal_no_env tr2 F) as (N1 & N2 & N3 & N4 & N5 & N6).
    assert (R' : reachable repaired e p (tr ++ tr2) s') by (eapply run_app; eassumption).
    rewrite (checkpoint_view e p (tr ++ tr2) s' R' Q).
    + unfold spec_view. rewrite client_bytes_app, target_bytes_app, client_shut_app, target_shut_app,
        N1, N2, N3, N4, !app_nil_r, !orb_false_r. reflexivity.
    + rewrite client_aborted_app, NA, N5. reflexivity.
    + rewrite target_aborted_app, NB, N6. reflexivity.
Qed.

(* ------------------------------------------------------------------ *)
(* What is delivered stays delivered; an abort after a checkpoint       *)
(* ------------------------------------------------------------------ *)

Lemma push_nil tin : push tin [] = (tin, []).
Proof.
  unfold push. simpl length. destruct (Nat.leb bufsize 0) eqn:L; [|reflexivity].
  apply Nat.leb_le in L. pose proof bufsize_pos. lia.
Qed.

(* without the bufio.Writer: one step only ever appends to what was delivered *)
Lemma delivered_grows_step c s l s' :
  buffered c = false -> wbuf s = [] -> step c s l = Some s' ->
  (exists x, t_in s' = t_in s ++ x) /\ (exists y, c_in s' = c_in s ++ y) /\ wbuf s' = [].
Proof.
  intros B W HS. unfold step in HS. rewrite ?B, ?W, ?push_nil in HS. simpl in HS.
  destruct l;
    repeat match type of HS with
    | (if ?b then _ else _) = Some _ => destruct b eqn:?; try discriminate
    end;
    inversion HS; subst; clear HS; simpl; rewrite ?app_nil_r;
    (split; [|split]); try reflexivity; try assumption;
    try (exists []; rewrite app_nil_r; reflexivity);
    try (eexists; reflexivity).
Qed.

Lemma delivered_grows_run c tr : forall s s',
  buffered c = false -> wbuf s = [] -> run c s tr = Some s' ->
  (exists x, t_in s' = t_in s ++ x) /\ (exists y, c_in s' = c_in s ++ y).
Proof.
  induction tr as [|l tr IH]; intros s s' B W R.
  - simpl in R. inversion R; subst. split; exists []; rewrite app_nil_r; reflexivity.
  - simpl in R. destruct (step c s l) as [s1|] eqn:HS; [|discriminate].
    destruct (delivered_grows_step c s l s1 B W HS) as ((x & X) & (y & Y) & W1).
    destruct (IH s1 s' B W1 R) as ((x' & X') & (y' & Y')).
    split; [exists (x ++ x'); rewrite X', X, app_assoc; reflexivity
           |exists (y ++ y'); rewrite Y', Y, app_assoc; reflexivity].
Qed.

(* An abortive close that comes after a checkpoint: whatever happens next, on
   whatever schedule, the surviving end keeps everything the aborting end ever
   sent (the aborting end can send nothing more). *)
Lemma abort_after_checkpoint e p tr s tr' s' :
  reachable repaired e p tr s -> quiescentb s = true ->
  client_aborted tr = false -> target_aborted tr = false ->
  (run repaired s (ClientAbort :: tr') = Some s' -> t_in s' = c_sent s' /\ c_sent s' = c_sent s) /\
  (run repaired s (TargetAbort :: tr') = Some s' -> c_in s' = t_sent s' /\ t_sent s' = t_sent s).
Proof.
  intros R Q NA NB. pose proof (inv_reachable _ _ _ _ _ R) as I.
  destruct (sent_is_written _ _ _ _ _ R) as (_ & _ & _ & _ & E & F). rewrite NA in E. rewrite NB in F.
  destruct (delivery_quiescent_inv repaired s I Q (i_nobuf _ _ I eq_refl) E F) as (D1 & D2).
  split; intro R2.
  - pose proof (inv_run _ _ _ _ I R2) as I2.
    destruct (delivered_grows_run repaired _ s s' eq_refl (i_nobuf _ _ I eq_refl) R2) as ((x & X) & _).
    destruct (ghost_run _ _ _ _ R2) as (A & _ & C & _).
    (* the client cannot have sent anything: it is shut from the first label on *)
    assert (CB : client_bytes (ClientAbort :: tr') = []).
    { simpl. clear - R2. cbn [run] in R2.
      destruct (step repaired s ClientAbort) as [s1|] eqn:HS; [|discriminate].
      assert (O : c_wr_open s1 = false) by (crack HS; reflexivity).
      clear HS. revert s1 O R2. induction tr' as [|l tr IH]; intros s1 O R2; [reflexivity|].
      cbn [run] in R2. destruct (step repaired s1 l) as [s2|] eqn:HS2; [|discriminate].
      destruct (ghost_step _ _ _ _ HS2) as (_ & _ & C & _).
      rewrite client_bytes_cons.
      assert (lbl_cbytes l = []).
      { destruct l; try reflexivity. unfold step in HS2. rewrite O in HS2. discriminate. }
      rewrite H. simpl. apply (IH s2); [rewrite C, O; reflexivity|exact R2]. }
    rewrite CB, app_nil_r in A. split; [|exact A].
    pose proof (i_c2t _ _ I2) as K. rewrite X, A, <- D1 in K.
    rewrite <- !app_assoc in K. rewrite <- (app_nil_r (t_in s)) in K at 2.
    apply app_inv_head in K. apply app_eq_nil in K. destruct K as (K & _).
    rewrite X, K, app_nil_r, A. exact D1.
  - pose proof (inv_run _ _ _ _ I R2) as I2.
    destruct (delivered_grows_run repaired _ s s' eq_refl (i_nobuf _ _ I eq_refl) R2) as (_ & (y & Y)).
    destruct (ghost_run _ _ _ _ R2) as (_ & B & _ & D & _).
    assert (TB : target_bytes (TargetAbort :: tr') = []).
    { simpl. clear - R2. cbn [run] in R2.
      destruct (step repaired s TargetAbort) as [s1|] eqn:HS; [|discriminate].
      assert (O : t_wr_open s1 = false) by (crack HS; reflexivity).
      clear HS. revert s1 O R2. induction tr' as [|l tr IH]; intros s1 O R2; [reflexivity|].
      cbn [run] in R2. destruct (step repaired s1 l) as [s2|] eqn:HS2; [|discriminate].
      destruct (ghost_step _ _ _ _ HS2) as (_ & _ & _ & D & _).
      rewrite target_bytes_cons.
      assert (lbl_tbytes l = []).
      { destruct l; try reflexivity. unfold step in HS2. rewrite O in HS2. discriminate. }
      rewrite H. simpl. apply (IH s2); [rewrite D, O; reflexivity|exact R2]. }
    rewrite TB, app_nil_r in B. split; [|exact B].
    pose proof (i_t2c _ _ I2) as K. rewrite Y, B, <- D2 in K.
    rewrite <- !app_assoc in K. rewrite <- (app_nil_r (c_in s)) in K at 2.
    apply app_inv_head in K. apply app_eq_nil in K. destruct K as (K & _).
    rewrite Y, K, app_nil_r, B. exact D2.
Qed.

(* ------------------------------------------------------------------ *)
(* The meaning of every verdict clause                                  *)
(* ------------------------------------------------------------------ *)

Lemma eobs_clause_zero_iff n w o : eobs_clause n w o = 0 <-> eobs_ok n w o = true.
Proof.
  destruct o as [[on op oe]|]; simpl; [|tauto].
  destruct op, (N.eqb on n), w, oe; simpl; split; intro H; try reflexivity; discriminate.
Qed.

(* which clause is reported for one end at one checkpoint, and what it says *)
Lemma eobs_clause_meaning n w e :
  (eobs_clause n w (Some e) = 2 <-> o_prefix e = false) /\
  (eobs_clause n w (Some e) = 1 <-> o_prefix e = true /\ o_n e <> n) /\
  (eobs_clause n w (Some e) = 3 <-> o_prefix e = true /\ o_n e = n /\ w = true /\ o_eos e = false) /\
  (eobs_clause n w (Some e) = 4 <-> o_prefix e = true /\ o_n e = n /\ w = false /\ o_eos e = true).
Proof.
  destruct e as [on op oe]. simpl.
  destruct (N.eqb on n) eqn:E; [apply N.eqb_eq in E|apply N.eqb_neq in E];
    destruct op, w, oe; simpl; repeat split; intros; try discriminate; try tauto;
    try (match goal with H : _ /\ _ |- _ => decompose [and] H end; try discriminate; try tauto).
Qed.

Lemma c04_first_fail_none_iff : forall ps obs k cn tn cs ts,
  c04_first_fail k cn tn cs ts ps obs = None <-> c04_ok_from cn tn cs ts ps obs = true.
Proof.
  induction ps as [|p ps IH]; intros [|o obs] k cn tn cs ts; simpl;
    try (split; intro H; [reflexivity|reflexivity]); try (split; intro H; discriminate).
  destruct (eobs_clause (cn + np_c p) (cs || np_cshut p) (ob_t o)) as [|i] eqn:A;
    destruct (eobs_clause (tn + np_t p) (ts || np_tshut p) (ob_c o)) as [|j] eqn:B.
  - apply eobs_clause_zero_iff in A. apply eobs_clause_zero_iff in B. rewrite A, B. simpl. apply IH.
  - apply eobs_clause_zero_iff in A. rewrite A.
    destruct (eobs_ok (tn + np_t p) (ts || np_tshut p) (ob_c o)) eqn:X.
    + apply eobs_clause_zero_iff in X. rewrite X in B. discriminate.
    + simpl. split; intro H; discriminate.
  - destruct (eobs_ok (cn + np_c p) (cs || np_cshut p) (ob_t o)) eqn:X.
    + apply eobs_clause_zero_iff in X. rewrite X in A. discriminate.
    + simpl. split; intro H; discriminate.
  - destruct (eobs_ok (cn + np_c p) (cs || np_cshut p) (ob_t o)) eqn:X.
    + apply eobs_clause_zero_iff in X. rewrite X in A. discriminate.
    + simpl. destruct (Nat.leb _ _); split; intro H; discriminate.
Qed.

Lemma c04_first_fail_some_not_ok ps obs k cn tn cs ts r :
  c04_first_fail k cn tn cs ts ps obs = Some r -> c04_ok_from cn tn cs ts ps obs = false.
Proof.
  intro H. destruct (c04_ok_from cn tn cs ts ps obs) eqn:X; [|reflexivity].
  apply c04_first_fail_none_iff with (k := k) in X. rewrite X in H. discriminate.
Qed.

Lemma status_ok_iff want got : status_ok want got = true <-> got = Some want.
Proof.
  destruct got as [g|]; simpl; split; intro H; try discriminate.
  - apply N.eqb_eq in H. subst. reflexivity.
  - inversion H. apply N.eqb_refl.
Qed.

Lemma expected_status_spec :
  expected_status None = 200%N /\ forall code, expected_status (Some code) = code.
Proof. split; [reflexivity|intro code; reflexivity]. Qed.

Lemma eos_flag_spec g e :
  (eos_flag g e = None <-> e = ResetEos /\ g = false) /\
  (eos_flag g e = Some true <-> e = CleanEos \/ (e = ResetEos /\ g = true)) /\
  (eos_flag g e = Some false <-> e = NoEos).
Proof.
  destruct e, g; simpl; repeat split; intros; try discriminate; try tauto;
    try (match goal with H : _ \/ _ |- _ => destruct H as [H|H] end; try discriminate; try tauto);
    try (match goal with H : _ /\ _ |- _ => destruct H end; discriminate).
Qed.

(* refinement, closed form: on every admissible script without abortive closes
   the executable model of the repaired code IS the ideal tunnel *)
Lemma model_is_spec e p ps :
  script_ok true false true false ps = true -> Forall no_abort_phase ps ->
  run_script repaired (init e p) ps = Some (spec_views e p ps).
Proof.
  intros OK NA. destruct (run_script_total_init repaired e p ps OK) as (vs & RS & _).
  rewrite RS. f_equal. apply (run_script_meets_spec e p ps vs NA RS).
Qed.

(* ------------------------------------------------------------------ *)
(* Tunnels side by side are independent                                 *)
(* ------------------------------------------------------------------ *)

Lemma run2_proj c tr : forall sa sb sa' sb',
  run2 c sa sb tr = Some (sa', sb') <->
  run c sa (proj true tr) = Some sa' /\ run c sb (proj false tr) = Some sb'.
Proof.
  induction tr as [|[w l] tr IH]; intros sa sb sa' sb'.
  - simpl. split.
    + intro H. inversion H; subst. auto.
    + intros (A & B). inversion A; inversion B; subst. reflexivity.
  - destruct w; unfold proj; simpl; fold (proj true tr); fold (proj false tr).
    + destruct (step c sa l) as [sa1|]; [apply IH|].
      split; [discriminate|intros (A & _); discriminate].
    + destruct (step c sb l) as [sb1|]; [apply IH|].
      split; [discriminate|intros (_ & B); discriminate].
Qed.

(* whatever the other tunnel does or does not do — idle, stalled, aborted —
   a tunnel whose own internal steps have run out shows its own ideal view *)
Lemma concurrent_tunnels_ideal ea pa eb pb tr sa sb :
  run2 repaired (init ea pa) (init eb pb) tr = Some (sa, sb) ->
  (quiescentb sa = true -> client_aborted (proj true tr) = false -> target_aborted (proj true tr) = false ->
   view_of sa = spec_view ea pa (proj true tr)) /\
  (quiescentb sb = true -> client_aborted (proj false tr) = false -> target_aborted (proj false tr) = false ->
   view_of sb = spec_view eb pb (proj false tr)).
Proof.
  intro R. apply run2_proj in R. destruct R as (RA & RB). split; intros Q NA NB.
  - exact (checkpoint_view ea pa _ sa RA Q NA NB).
  - exact (checkpoint_view eb pb _ sb RB Q NA NB).
Qed.
