From Coq Require Import List NArith Bool Arith.
From Martian.C04 Require Import Model Proofs.
Import ListNotations.
