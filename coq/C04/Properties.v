(* C04 — property theorems.  Statements closed by [exact] + Print Assumptions.
   [repaired] is the tunnel code with fixes/C04-*.diff applied (what the model
   of the driver runs); [original] is the code as it was, for which the two
   liveness clauses are refuted below. *)
From Coq Require Import List NArith Bool Arith Ascii.
From Martian.C04 Require Import Gen_Ret Model Proofs Proofs_After Proofs_Audit.
Import ListNotations.
Open Scope char_scope.

(* ---------------- safety: every interleaving, either configuration -------------- *)

(* In order, exactly once, client -> target: what reached the target, then
   what sits in the proxy's buffers, then what the proxy has not read yet, is
   exactly what the client wrote after the CONNECT head ... *)
Theorem C04_prefix_c2t : forall c early peeked tr s,
  reachable c early peeked tr s ->
  t_in s ++ wbuf s ++ rbuf s ++ c2t_src s = c_sent s.
Proof. exact prefix_c2t. Qed.
Print Assumptions C04_prefix_c2t.

(* ... and target -> client. *)
Theorem C04_prefix_t2c : forall c early peeked tr s,
  reachable c early peeked tr s -> c_in s ++ t2c_src s = t_sent s.
Proof. exact prefix_t2c. Qed.
Print Assumptions C04_prefix_t2c.

(* The ghost streams are what the ends wrote (early data and bytes behind the
   downstream proxy's 200 head included), and the open flags what they did. *)
Theorem C04_sent_is_what_was_written : forall c early peeked tr s,
  reachable c early peeked tr s ->
  c_sent s = early ++ client_bytes tr /\ t_sent s = peeked ++ target_bytes tr /\
  c_wr_open s = negb (client_shut tr) /\ t_wr_open s = negb (target_shut tr) /\
  c_abort s = client_aborted tr /\ t_abort s = target_aborted tr.
Proof. exact sent_is_written. Qed.
Print Assumptions C04_sent_is_what_was_written.

(* End of stream is never shown early: only after the sender shut, and after
   all of its bytes. *)
Theorem C04_no_premature_eos : forall c early peeked tr s,
  reachable c early peeked tr s ->
  (t_eos s = true -> (c_wr_open s = false \/ t_abort s = true) /\
                     (c_abort s = false -> t_abort s = false -> t_in s = c_sent s)) /\
  (c_eos s = true -> (t_wr_open s = false \/ c_abort s = true) /\
                     (c_abort s = false -> t_abort s = false -> c_in s = t_sent s)).
Proof. exact no_premature_eos. Qed.
Print Assumptions C04_no_premature_eos.

(* The connections are released only when both ends have shut and everything
   was delivered. *)
Theorem C04_released_only_when_both_done : forall c early peeked tr s,
  reachable c early peeked tr s -> closed s = true ->
  (c_wr_open s = false \/ t_abort s = true) /\ (t_wr_open s = false \/ c_abort s = true) /\
  (c_abort s = false -> t_abort s = false ->
   c_wr_open s = false /\ t_wr_open s = false /\ t_in s = c_sent s /\ c_in s = t_sent s).
Proof. exact released_only_when_both_done. Qed.
Print Assumptions C04_released_only_when_both_done.

(* ---------------- CONNECT failure -------------- *)

Theorem C04_connect_fail_502 :
  connect_response DialErr = mkResp 502 true false /\
  forall st w, fail_ok st w = true <-> st = 502%N /\ w = true.
Proof. exact connect_fail_both. Qed.
Print Assumptions C04_connect_fail_502.

(* ---------------- liveness as quiescence (repaired code) -------------- *)

(* [quiescent]: no internal step (no read, no flush, no join) is enabled; the
   boolean used by the scheduler and the driver says the same. *)
Theorem C04_quiescentb_is_quiescent : forall c s,
  quiescentb s = true <-> (forall l, internal l = true -> step c s l = None).
Proof. exact quiescentb_iff. Qed.
Print Assumptions C04_quiescentb_is_quiescent.

(* Internal steps cannot go on forever, and running them reaches a quiescent
   state without running out of fuel. *)
Theorem C04_internal_steps_terminate : forall c s l s',
  step c s l = Some s' -> internal l = true -> measure s' < measure s.
Proof. exact measure_decreases. Qed.
Print Assumptions C04_internal_steps_terminate.

Theorem C04_settle_reaches_quiescence : forall c s,
  exists s' tr, settle c (S (measure s)) s = Some s' /\ quiescentb s' = true
                /\ Forall (fun l => internal l = true) tr /\ run c s tr = Some s'.
Proof. exact settle_reaches_quiescence. Qed.
Print Assumptions C04_settle_reaches_quiescence.

(* Without further input nothing stays behind in the proxy: whatever the
   interleaving, sizes, early data. *)
Theorem C04_delivery_quiescent : forall early peeked tr s,
  reachable repaired early peeked tr s -> quiescentb s = true ->
  c_abort s = false -> t_abort s = false ->
  t_in s = c_sent s /\ c_in s = t_sent s.
Proof. exact delivery_quiescent. Qed.
Print Assumptions C04_delivery_quiescent.

(* When one end has shut, the other end has seen end-of-stream (after all the
   bytes) without waiting for anything else; when both have, both
   connections are released. *)
Theorem C04_eos_quiescent : forall early peeked tr s,
  reachable repaired early peeked tr s -> quiescentb s = true ->
  (c_wr_open s = false ->
     t_eos s = true /\ (c_abort s = false -> t_abort s = false -> t_in s = c_sent s)) /\
  (t_wr_open s = false ->
     c_eos s = true /\ (c_abort s = false -> t_abort s = false -> c_in s = t_sent s)) /\
  (c_wr_open s = false -> t_wr_open s = false -> closed s = true).
Proof. exact eos_quiescent. Qed.
Print Assumptions C04_eos_quiescent.

(* Abortive closes (RST: SO_LINGER 0, or close with unread received data; the
   proxy's copy loop ends with an ERROR instead of EOF): the surviving end is
   shown end-of-stream all the same, without waiting for anything else, and once
   both ends are done (shut or aborted) both connections are released.  Bytes
   in flight toward the aborting end, or not yet read from it, may be lost; the
   guards above say exactly that. *)
Theorem C04_abort_quiescent : forall early peeked tr s,
  reachable repaired early peeked tr s -> quiescentb s = true ->
  (c_abort s = true -> t_eos s = true) /\ (t_abort s = true -> c_eos s = true) /\
  ((c_wr_open s = false \/ c_abort s = true) -> (t_wr_open s = false \/ t_abort s = true) ->
   closed s = true).
Proof. exact abort_quiescent. Qed.
Print Assumptions C04_abort_quiescent.

(* In terms of what the ends did: at a checkpoint the surviving end has seen
   end-of-stream iff its peer shut or aborted, what it received is a prefix of
   what was sent (nothing delivered is lost or reordered), both done => released. *)
Theorem C04_checkpoint_with_aborts : forall early peeked tr s,
  reachable repaired early peeked tr s -> quiescentb s = true ->
  (target_aborted tr = false -> t_eos s = client_shut tr) /\
  (client_aborted tr = false -> c_eos s = target_shut tr) /\
  (client_shut tr = true -> target_shut tr = true -> closed s = true) /\
  (exists rest, t_in s ++ rest = early ++ client_bytes tr) /\
  (exists rest, c_in s ++ rest = peeked ++ target_bytes tr).
Proof. exact checkpoint_view_abort. Qed.
Print Assumptions C04_checkpoint_with_aborts.

(* Together: at every checkpoint the two ends see exactly the ideal tunnel
   computed from what they did, for every interleaving of the internal steps. *)
Theorem C04_checkpoint_is_ideal : forall early peeked tr s,
  reachable repaired early peeked tr s -> quiescentb s = true ->
  client_aborted tr = false -> target_aborted tr = false ->
  view_of s = spec_view early peeked tr.
Proof. exact checkpoint_view. Qed.
Print Assumptions C04_checkpoint_is_ideal.

(* The executable model run by the driver (one particular schedule) shows the
   ideal views whenever it accepts the script. *)
Theorem C04_model_meets_spec : forall early peeked ps vs,
  Forall no_abort_phase ps ->
  run_script repaired (init early peeked) ps = Some vs -> vs = spec_views early peeked ps.
Proof. exact run_script_meets_spec. Qed.
Print Assumptions C04_model_meets_spec.


(* ---------------- after the tunnel -------------- *)

(* Once both copy loops have ended ([Join]) handleConnectRequest returns a
   result that makes handleLoop leave and close the client connection: the
   proxy never reads another request from the former tunnel connection.  The
   four source facts come from proxy.go through harness/cmd/gen_c04; if the
   return value stops being errClose this theorem no longer checks. *)
Theorem C04_after_join_connection_released :
  after_tunnel_here = mkAfter true false true /\
  forall a b c d e, after_tunnel a b c d e = mkAfter true false true
                  <-> a = true /\ b = true /\ c = true /\ d = true /\ e = true.
Proof. exact (conj after_tunnel_released after_tunnel_iff). Qed.
Print Assumptions C04_after_join_connection_released.

(* Release of the TARGET connection as an observation: a dialer that records
   Close() must have seen it once the tunnel is over; with the source facts as
   they are the model says so too. *)
Theorem C04_target_release_oracle :
  (forall k, target_release_ok k = true <-> k <> Some false) /\
  (forall k, target_release_agrees after_tunnel_here k = target_release_ok k).
Proof. exact (conj target_release_ok_iff target_release_agrees_here). Qed.
Print Assumptions C04_target_release_oracle.

(* Nothing carried over from a previous exchange on the same client connection
   shapes the tunnel: handle() replaces the traffic shaping context before it
   dispatches the CONNECT (fact read from the source); without that statement a
   stale action offset would apply. *)
Theorem C04_no_stale_shaping_in_tunnel :
  (forall stale, tunnel_cut shaping_reset_before_connect stale = None) /\
  (forall off, tunnel_cut false (Some off) = Some off).
Proof. exact (conj no_stale_shaping stale_shaping_without_reset). Qed.
Print Assumptions C04_no_stale_shaping_in_tunnel.

(* The proxy's own close is graceful: whatever is still queued toward a slow
   reader when [Join] closes the dialled connection is sent, then the FIN — the
   source sets SO_LINGER nowhere (fact from gen_c04); with linger 0 the queue
   would be dropped. *)
Theorem C04_proxy_close_is_graceful :
  (forall q, proxy_close_discards dial_sets_linger q = 0%N) /\
  (forall q, proxy_close_discards true q = q).
Proof. exact (conj proxy_close_is_graceful linger0_discards). Qed.
Print Assumptions C04_proxy_close_is_graceful.

(* Several tunnels at once.  Run side by side (any interleaving of the two
   tunnels' labels), each tunnel is exactly a run of its own LTS, and at its own
   quiescence shows its own ideal view whatever the other one does; on a shaped
   listener that needs the copy halves not to hold the shared bucket's lock
   while they block (fact from gen_c04). *)
Theorem C04_concurrent_tunnels_independent :
  (forall c tr sa sb sa' sb',
     run2 c sa sb tr = Some (sa', sb') <->
     run c sa (proj true tr) = Some sa' /\ run c sb (proj false tr) = Some sb') /\
  (forall ea pa eb pb tr sa sb,
     run2 repaired (init ea pa) (init eb pb) tr = Some (sa, sb) ->
     (quiescentb sa = true -> client_aborted (proj true tr) = false -> target_aborted (proj true tr) = false ->
      view_of sa = spec_view ea pa (proj true tr)) /\
     (quiescentb sb = true -> client_aborted (proj false tr) = false -> target_aborted (proj false tr) = false ->
      view_of sb = spec_view eb pb (proj false tr))) /\
  tunnel_may_wait_for_another shaped_copy_unlocked = false.
Proof. exact (conj run2_proj (conj concurrent_tunnels_ideal tunnels_do_not_wait)). Qed.
Print Assumptions C04_concurrent_tunnels_independent.

(* "For any timing of writes": the model has no clock, and the code has none
   either inside the tunnel — connect() and handleConnectRequest leave no
   deadline armed on the tunnel's connections (fact from gen_c04: every
   Set*Deadline with a time is cleared again for the side it armed).  With one
   left armed, a write after it expires fails: bytes dropped, an end-of-stream
   nobody sent.  (The client connection's idle deadline set by handleLoop is the
   stated assumption "the tunnel is younger than the idle timeout".) *)
Theorem C04_no_time_dependent_transition :
  tunnel_has_timed_transition tunnel_conns_no_armed_deadline = false /\
  tunnel_has_timed_transition false = true.
Proof. exact (conj no_timed_transition armed_deadline_is_timed). Qed.
Print Assumptions C04_no_time_dependent_transition.

(* the probe's oracle: a write into the dead tunnel eventually fails and the
   canary origin is never contacted *)
Theorem C04_probe_oracle_is_the_property : forall w q,
  probe_ok w q = true <-> w = true /\ q = false.
Proof. exact probe_ok_iff. Qed.
Print Assumptions C04_probe_oracle_is_the_property.

(* Through a downstream proxy: EVERY 2xx answer (RFC 7231 4.3.6) announces the
   tunnel — no body, what follows the head is payload — and the client is told
   the downstream proxy's status.  [downstream_any_2xx] is read from connect()
   by harness/cmd/gen_c04; with a test for 200 only, 201 is not a tunnel. *)
Theorem C04_downstream_2xx_is_tunnel :
  (forall st, (200 <= st < 300)%N -> connect_downstream st = mkDown st true) /\
  downstream_is_tunnel false 201 = false.
Proof. exact (conj downstream_2xx_is_tunnel only_200_refuted). Qed.
Print Assumptions C04_downstream_2xx_is_tunnel.

(* a refusal of the downstream proxy is relayed: same status, whole body, end *)
Theorem C04_downstream_refusal_oracle : forall a b c d p e,
  down_ok a b c d p e = true <-> a = b /\ c = d /\ p = true /\ e = true.
Proof. exact down_ok_iff. Qed.
Print Assumptions C04_downstream_refusal_oracle.

(* ---------------- the code as it was -------------- *)

(* D5: a byte that arrived with the CONNECT head stays in the bufio.Writer. *)
Theorem C04_delivery_quiescent_original_refuted :
  exists early tr s, reachable original early [] tr s /\ quiescentb s = true /\ t_in s <> c_sent s.
Proof. exact delivery_quiescent_original_refuted. Qed.
Print Assumptions C04_delivery_quiescent_original_refuted.

(* ... and only then. *)
Theorem C04_delivery_quiescent_original_partial : forall peeked tr s,
  reachable original [] peeked tr s -> quiescentb s = true ->
  c_abort s = false -> t_abort s = false ->
  t_in s = c_sent s /\ c_in s = t_sent s.
Proof. exact delivery_quiescent_original_partial. Qed.
Print Assumptions C04_delivery_quiescent_original_partial.

(* D4: the target shuts, its copy loop ends, nothing else can happen, and the
   client has not been told. *)
Theorem C04_eos_quiescent_original_refuted :
  exists tr s, reachable original [] [] tr s /\ quiescentb s = true /\
               t_wr_open s = false /\ c_eos s = false.
Proof. exact eos_quiescent_original_refuted. Qed.
Print Assumptions C04_eos_quiescent_original_refuted.

(* What the code as it was does guarantee: once BOTH ends have shut. *)
Theorem C04_eos_quiescent_original_partial : forall early peeked tr s,
  reachable original early peeked tr s -> quiescentb s = true ->
  c_wr_open s = false -> t_wr_open s = false ->
  closed s = true /\ t_eos s = true /\ c_eos s = true /\
  (c_abort s = false -> t_abort s = false -> t_in s = c_sent s /\ c_in s = t_sent s).
Proof. exact eos_quiescent_original_partial. Qed.
Print Assumptions C04_eos_quiescent_original_partial.

(* ... and the same with an abortive close: the client aborts, the copy loop
   ends with an error, the target is not told. *)
Theorem C04_abort_quiescent_original_refuted :
  exists tr s, reachable original [] [] tr s /\ quiescentb s = true /\
               c_abort s = true /\ t_eos s = false.
Proof. exact abort_quiescent_original_refuted. Qed.
Print Assumptions C04_abort_quiescent_original_refuted.

(* ---------------- the oracle is the property -------------- *)

(* One end, one checkpoint: the harness's measurement (count, is-prefix flag,
   end-of-stream flag) of a received stream [r] is accepted iff [r] is exactly
   the stream sent and end-of-stream was seen exactly when the spec says. *)
Theorem C04_oracle_end_is_the_property : forall r sent eos want,
  eobs_ok (N.of_nat (length sent)) want (Some (measure_end r sent eos)) = true
  <-> r = sent /\ eos = want.
Proof. exact oracle_end. Qed.
Print Assumptions C04_oracle_end_is_the_property.

(* The whole case: every checkpoint of both ends ideal, and released iff both shut. *)
Theorem C04_oracle_is_the_property : forall early peeked ps obs rel,
  c04_ok early peeked ps obs rel = true <->
  ideal_from early peeked false false ps obs /\
  ((all_shut ps = true /\ rel = Some true) \/ (all_shut ps = false /\ rel = None)).
Proof. exact c04_ok_iff. Qed.
Print Assumptions C04_oracle_is_the_property.


(* The oracle is not vacuous for any script: what the harness would measure on
   the ideal views of a script (which by C04_model_meets_spec are the views of
   the repaired model) is accepted, checkpoint by checkpoint. *)
Theorem C04_oracle_accepts_ideal_tunnel : forall early peeked ps,
  c04_ok_from (N.of_nat (length early)) (N.of_nat (length peeked)) false false (map nphase_of ps)
    (map (measure_view (early ++ concat (map pa_c ps)) (peeked ++ concat (map pa_t ps)))
         (spec_views early peeked ps)) = true.
Proof. exact oracle_accepts_ideal. Qed.
Print Assumptions C04_oracle_accepts_ideal_tunnel.


(* ---------------- audit round: totality, schedules, aborts, verdict clauses -------------- *)

(* The proxy never blocks an end: it may write while it has not shut, shut while
   it has not shut, abort once — in every state. *)
Theorem C04_environment_never_blocked : forall c s l,
  env_label_ok (c_wr_open s) (c_abort s) (t_wr_open s) (t_abort s) l = true ->
  exists s', step c s l = Some s'.
Proof. exact env_never_blocked. Qed.
Print Assumptions C04_environment_never_blocked.

(* The executable model the driver runs never rejects an admissible script and
   never runs out of fuel: one view per phase (either configuration). *)
Theorem C04_model_total : forall c early peeked ps,
  script_ok true false true false ps = true ->
  exists vs, run_script c (init early peeked) ps = Some vs /\ length vs = length ps.
Proof. exact run_script_total_init. Qed.
Print Assumptions C04_model_total.

(* Refinement in closed form (never None, never OutOfFuel, equal to the spec):
   on every admissible script without abortive closes the executable model of
   the repaired code is the ideal tunnel. *)
Theorem C04_model_is_spec : forall early peeked ps,
  script_ok true false true false ps = true -> Forall no_abort_phase ps ->
  run_script repaired (init early peeked) ps = Some (spec_views early peeked ps).
Proof. exact model_is_spec. Qed.
Print Assumptions C04_model_is_spec.

(* All schedules: from any reachable state, ANY sequence of internal steps
   (whatever the order of the two copy loops and the join, whatever each read
   returns) has at most [measure s] steps, and whenever it ends in a state where
   none is enabled the two ends see exactly the ideal tunnel.  No search over
   interleavings is needed to judge an observation: it is unique. *)
Theorem C04_every_schedule_delivers : forall early peeked tr s tr2 s',
  reachable repaired early peeked tr s ->
  client_aborted tr = false -> target_aborted tr = false ->
  Forall (fun l => internal l = true) tr2 -> run repaired s tr2 = Some s' ->
  length tr2 <= measure s /\
  (quiescentb s' = true -> view_of s' = spec_view early peeked tr).
Proof. exact every_schedule_delivers. Qed.
Print Assumptions C04_every_schedule_delivers.

(* An abortive close after a checkpoint: on every continuation the surviving
   end ends up with everything the aborting end ever sent, and that end sends
   nothing more.  (This is why the oracle may insist on the exact byte count at
   the survivor in the abort scripts the harness generates.) *)
Theorem C04_abort_after_checkpoint_keeps_everything : forall early peeked tr s tr' s',
  reachable repaired early peeked tr s -> quiescentb s = true ->
  client_aborted tr = false -> target_aborted tr = false ->
  (run repaired s (ClientAbort :: tr') = Some s' -> t_in s' = c_sent s' /\ c_sent s' = c_sent s) /\
  (run repaired s (TargetAbort :: tr') = Some s' -> c_in s' = t_sent s' /\ t_sent s' = t_sent s).
Proof. exact abort_after_checkpoint. Qed.
Print Assumptions C04_abort_after_checkpoint_keeps_everything.

(* Verdict clauses.  The clause the driver prints for a tunnel case comes from
   [c04_first_fail]; it reports something iff the oracle rejects, and the
   clause numbers mean: 2 bytes_* (not a prefix of what was sent), 1 delivery_*
   (prefix, wrong count at quiescence), 3 eos_* (peer shut, no end-of-stream),
   4 premature_eos_* (end-of-stream although the peer did not shut). *)
Theorem C04_report_iff_oracle_rejects : forall ps obs k cn tn cs ts,
  c04_first_fail k cn tn cs ts ps obs = None <-> c04_ok_from cn tn cs ts ps obs = true.
Proof. exact c04_first_fail_none_iff. Qed.
Print Assumptions C04_report_iff_oracle_rejects.

Theorem C04_clause_meaning : forall n w e,
  (eobs_clause n w (Some e) = 2 <-> o_prefix e = false) /\
  (eobs_clause n w (Some e) = 1 <-> o_prefix e = true /\ o_n e <> n) /\
  (eobs_clause n w (Some e) = 3 <-> o_prefix e = true /\ o_n e = n /\ w = true /\ o_eos e = false) /\
  (eobs_clause n w (Some e) = 4 <-> o_prefix e = true /\ o_n e = n /\ w = false /\ o_eos e = true).
Proof. exact eobs_clause_meaning. Qed.
Print Assumptions C04_clause_meaning.

(* connect_status: the client read exactly the expected status (200, or the
   scripted downstream proxy's own); no response at all is a failure *)
Theorem C04_status_oracle : 
  (forall want got, status_ok want got = true <-> got = Some want) /\
  expected_status None = 200%N /\ (forall code, expected_status (Some code) = code).
Proof. exact (conj status_ok_iff expected_status_spec). Qed.
Print Assumptions C04_status_oracle.

(* read_error: a reset stands for end-of-stream only once the peer is gone *)
Theorem C04_reset_rule : forall g e,
  (eos_flag g e = None <-> e = ResetEos /\ g = false) /\
  (eos_flag g e = Some true <-> e = CleanEos \/ (e = ResetEos /\ g = true)) /\
  (eos_flag g e = Some false <-> e = NoEos).
Proof. exact eos_flag_spec. Qed.
Print Assumptions C04_reset_rule.

(* tunnel_bytes_parsed_as_http / client_conn_not_released: with the source facts
   as they are, agreeing with the model of handleLoop IS satisfying the property *)
Theorem C04_probe_model_is_property : forall w q,
  probe_agrees after_tunnel_here w q = probe_ok w q.
Proof. exact probe_agrees_here. Qed.
Print Assumptions C04_probe_model_is_property.

(* ---------------- non-vacuity -------------- *)

(* A reachable, quiescent, non-trivial state of the repaired tunnel: early
   data, both directions, a half close answered by more data, release. *)
Example C04_example_trace :
  exists s, reachable repaired ["e"] ["p"]
              [ClientSend ["x"; "y"]; Drain1; TargetSend ["z"]; Copy2 1; Copy1 1; ClientShut;
               Copy1 5; Copy2 7; Eof1; TargetSend ["w"]; Copy2 1; TargetShut; Eof2; Join] s
            /\ quiescentb s = true
            /\ view_of s = mkView ["e"; "x"; "y"] true ["p"; "z"; "w"] true true.
Proof. eexists. split; [vm_compute; reflexivity|]. split; vm_compute; reflexivity. Qed.

Example C04_example_script :
  run_script repaired (init ["e"] [])
    [mkPact ["x"] FinNone ["z"; "z"] FinNone; mkPact [] FinShut [] FinNone; mkPact [] FinNone ["w"] FinShut]
  = Some [mkView ["e"; "x"] false ["z"; "z"] false false;
          mkView ["e"; "x"] true ["z"; "z"] false false;
          mkView ["e"; "x"] true ["z"; "z"; "w"] true true].
Proof. vm_compute. reflexivity. Qed.

(* the same script on the code as it was: the early byte and the end of
   stream are held back until both ends have shut *)
Example C04_example_script_original :
  run_script original (init ["e"] [])
    [mkPact ["x"] FinNone ["z"; "z"] FinNone; mkPact [] FinShut [] FinNone; mkPact [] FinNone ["w"] FinShut]
  = Some [mkView [] false ["z"; "z"] false false;
          mkView [] false ["z"; "z"] false false;
          mkView ["e"; "x"] true ["z"; "z"; "w"] true true].
Proof. vm_compute. reflexivity. Qed.

(* an abortive close by the client while the target is idle, and one while the
   target is sending: the target is told, then shuts, and everything is released *)
Example C04_example_abort :
  run_script repaired (init [] [])
    [mkPact ["x"] FinNone ["z"] FinNone; mkPact [] FinAbort [] FinNone; mkPact [] FinNone ["w"] FinShut]
  = Some [mkView ["x"] false ["z"] false false;
          mkView ["x"] true ["z"] false false;
          mkView ["x"] true ["z"; "w"] true true]
  /\
  exists s, reachable repaired [] []
              [TargetSend ["z"]; ClientAbort; Err2; Err1; TargetShut; Join] s
            /\ quiescentb s = true /\ t_eos s = true /\ closed s = true /\ c_in s = [].
Proof.
  split; [vm_compute; reflexivity|]. eexists. split; [vm_compute; reflexivity|].
  repeat split; vm_compute; reflexivity.
Qed.

(* the oracle accepts the ideal measurement of that script and rejects a stalled one *)
Example C04_example_oracle :
  c04_ok 1 0 [mkNphase 1 false 2 false; mkNphase 0 true 0 false; mkNphase 0 false 1 true]
    [mkCobs (Some (mkEobs 2 true false)) (Some (mkEobs 2 true false));
     mkCobs (Some (mkEobs 2 true true)) (Some (mkEobs 2 true false));
     mkCobs (Some (mkEobs 2 true true)) (Some (mkEobs 3 true true))] (Some true) = true
  /\
  c04_ok 1 0 [mkNphase 1 false 2 false]
    [mkCobs (Some (mkEobs 0 true false)) (Some (mkEobs 2 true false))] None = false.
Proof. split; vm_compute; reflexivity. Qed.

(* ---------------- non-vacuity of the hypotheses used above -------------- *)

(* original code, nothing early: reachable and quiescent (C04_*_original_partial) *)
Example C04_example_original_partial :
  exists s, reachable original [] ["p"] [ClientSend ["x"]; Copy1 1; Copy2 1; ClientShut; Eof1; TargetShut; Eof2; Join] s
            /\ quiescentb s = true /\ c_abort s = false /\ t_abort s = false
            /\ c_wr_open s = false /\ t_wr_open s = false /\ closed s = true.
Proof. eexists. repeat (split; [vm_compute; reflexivity|]). vm_compute; reflexivity. Qed.

(* t_eos / c_eos / closed true in a reachable state (C04_no_premature_eos,
   C04_released_only_when_both_done) *)
Example C04_example_eos_and_closed :
  exists s, reachable repaired [] [] [ClientSend ["x"]; ClientShut; Copy1 9; Eof1; TargetShut; Eof2; Join] s
            /\ t_eos s = true /\ c_eos s = true /\ closed s = true.
Proof. eexists. repeat (split; [vm_compute; reflexivity|]). vm_compute; reflexivity. Qed.

(* an admissible script with a half close, an abort and data after the abort
   (C04_model_total), and an inadmissible one *)
Example C04_example_script_ok :
  script_ok true false true false
    [mkPact ["x"] FinNone ["z"] FinNone; mkPact [] FinShut ["y"] FinNone; mkPact [] FinNone [] FinAbort] = true
  /\ script_ok true false true false [mkPact [] FinShut [] FinNone; mkPact ["x"] FinNone [] FinNone] = false.
Proof. split; vm_compute; reflexivity. Qed.

(* an internal schedule from a reachable non-quiescent state, different from the
   scheduler's, reaching quiescence (C04_every_schedule_delivers) *)
Example C04_example_other_schedule :
  exists s s', reachable repaired ["e"] [] [ClientSend ["a"; "b"; "c"]; TargetSend ["z"; "w"]] s
    /\ run repaired s [Copy2 1; Drain1; Copy1 2; Copy2 5; Copy1 1] = Some s'
    /\ quiescentb s' = true
    /\ view_of s' = mkView ["e"; "a"; "b"; "c"] false ["z"; "w"] false false.
Proof. eexists. eexists. repeat (split; [vm_compute; reflexivity|]). vm_compute; reflexivity. Qed.

(* a checkpoint followed by an abort and more activity
   (C04_abort_after_checkpoint_keeps_everything) *)
Example C04_example_abort_after_checkpoint :
  exists s s', reachable repaired [] [] [ClientSend ["x"]; Copy1 1] s /\ quiescentb s = true
    /\ run repaired s [ClientAbort; TargetSend ["z"]; Err1; Copy2 1; TargetShut; Eof2; Join] = Some s'
    /\ t_in s' = ["x"] /\ t_eos s' = true /\ closed s' = true.
Proof. eexists. eexists. repeat (split; [vm_compute; reflexivity|]). vm_compute; reflexivity. Qed.

(* the four failure clauses each occur *)
Example C04_example_clauses :
  eobs_clause 5 true (Some (mkEobs 3 false false)) = 2 /\
  eobs_clause 5 true (Some (mkEobs 3 true false)) = 1 /\
  eobs_clause 5 true (Some (mkEobs 5 true false)) = 3 /\
  eobs_clause 5 false (Some (mkEobs 5 true true)) = 4 /\
  eobs_clause 5 true (Some (mkEobs 5 true true)) = 0.
Proof. repeat (split; [vm_compute; reflexivity|]). vm_compute; reflexivity. Qed.

(* tunnel A idle and never quiescent-relevant, tunnel B transfers and shuts:
   B's view is ideal (C04_concurrent_tunnels_independent) *)
Example C04_example_two_tunnels :
  exists sa sb, run2 repaired (init [] []) (init ["e"] [])
      [(true, ClientSend ["a"]); (false, Drain1); (false, ClientSend ["x"]); (false, Copy1 3);
       (false, TargetSend ["z"]); (false, Copy2 1); (false, ClientShut); (false, Eof1)] = Some (sa, sb)
    /\ quiescentb sa = false /\ quiescentb sb = true
    /\ view_of sb = mkView ["e"; "x"] true ["z"] false false.
Proof. eexists. eexists. repeat (split; [vm_compute; reflexivity|]). vm_compute; reflexivity. Qed.
