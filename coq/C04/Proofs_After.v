(* C04 — what happens to the client connection after the tunnel (depends on
   the facts harness/cmd/gen_c04 reads from proxy.go into Gen_Ret.v). *)
From Coq Require Import List NArith Bool Arith Lia.
From Martian.C04 Require Import Gen_Ret Model.
Import ListNotations.

(* ------------------------------------------------------------------ *)
(* After the tunnel                                                     *)
(* ------------------------------------------------------------------ *)

Lemma after_tunnel_iff a b c d e :
  after_tunnel a b c d e = mkAfter true false true
  <-> a = true /\ b = true /\ c = true /\ d = true /\ e = true.
Proof.
  unfold after_tunnel. destruct a, b, c, d, e; simpl; split; intro H;
    try reflexivity; try discriminate; try tauto;
    destruct H as (? & ? & ? & ? & ?); discriminate.
Qed.

Lemma after_tunnel_released : after_tunnel_here = mkAfter true false true.
Proof. vm_compute. reflexivity. Qed.

Lemma target_release_ok_iff k : target_release_ok k = true <-> k <> Some false.
Proof. destruct k as [[|]|]; simpl; split; intro H; try reflexivity; try discriminate; congruence. Qed.

Lemma target_release_agrees_here k :
  target_release_agrees after_tunnel_here k = target_release_ok k.
Proof. destruct k as [[|]|]; vm_compute; reflexivity. Qed.

(* nothing of a previous exchange's shaping reaches the tunnel *)
Lemma no_stale_shaping stale : tunnel_cut shaping_reset_before_connect stale = None.
Proof. reflexivity. Qed.

Lemma stale_shaping_without_reset off : tunnel_cut false (Some off) = Some off.
Proof. reflexivity. Qed.

Lemma probe_ok_iff w q : probe_ok w q = true <-> w = true /\ q = false.
Proof. unfold probe_ok. destruct w, q; simpl; split; intro H; try discriminate; try tauto; destruct H; discriminate. Qed.

(* a tunnel whose handler does not return a closing result is refuted by the probe's spec *)
Lemma after_tunnel_nil_refuted : after_tunnel false true true true true = mkAfter false true true.
Proof. reflexivity. Qed.

(* every 2xx answer of the downstream proxy announces the tunnel *)
Lemma is_2xx_range st : (200 <= st < 300)%N -> is_2xx st = true.
Proof.
  intro H. unfold is_2xx. apply N.eqb_eq. symmetry.
  apply (N.div_unique st 100 2 (st - 200)); lia.
Qed.

Lemma downstream_2xx_is_tunnel st : (200 <= st < 300)%N -> connect_downstream st = mkDown st true.
Proof.
  intro H. unfold connect_downstream, downstream_is_tunnel.
  change downstream_any_2xx with true. cbv iota. rewrite (is_2xx_range st H). reflexivity.
Qed.

Lemma only_200_refuted : downstream_is_tunnel false 201 = false.
Proof. reflexivity. Qed.

Lemma down_ok_iff a b c d p e :
  down_ok a b c d p e = true <-> a = b /\ c = d /\ p = true /\ e = true.
Proof.
  unfold down_ok. rewrite !andb_true_iff, !N.eqb_eq. tauto.
Qed.

(* with the facts of the source as they are, "the observation agrees with the
   model of handleLoop" and "the observation satisfies the property" coincide *)
Lemma probe_agrees_here w q : probe_agrees after_tunnel_here w q = probe_ok w q.
Proof. destruct w, q; vm_compute; reflexivity. Qed.

(* nothing queued toward a slow peer is thrown away when the proxy closes *)
Lemma proxy_close_is_graceful q : proxy_close_discards dial_sets_linger q = 0%N.
Proof. reflexivity. Qed.

Lemma linger0_discards q : proxy_close_discards true q = q.
Proof. reflexivity. Qed.

(* no tunnel on a shaped listener waits for another one's connection *)
Lemma tunnels_do_not_wait : tunnel_may_wait_for_another shaped_copy_unlocked = false.
Proof. reflexivity. Qed.

(* the tunnel's behaviour does not depend on when the ends write *)
Lemma no_timed_transition : tunnel_has_timed_transition tunnel_conns_no_armed_deadline = false.
Proof. reflexivity. Qed.

Lemma armed_deadline_is_timed : tunnel_has_timed_transition false = true.
Proof. reflexivity. Qed.
