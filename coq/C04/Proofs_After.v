(* C04 — what happens to the client connection after the tunnel (depends on
   the facts harness/cmd/gen_c04 reads from proxy.go into Gen_Ret.v). *)
From Coq Require Import List NArith Bool Arith.
From Martian.C04 Require Import Model.
Import ListNotations.

(* ------------------------------------------------------------------ *)
(* After the tunnel                                                     *)
(* ------------------------------------------------------------------ *)

Lemma after_tunnel_iff a b c d :
  after_tunnel a b c d = mkAfter true false <-> a = true /\ b = true /\ c = true /\ d = true.
Proof.
  unfold after_tunnel. destruct a, b, c, d; simpl; split; intro H;
    try reflexivity; try discriminate; try tauto;
    destruct H as (? & ? & ? & ?); discriminate.
Qed.

Lemma after_tunnel_released : after_tunnel_here = mkAfter true false.
Proof. vm_compute. reflexivity. Qed.

Lemma probe_ok_iff w q : probe_ok w q = true <-> w = true /\ q = false.
Proof. unfold probe_ok. destruct w, q; simpl; split; intro H; try discriminate; try tauto; destruct H; discriminate. Qed.

(* a tunnel whose handler does not return a closing result is refuted by the probe's spec *)
Lemma after_tunnel_nil_refuted : after_tunnel false true true true = mkAfter false true.
Proof. reflexivity. Qed.
