(* C04 — blind CONNECT tunnels are byte-transparent both ways and propagate
   end-of-stream.

   Definitions only.  A labelled transition system for the tunnel part of
   Proxy.handleConnectRequest in /repo/proxy.go (after the CONNECT
   response has been written): two copy loops, the join, the deferred
   closes.  Nondeterminism (scheduling, how many bytes one read returns,
   when the ends write and shut) lives in which label comes next.

   The configuration [cfg] selects between the code as REPAIRED by
   fixes/C04-*.diff ([repaired]) and the code as it was ([original]):

   - [buffered]: the client->target copy writes through a bufio.Writer
     (cbw, 4096 bytes).  io.Copy(cbw, brw) is bufio.Reader.WriteTo: first
     the bytes already buffered behind the CONNECT head are handed to
     cbw.Write ([Drain1]); then bufio.Writer.ReadFrom: while the buffer is
     not empty every read lands in the buffer, a flush happens only when it
     is full, and only an empty buffer lets the copy go straight to the
     connection.  This is MODELLED STDLIB BEHAVIOUR (bufio.go: Reader.WriteTo,
     Writer.Write, Writer.ReadFrom), tied by the correspondence run.
   - [eos_prop]: a copy loop that ends passes the end of stream on
     (flush + CloseWrite of its destination) instead of waiting for the join.

   Ghost fields [c_sent]/[t_sent] record everything the ends wrote so that
   "in order, exactly once" is a statement about the state. *)

From Coq Require Import List NArith Bool Arith Ascii.
From Martian.C04 Require Import Gen_Ret.
Import ListNotations.

Definition byte := ascii.

Inductive phase := Running | Done.

Record cfg := mkCfg { buffered : bool; eos_prop : bool }.
Definition repaired : cfg := mkCfg false true.
Definition original : cfg := mkCfg true false.

Definition bufsize : nat := 4096.   (* bufio default size *)

Record st := mkSt
  { c_sent : list byte;   (* ghost: payload the client wrote after the CONNECT head *)
    t_sent : list byte;   (* ghost: everything the target wrote *)
    rbuf : list byte;     (* client bytes sitting in brw.Reader behind the head ("early") *)
    c2t_src : list byte;  (* client wrote, proxy has not read yet *)
    wbuf : list byte;     (* cbw's buffer (always [] when not [buffered]) *)
    t_in : list byte;     (* delivered to the target's socket *)
    t2c_src : list byte;  (* target wrote, proxy has not read yet *)
    c_in : list byte;     (* delivered to the client's socket *)
    c_wr_open : bool;     (* client has not shut its sending side *)
    t_wr_open : bool;
    dir1 : phase;         (* client->target copy loop *)
    dir2 : phase;         (* target->client copy loop *)
    t_eos : bool;         (* proxy has shut/closed the target connection: target reads EOS after t_in *)
    c_eos : bool;
    closed : bool;        (* handler returned: both connections released *)
    c_abort : bool;       (* the client's socket is gone abortively (RST): the proxy's reads from it
                             fail (possibly before everything it sent was read), writes to it fail *)
    t_abort : bool }.

(* [early]: payload that arrived with the CONNECT head; [peeked]: target bytes
   that arrived with the downstream proxy's 200 head (kept by peekedConn). *)
Definition init (early peeked : list byte) : st :=
  mkSt early peeked early [] [] [] peeked [] true true Running Running false false false false false.

Inductive label :=
| ClientSend (bs : list byte)
| TargetSend (bs : list byte)
| ClientShut
| TargetShut
| ClientAbort        (* abortive close: SO_LINGER 0, or close with unread received data *)
| TargetAbort
| Drain1
| Copy1 (n : nat)
| Eof1
| Copy2 (n : nat)
| Eof2
| Err1               (* client->target copy returns with an error *)
| Err2
| Join.

Definition internal (l : label) : bool :=
  match l with
  | Drain1 | Copy1 _ | Eof1 | Copy2 _ | Eof2 | Err1 | Err2 | Join => true
  | _ => false
  end.

Definition is_nil {A} (l : list A) : bool := match l with [] => true | _ => false end.

Definition phase_eqb (a b : phase) : bool :=
  match a, b with Running, Running => true | Done, Done => true | _, _ => false end.

(* bufio.Writer after [w] has been extended: ReadFrom flushes a full buffer
   before it blocks in the next read. *)
Definition push (tin w : list byte) : list byte * list byte :=
  if Nat.leb bufsize (length w) then (tin ++ w, []) else (tin, w).

Definition set_c2t (s : st) (rb src wb tin : list byte) : st :=
  mkSt (c_sent s) (t_sent s) rb src wb tin (t2c_src s) (c_in s)
       (c_wr_open s) (t_wr_open s) (dir1 s) (dir2 s) (t_eos s) (c_eos s) (closed s)
       (c_abort s) (t_abort s).

Definition step (c : cfg) (s : st) (l : label) : option st :=
  match l with
  | ClientSend bs =>
      if c_wr_open s
      then Some (mkSt (c_sent s ++ bs) (t_sent s) (rbuf s) (c2t_src s ++ bs) (wbuf s) (t_in s)
                      (t2c_src s) (c_in s) true (t_wr_open s) (dir1 s) (dir2 s)
                      (t_eos s) (c_eos s) (closed s) (c_abort s) (t_abort s))
      else None
  | TargetSend bs =>
      if t_wr_open s
      then Some (mkSt (c_sent s) (t_sent s ++ bs) (rbuf s) (c2t_src s) (wbuf s) (t_in s)
                      (t2c_src s ++ bs) (c_in s) (c_wr_open s) true (dir1 s) (dir2 s)
                      (t_eos s) (c_eos s) (closed s) (c_abort s) (t_abort s))
      else None
  | ClientShut =>
      if c_wr_open s
      then Some (mkSt (c_sent s) (t_sent s) (rbuf s) (c2t_src s) (wbuf s) (t_in s)
                      (t2c_src s) (c_in s) false (t_wr_open s) (dir1 s) (dir2 s)
                      (t_eos s) (c_eos s) (closed s) (c_abort s) (t_abort s))
      else None
  | TargetShut =>
      if t_wr_open s
      then Some (mkSt (c_sent s) (t_sent s) (rbuf s) (c2t_src s) (wbuf s) (t_in s)
                      (t2c_src s) (c_in s) (c_wr_open s) false (dir1 s) (dir2 s)
                      (t_eos s) (c_eos s) (closed s) (c_abort s) (t_abort s))
      else None
  | ClientAbort =>
      if c_abort s then None
      else Some (mkSt (c_sent s) (t_sent s) (rbuf s) (c2t_src s) (wbuf s) (t_in s)
                      (t2c_src s) (c_in s) false (t_wr_open s) (dir1 s) (dir2 s)
                      (t_eos s) (c_eos s) (closed s) true (t_abort s))
  | TargetAbort =>
      if t_abort s then None
      else Some (mkSt (c_sent s) (t_sent s) (rbuf s) (c2t_src s) (wbuf s) (t_in s)
                      (t2c_src s) (c_in s) (c_wr_open s) false (dir1 s) (dir2 s)
                      (t_eos s) (c_eos s) (closed s) (c_abort s) true)
  | Drain1 =>
      (* bufio.Reader.WriteTo -> writeBuf(w): the buffered bytes go to w.Write *)
      if phase_eqb (dir1 s) Running && negb (is_nil (rbuf s))
      then if buffered c
           then let '(tin, w) := push (t_in s) (wbuf s ++ rbuf s) in
                Some (set_c2t s [] (c2t_src s) w tin)
           else Some (set_c2t s [] (c2t_src s) (wbuf s) (t_in s ++ rbuf s))
      else None
  | Copy1 n =>
      if phase_eqb (dir1 s) Running && is_nil (rbuf s)
      then
        (* loop head of bufio.Writer.ReadFrom: flush if full *)
        let '(tin0, w0) := push (t_in s) (wbuf s) in
        if negb (buffered c) || is_nil w0
        then (* straight to the connection *)
          let chunk := firstn n (c2t_src s) in
          if is_nil chunk then None
          else Some (set_c2t s [] (skipn n (c2t_src s)) w0 (tin0 ++ chunk))
        else (* r.Read(b.buf[b.n:]) : at most Available() bytes, into the buffer *)
          let k := Nat.min n (bufsize - length w0) in
          let chunk := firstn k (c2t_src s) in
          if is_nil chunk then None
          else let '(tin, w) := push tin0 (w0 ++ chunk) in
               Some (set_c2t s [] (skipn k (c2t_src s)) w tin)
      else None
  | Eof1 =>
      if phase_eqb (dir1 s) Running && is_nil (rbuf s) && is_nil (c2t_src s) && negb (c_wr_open s)
      then if eos_prop c
           then Some (mkSt (c_sent s) (t_sent s) [] [] [] (t_in s ++ wbuf s) (t2c_src s) (c_in s)
                           false (t_wr_open s) Done (dir2 s) true (c_eos s) (closed s) (c_abort s) (t_abort s))
           else Some (mkSt (c_sent s) (t_sent s) [] [] (wbuf s) (t_in s) (t2c_src s) (c_in s)
                           false (t_wr_open s) Done (dir2 s) (t_eos s) (c_eos s) (closed s) (c_abort s) (t_abort s))
      else None
  | Copy2 n =>
      if phase_eqb (dir2 s) Running
      then let chunk := firstn n (t2c_src s) in
           if is_nil chunk then None
           else Some (mkSt (c_sent s) (t_sent s) (rbuf s) (c2t_src s) (wbuf s) (t_in s)
                           (skipn n (t2c_src s)) (c_in s ++ chunk) (c_wr_open s) (t_wr_open s)
                           (dir1 s) (dir2 s) (t_eos s) (c_eos s) (closed s) (c_abort s) (t_abort s))
      else None
  | Eof2 =>
      if phase_eqb (dir2 s) Running && is_nil (t2c_src s) && negb (t_wr_open s)
      then Some (mkSt (c_sent s) (t_sent s) (rbuf s) (c2t_src s) (wbuf s) (t_in s) [] (c_in s)
                      (c_wr_open s) false (dir1 s) Done (t_eos s)
                      (if eos_prop c then true else c_eos s) (closed s) (c_abort s) (t_abort s))
      else None
  | Err1 =>
      (* io.Copy returns an error: the read from the aborted client failed, or there was
         something to write to the aborted target.  Unread bytes stay behind for good.
         The repaired copySync still flushes and half-closes its destination. *)
      if phase_eqb (dir1 s) Running
         && (c_abort s || (t_abort s && negb (is_nil (rbuf s) && is_nil (c2t_src s))))
      then if eos_prop c
           then Some (mkSt (c_sent s) (t_sent s) (rbuf s) (c2t_src s) [] (t_in s ++ wbuf s)
                           (t2c_src s) (c_in s) (c_wr_open s) (t_wr_open s) Done (dir2 s)
                           true (c_eos s) (closed s) (c_abort s) (t_abort s))
           else Some (mkSt (c_sent s) (t_sent s) (rbuf s) (c2t_src s) (wbuf s) (t_in s)
                           (t2c_src s) (c_in s) (c_wr_open s) (t_wr_open s) Done (dir2 s)
                           (t_eos s) (c_eos s) (closed s) (c_abort s) (t_abort s))
      else None
  | Err2 =>
      if phase_eqb (dir2 s) Running
         && (t_abort s || (c_abort s && negb (is_nil (t2c_src s))))
      then Some (mkSt (c_sent s) (t_sent s) (rbuf s) (c2t_src s) (wbuf s) (t_in s)
                      (t2c_src s) (c_in s) (c_wr_open s) (t_wr_open s) (dir1 s) Done
                      (t_eos s) (if eos_prop c then true else c_eos s) (closed s)
                      (c_abort s) (t_abort s))
      else None
  | Join =>
      (* <-donec; <-donec; deferred cbw.Flush(), cconn.Close(); handleLoop: conn.Close() *)
      if phase_eqb (dir1 s) Done && phase_eqb (dir2 s) Done && negb (closed s)
      then Some (mkSt (c_sent s) (t_sent s) (rbuf s) (c2t_src s) [] (t_in s ++ wbuf s)
                      (t2c_src s) (c_in s) (c_wr_open s) (t_wr_open s) Done Done true true true (c_abort s) (t_abort s))
      else None
  end.

Fixpoint run (c : cfg) (s : st) (tr : list label) : option st :=
  match tr with
  | [] => Some s
  | l :: tr' => match step c s l with None => None | Some s' => run c s' tr' end
  end.

(* No internal step is enabled. *)
Definition quiescentb (s : st) : bool :=
  let r1 := phase_eqb (dir1 s) Running in
  let r2 := phase_eqb (dir2 s) Running in
  negb (r1 && negb (is_nil (rbuf s)))
  && negb (r1 && is_nil (rbuf s) && negb (is_nil (c2t_src s)))
  && negb (r1 && is_nil (rbuf s) && is_nil (c2t_src s) && negb (c_wr_open s))
  && negb (r2 && negb (is_nil (t2c_src s)))
  && negb (r2 && is_nil (t2c_src s) && negb (t_wr_open s))
  && negb (r1 && (c_abort s || (t_abort s && negb (is_nil (rbuf s) && is_nil (c2t_src s)))))
  && negb (r2 && (t_abort s || (c_abort s && negb (is_nil (t2c_src s)))))
  && negb (phase_eqb (dir1 s) Done && phase_eqb (dir2 s) Done && negb (closed s)).

(* A scheduler: some enabled internal label, reading as much as possible. *)
Definition next_internal (s : st) : option label :=
  let r1 := phase_eqb (dir1 s) Running in
  let r2 := phase_eqb (dir2 s) Running in
  if r1 && negb (is_nil (rbuf s)) then Some Drain1
  else if r1 && negb (is_nil (c2t_src s)) then Some (Copy1 (length (c2t_src s)))
  else if r1 && negb (c_wr_open s) then Some Eof1
  else if r2 && negb (is_nil (t2c_src s)) then Some (Copy2 (length (t2c_src s)))
  else if r2 && negb (t_wr_open s) then Some Eof2
  else if r1 && c_abort s then Some Err1
  else if r2 && t_abort s then Some Err2
  else if phase_eqb (dir1 s) Done && phase_eqb (dir2 s) Done && negb (closed s) then Some Join
  else None.

Definition measure (s : st) : nat :=
  length (rbuf s) + length (c2t_src s) + length (t2c_src s)
  + (if phase_eqb (dir1 s) Running then 1 else 0)
  + (if phase_eqb (dir2 s) Running then 1 else 0)
  + (if closed s then 0 else 1).

(* Run internal steps to quiescence.  [None] = OutOfFuel (or a scheduler
   bug); the theorems show it cannot happen with fuel [S (measure s)]. *)
Fixpoint settle (c : cfg) (fuel : nat) (s : st) : option st :=
  match fuel with
  | 0 => None
  | S f =>
      match next_internal s with
      | None => Some s
      | Some l => match step c s l with None => None | Some s' => settle c f s' end
      end
  end.

(* ------------------------------------------------------------------ *)
(* What the two ends can see                                           *)
(* ------------------------------------------------------------------ *)

Record view := mkView
  { v_t : list byte; v_teos : bool; v_c : list byte; v_ceos : bool; v_closed : bool }.

Definition view_of (s : st) : view :=
  mkView (t_in s) (t_eos s) (c_in s) (c_eos s) (closed s).

(* The ideal tunnel, computed from what the ends did (environment labels of
   a trace) alone. *)
Fixpoint client_bytes (tr : list label) : list byte :=
  match tr with
  | [] => []
  | ClientSend bs :: tr' => bs ++ client_bytes tr'
  | _ :: tr' => client_bytes tr'
  end.

Fixpoint target_bytes (tr : list label) : list byte :=
  match tr with
  | [] => []
  | TargetSend bs :: tr' => bs ++ target_bytes tr'
  | _ :: tr' => target_bytes tr'
  end.

Definition client_shut (tr : list label) : bool :=
  existsb (fun l => match l with ClientShut | ClientAbort => true | _ => false end) tr.
Definition target_shut (tr : list label) : bool :=
  existsb (fun l => match l with TargetShut | TargetAbort => true | _ => false end) tr.

Definition client_aborted (tr : list label) : bool :=
  existsb (fun l => match l with ClientAbort => true | _ => false end) tr.
Definition target_aborted (tr : list label) : bool :=
  existsb (fun l => match l with TargetAbort => true | _ => false end) tr.

Definition spec_view (early peeked : list byte) (tr : list label) : view :=
  mkView (early ++ client_bytes tr) (client_shut tr)
         (peeked ++ target_bytes tr) (target_shut tr)
         (client_shut tr && target_shut tr).

(* ------------------------------------------------------------------ *)
(* Scripts: phases of concurrent activity, each followed by a checkpoint *)
(* ------------------------------------------------------------------ *)

(* how an end finishes in a phase *)
Inductive fin := FinNone | FinShut | FinAbort.

Definition fin_shut (f : fin) : bool := match f with FinNone => false | _ => true end.
Definition fin_abort (f : fin) : bool := match f with FinAbort => true | _ => false end.

Record pact := mkPact
  { pa_c : list byte; pa_cfin : fin; pa_t : list byte; pa_tfin : fin }.

Definition pa_cshut (p : pact) : bool := fin_shut (pa_cfin p).
Definition pa_tshut (p : pact) : bool := fin_shut (pa_tfin p).

Definition phase_labels (p : pact) : list label :=
  (if is_nil (pa_c p) then [] else [ClientSend (pa_c p)])
  ++ (if is_nil (pa_t p) then [] else [TargetSend (pa_t p)])
  ++ (match pa_cfin p with FinNone => [] | FinShut => [ClientShut] | FinAbort => [ClientAbort] end)
  ++ (match pa_tfin p with FinNone => [] | FinShut => [TargetShut] | FinAbort => [TargetAbort] end).

(* Apply each phase's environment labels, then run to quiescence and look.
   [None]: the script is not admissible (an end acts after it shut) or
   OutOfFuel. *)
Fixpoint run_script (c : cfg) (s : st) (ps : list pact) : option (list view) :=
  match ps with
  | [] => Some []
  | p :: ps' =>
      match run c s (phase_labels p) with
      | None => None
      | Some s1 =>
          match settle c (S (measure s1)) s1 with
          | None => None
          | Some s2 =>
              match run_script c s2 ps' with
              | None => None
              | Some vs => Some (view_of s2 :: vs)
              end
          end
      end
  end.

Fixpoint script_labels (ps : list pact) : list label :=
  match ps with
  | [] => []
  | p :: ps' => phase_labels p ++ script_labels ps'
  end.

(* the ideal views after each phase *)
Fixpoint spec_views_from (early peeked : list byte) (pre : list label) (ps : list pact)
  : list view :=
  match ps with
  | [] => []
  | p :: ps' =>
      let pre' := pre ++ phase_labels p in
      spec_view early peeked pre' :: spec_views_from early peeked pre' ps'
  end.

Definition spec_views (early peeked : list byte) (ps : list pact) : list view :=
  spec_views_from early peeked [] ps.

(* ------------------------------------------------------------------ *)
(* Oracle on what the harness measures                                  *)
(* ------------------------------------------------------------------ *)

(* One end at one checkpoint: number of bytes received, whether they equal
   the first so-many bytes the other side sent, whether end-of-stream was
   seen.  [None] = this end closed its own socket (nothing to observe). *)
Record eobs := mkEobs { o_n : N; o_prefix : bool; o_eos : bool }.

Fixpoint bytes_eqb (a b : list byte) : bool :=
  match a, b with
  | [], [] => true
  | x :: a', y :: b' => Ascii.eqb x y && bytes_eqb a' b'
  | _, _ => false
  end.

(* what the harness computes from the received stream [r] *)
Definition measure_end (r sent : list byte) (eos : bool) : eobs :=
  mkEobs (N.of_nat (length r)) (bytes_eqb r (firstn (length r) sent)) eos.

Definition eobs_ok (want_n : N) (want_eos : bool) (o : option eobs) : bool :=
  match o with
  | None => true
  | Some e => N.eqb (o_n e) want_n && o_prefix e && Bool.eqb (o_eos e) want_eos
  end.

(* which clause fails first: 0 ok, 1 bytes missing/surplus, 2 wrong bytes, 3 eos missing, 4 eos premature *)
Definition eobs_clause (want_n : N) (want_eos : bool) (o : option eobs) : nat :=
  match o with
  | None => 0
  | Some e =>
      if negb (o_prefix e) then 2
      else if negb (N.eqb (o_n e) want_n) then 1
      else if want_eos && negb (o_eos e) then 3
      else if negb want_eos && o_eos e then 4
      else 0
  end.

(* Count-level script: per phase (client bytes, client shuts, target bytes, target shuts). *)
Record nphase := mkNphase { np_c : N; np_cshut : bool; np_t : N; np_tshut : bool }.

Record cobs := mkCobs { ob_t : option eobs; ob_c : option eobs }.

Fixpoint c04_ok_from (cn tn : N) (cs ts : bool) (ps : list nphase) (obs : list cobs) : bool :=
  match ps, obs with
  | [], [] => true
  | p :: ps', o :: obs' =>
      let cn' := (cn + np_c p)%N in
      let tn' := (tn + np_t p)%N in
      let cs' := cs || np_cshut p in
      let ts' := ts || np_tshut p in
      eobs_ok cn' cs' (ob_t o) && eobs_ok tn' ts' (ob_c o)
      && c04_ok_from cn' tn' cs' ts' ps' obs'
  | _, _ => false
  end.

Definition all_shut (ps : list nphase) : bool :=
  existsb np_cshut ps && existsb np_tshut ps.

(* released: Some b = the harness asked both proxies to finish and they did
   (b = true) or did not (false) within the grace period; None = not asked. *)
Definition released_ok (ps : list nphase) (rel : option bool) : bool :=
  match rel with
  | None => negb (all_shut ps)
  | Some b => all_shut ps && b
  end.

Definition c04_ok (early peeked : N) (ps : list nphase) (obs : list cobs) (rel : option bool) : bool :=
  c04_ok_from early peeked false false ps obs && released_ok ps rel.

(* first failing (phase index, end, clause) for reports; end 0 = target, 1 = client *)
Fixpoint c04_first_fail (k : nat) (cn tn : N) (cs ts : bool) (ps : list nphase) (obs : list cobs)
  : option (nat * nat * nat) :=
  match ps, obs with
  | p :: ps', o :: obs' =>
      let cn' := (cn + np_c p)%N in
      let tn' := (tn + np_t p)%N in
      let cs' := cs || np_cshut p in
      let ts' := ts || np_tshut p in
      match eobs_clause cn' cs' (ob_t o), eobs_clause tn' ts' (ob_c o) with
      | 0, 0 => c04_first_fail (S k) cn' tn' cs' ts' ps' obs'
      | 0, j => Some (k, 1, j)
      | i, 0 => Some (k, 0, i)
      | i, j => if Nat.leb i j then Some (k, 0, i) else Some (k, 1, j)   (* wrong bytes / loss first *)
      end
  | [], [] => None
  | _, _ => Some (k, 2, 0)
  end.

(* the count-level image of a model view (what the harness would measure on it) *)
Definition measure_view (csent tsent : list byte) (v : view) : cobs :=
  mkCobs (Some (measure_end (v_t v) csent (v_teos v)))
         (Some (measure_end (v_c v) tsent (v_ceos v))).

(* ------------------------------------------------------------------ *)
(* CONNECT failure (proxy.go 373-396)                                   *)
(* ------------------------------------------------------------------ *)

Inductive dial := DialOk | DialErr.

Record response := mkResp { status : N; warning : bool; tunnel : bool }.

(* res, cconn, cerr := p.connect(req); if cerr != nil { 502 + proxyutil.Warning } *)
Definition connect_response (d : dial) : response :=
  match d with
  | DialErr => mkResp 502 true false
  | DialOk => mkResp 200 false true
  end.

Definition fail_ok (st : N) (warn : bool) : bool := N.eqb st 502 && warn.

(* ------------------------------------------------------------------ *)
(* After the tunnel: what handleLoop does with the client connection    *)
(* ------------------------------------------------------------------ *)

(* [Join] is the end of handleConnectRequest; its result goes to handleLoop
   (proxy.go 232-275):  for { if err := p.handle(...); isCloseable(err) { return } }
   with a deferred conn.Close().  Only a closeable result ends the loop and
   releases the client connection; any other result makes the loop call
   p.handle again, which reads THE NEXT HTTP REQUEST from the former tunnel
   connection.  The four facts are read from proxy.go by harness/cmd/gen_c04
   (Gen_Ret.v). *)
Record after := mkAfter
  { a_client_closed : bool;   (* the proxy closes the client connection *)
    a_parses_more : bool;     (* bytes the client writes after the tunnel's end are read as HTTP *)
    a_target_closed : bool }. (* Close() is called on the connection the proxy dialled *)

(* [defers_cconn]: handleConnectRequest has `defer cconn.Close()`; the half
   close in copySync (CloseWrite) is not a release: the descriptor stays, a
   wrapping dialer never sees Close, a target still writing is never reset. *)
Definition after_tunnel (ret_errclose closeable loop_returns defers_close defers_cconn : bool) : after :=
  if ret_errclose && closeable && loop_returns
  then mkAfter defers_close false defers_cconn
  else mkAfter false true defers_cconn.

Definition after_tunnel_here : after :=
  after_tunnel tunnel_returns_errClose errClose_is_closeable
               loop_returns_on_closeable loop_defers_conn_close connect_defers_cconn_close.

(* what a close-recording dialer saw ([None]: not recorded / tunnel not over) *)
Definition target_release_ok (k : option bool) : bool :=
  match k with Some b => b | None => true end.

Definition target_release_agrees (a : after) (k : option bool) : bool :=
  match k with Some b => Bool.eqb b (a_target_closed a) | None => true end.

(* an end that keeps writing while its peer aborts: its write must fail (the
   proxy closes its connection) within the bound *)
Definition stream_ok (write_failed : bool) : bool := write_failed.

(* State of a PREVIOUS exchange on the same client connection: the traffic
   shaping context (an action at body offset [off]) a shaped response left
   behind applies to the CONNECT response and the tunnel bytes unless handle()
   replaces it before dispatching the CONNECT.  [None]: the tunnel's client-side
   writer is the plain connection the LTS assumes ([Copy2] appends, nothing
   cuts or delays). *)
Definition tunnel_cut (reset_before_connect : bool) (stale : option N) : option N :=
  if reset_before_connect then None else stale.

(* what the client can do to find out: keep writing into the dead tunnel
   ([wfail]: a write failed = connection closed by the proxy; [canary]: an
   origin named in a request written there was contacted) *)
Definition probe_ok (wfail canary : bool) : bool := wfail && negb canary.

Definition probe_agrees (a : after) (wfail canary : bool) : bool :=
  Bool.eqb wfail (a_client_closed a) && (negb canary || a_parses_more a).

(* ------------------------------------------------------------------ *)
(* CONNECT through a downstream proxy: its answer (connect, 608-650)    *)
(* ------------------------------------------------------------------ *)

Definition is_2xx (st : N) : bool := N.eqb (N.div st 100) 2.

(* which answers make connect() drop the response body and treat everything
   behind the head (also what was already read) as tunnel payload; [any2xx] is
   the shape of the test in the source (Gen_Ret.downstream_any_2xx) *)
Definition downstream_is_tunnel (any2xx : bool) (st : N) : bool :=
  if any2xx then is_2xx st else N.eqb st 200.

(* what the client is told: the downstream proxy's status, as is *)
Record down := mkDown { d_status : N; d_tunnel : bool }.

Definition connect_downstream (st : N) : down :=
  mkDown st (downstream_is_tunnel downstream_any_2xx st).

(* a refusal (non-2xx) is relayed: same status, its whole body, then the end *)
Definition down_ok (sent got body_sent body_got : N) (body_prefix eos : bool) : bool :=
  N.eqb sent got && N.eqb body_sent body_got && body_prefix && eos.

(* ------------------------------------------------------------------ *)
(* Small oracles the driver used to decide by hand                      *)
(* ------------------------------------------------------------------ *)

(* status of the CONNECT response the client must read: 200 when the proxy
   dials itself or goes through a real martian, the downstream proxy's own
   status when a scripted downstream proxy answered [Some code] *)
Definition expected_status (downstream : option N) : N :=
  match downstream with
  | None => 200
  | Some code => d_status (connect_downstream code)
  end.

Definition status_ok (want : N) (got : option N) : bool :=
  match got with Some g => N.eqb g want | None => false end.

(* how a receiving end's stream ended, and when a reset may stand for
   end-of-stream: only once the peer's socket is fully gone (full or abortive
   close); before that it is a read error ([None]) *)
Inductive eos_seen := NoEos | CleanEos | ResetEos.

Definition eos_flag (peer_gone : bool) (e : eos_seen) : option bool :=
  match e with
  | NoEos => Some false
  | CleanEos => Some true
  | ResetEos => if peer_gone then Some true else None
  end.

(* ------------------------------------------------------------------ *)
(* Close by the proxy is graceful; tunnels do not wait for each other   *)
(* ------------------------------------------------------------------ *)

(* [Join] closes the connection the proxy dialled while bytes may still be
   queued toward a slow target.  A plain close lets the kernel send them; with
   SO_LINGER 0 on the dialled connection the close is a reset and the queue is
   dropped.  [sets_linger0]: proxy.go calls SetLinger somewhere. *)
Definition proxy_close_discards (sets_linger0 : bool) (queued : N) : N :=
  if sets_linger0 then queued else 0%N.

(* Several tunnels through one listener: the LTS of one tunnel mentions nothing
   of another.  On a shaped listener the two copy halves go through a
   listener-wide token bucket; that is the same as "no shared state" for
   progress only if no lock of the bucket is held across a blocking read of one
   tunnel's connection. *)
Definition tunnel_may_wait_for_another (copy_unlocked : bool) : bool := negb copy_unlocked.

(* two tunnels side by side: labels tagged with the tunnel they belong to *)
Fixpoint run2 (c : cfg) (sa sb : st) (tr : list (bool * label)) : option (st * st) :=
  match tr with
  | [] => Some (sa, sb)
  | (true, l) :: tr' =>
      match step c sa l with None => None | Some sa' => run2 c sa' sb tr' end
  | (false, l) :: tr' =>
      match step c sb l with None => None | Some sb' => run2 c sa sb' tr' end
  end.

Definition proj (who : bool) (tr : list (bool * label)) : list label :=
  map snd (filter (fun x => Bool.eqb (fst x) who) tr).

(* ------------------------------------------------------------------ *)
(* No time-dependent transition                                         *)
(* ------------------------------------------------------------------ *)

(* The LTS has no clock: no label is enabled or disabled by the passing of time,
   which is how "for any timing of writes" is quantified.  That is the code only
   if connect / handleConnectRequest leave no read or write deadline armed on the
   connections of the tunnel ([no_armed_deadline], from the source); an armed
   write deadline makes the first write after it expires fail. *)
Definition tunnel_has_timed_transition (no_armed_deadline : bool) : bool := negb no_armed_deadline.
