From Coq Require Import ExtrOcamlBasic ExtrOcamlString.
From Martian.Common Require Import ExtractBase.
From Martian.H2 Require Import Model Spec.
Extraction Language OCaml.
Extraction "model.ml" base_anchor s0 step run getf f_maxf f_cont
  c09_ok b_conn b_stream b_frame b_credit b_strand chunks_fit hdr_chunks
  c08_ok c08_prio_ok b_faithful b_direct step_agrees block_seqs
  forward_preface forward_preface_single maxf_of rfc_valid no_open_push no_empty_hfrag b_table tab_bound b_complete b_credit_final.
