(* C09 — HTTP/2 relay obeys receiver windows, returns exact credit, never
   strands data.  Statements only; proofs are in Martian.H2.Proofs_*.
   [obs_of ls] = what the model of the (repaired) relay writes, label by label,
   when the two endpoints send the script [ls]; every statement quantifies over
   ALL scripts, including every sweep-order oracle carried by the labels.
   Window arithmetic is in Z (no uint32/int overflow). *)
From Coq Require Import List NArith ZArith Bool.
From Martian.H2 Require Import Model Spec Proofs_act Proofs_props Proofs_oracle Proofs_misc Proofs_final Proofs_audit.
Import ListNotations.
Open Scope Z_scope.

(* never more flow-controlled bytes on the connection than the receiver granted *)
Theorem C09_conn_window : forall ls, P_conn ls (obs_of ls).
Proof. exact final_conn. Qed.
Print Assumptions C09_conn_window.

(* nor on a stream: whenever a label delivers DATA on s, the total delivered on s is within what
   the receiver has granted as of that label - for every script, SETTINGS frames with repeated
   INITIAL_WINDOW_SIZE entries included (the value is applied once per frame: fixes/C09-2) *)
Theorem C09_stream_window : forall ls, P_stream ls (obs_of ls).
Proof. exact final_stream. Qed.
Print Assumptions C09_stream_window.

(* the defect repaired by fixes/C09-2, as a regression example: stream window 0, 30 octets queued;
   [IWS=1000; 0x10=1; IWS=10] releases nothing, then [IWS=10; IWS=1000] releases everything *)
Example C09_repeated_initial_window_example :
  rfc_valid w_k2s = true /\ single_init w_k2s = false /\ c09_ok w_k2s (obs_of w_k2s) = true
  /\ sents Sv 1 (concat (firstn 4 (obs_of w_k2s))) = 0%Z /\ sents Sv 1 (concat (obs_of w_k2s)) = 30%Z.
Proof. exact repeated_initial_window_example. Qed.

(* a SETTINGS frame is an ordered list: its effect on the relay is the sequential fold over its
   entries, i.e. the LAST occurrence of each identifier (RFC 7540 6.5.3) ... *)
Theorem C09_settings_frame_last_occurrence_wins : forall f y kv f' acts,
  front f y (FSettings kv) = Some (f', acts) ->
  f_maxf f' y = match last_occ 5 kv with Some v => v | None => f_maxf f y end
  /\ f_tab f' y = match last_occ 1 kv with Some v => v | None => f_tab f y end
  /\ f_maxf f' (other y) = f_maxf f (other y) /\ f_tab f' (other y) = f_tab f (other y)
  /\ forall m, fold_left a_init1 (acts_to y acts) (Z.of_N m) =
               Z.of_N (match last_occ 4 kv with Some v => v | None => m end).
Proof. exact settings_frame_effect. Qed.
Print Assumptions C09_settings_frame_last_occurrence_wins.

(* ... and after any script the base of the stream windows, the max frame size and the HPACK table
   size the relay uses toward x are the folds of everything x announced, in order *)
Theorem C09_settings_state_is_sequential_fold : forall ls x,
  init (getf (sb (final ls)) x) = init_of x (firstn (length (obs_of ls)) ls)
  /\ f_maxf (sf (final ls)) x = maxf_of x (firstn (length (obs_of ls)) ls)
  /\ f_tab (sf (final ls)) x = tabsz_of x (firstn (length (obs_of ls)) ls).
Proof. exact settings_state_is_fold. Qed.
Print Assumptions C09_settings_state_is_sequential_fold.

Example C09_settings_list_example :
  last_occ 4 [(4, 1000); (16, 1); (4, 10); (5, 32768); (5, 16384)]%N = Some 10%N
  /\ last_occ 5 [(4, 1000); (16, 1); (4, 10); (5, 32768); (5, 16384)]%N = Some 16384%N
  /\ last_occ 1 [(4, 1000); (16, 1); (4, 10)]%N = None.
Proof. vm_compute. repeat split; reflexivity. Qed.

(* credit returned = flow-controlled length (payload + pad length octet + padding)
   of every DATA frame accepted, on the stream and on the connection, after every label *)
Theorem C09_exact_credit : forall ls, P_credit ls (obs_of ls).
Proof. exact final_credit. Qed.
Print Assumptions C09_exact_credit.

(* after every label, the first accepted-but-undelivered frame of every stream
   does not fit min(stream window, connection window): nothing deliverable waits *)
Theorem C09_no_stranding : forall ls, P_strand ls (obs_of ls).
Proof. exact final_strand. Qed.
Print Assumptions C09_no_stranding.

(* frame size: "in force when sent" fails when MAX_FRAME_SIZE is lowered while
   DATA is queued (known finding C09-K1) ... *)
Theorem C09_frame_size_refuted :
  exists ls, rfc_valid ls = true /\ b_frame ls (obs_of ls) = false.
Proof. exists w_d13. exact d13_refuted. Qed.
Print Assumptions C09_frame_size_refuted.

(* ... what holds: every DATA frame accepted for delivery fits the receiver's
   max frame size in force when it was accepted (guard: no later lowering) *)
Theorem C09_frame_size_partial : forall f y s es d pad f' acts q,
  front f y (FData s es d pad) = Some (f', acts) -> In (AEnq (other y) q) acts ->
  fc q <= Z.of_N (f_maxf f (other y)).
Proof. exact data_fits_at_enqueue. Qed.
Print Assumptions C09_frame_size_partial.

(* HEADERS / PUSH_PROMISE / CONTINUATION fragments fit the max frame size in force when written *)
Theorem C09_header_fragments_fit : forall maxf hp ip elen cs,
  (5 <= maxf)%N -> hdr_chunks maxf hp ip elen = Some cs -> chunks_fit maxf hp ip cs = true.
Proof. exact hdr_chunks_fit. Qed.
Print Assumptions C09_header_fragments_fit.

(* the chunking loop terminates for every block and conserves it *)
Theorem C09_header_chunking_total : forall maxf hp ip elen,
  (5 <= maxf)%N -> exists cs, hdr_chunks maxf hp ip elen = Some cs /\ nsum cs = elen.
Proof. exact hdr_chunks_total. Qed.
Print Assumptions C09_header_chunking_total.

(* after ANY script (valid or not) the size DATA is split to is at least 16384: an out-of-range
   SETTINGS_MAX_FRAME_SIZE ends the session instead of being stored (fixes/C09-3), so the split loop
   of relay.data() always terminates and no peer can make it spin *)
Theorem C09_split_size_always_legal : forall ls x, (16384 <= f_maxf (sf (final ls)) x)%N.
Proof. exact split_size_always_legal. Qed.
Print Assumptions C09_split_size_always_legal.

Example C09_illegal_max_frame_size_ends_the_session :
  length (obs_of [mk Sv (FSettings [(5, 0)])%N; mk Cl (FData 1 false (bytes_n 5) None)]) = 0%nat
  /\ length (obs_of [mk Sv (FSettings [(3, 7); (5, 16383)])%N]) = 0%nat
  /\ length (obs_of [mk Sv (FSettings [(5, 16777216)])%N]) = 0%nat
  /\ length (obs_of [mk Sv (FSettings [(5, 16777215); (5, 16384)])%N]) = 1%nat.
Proof. vm_compute. repeat split; reflexivity. Qed.

(* the DATA splitting loop terminates whenever the receiver's max frame size is positive *)
Theorem C09_data_split_total : forall fuel maxf s es d,
  (0 < maxf)%N -> (length d < fuel)%nat -> split_data fuel maxf s es d <> None.
Proof. exact split_data_total. Qed.

Example C09_header_fragments_example :
  hdr_chunks 16384 true false 40000 = Some [16379; 16384; 7237]%N
  /\ hdr_chunks 16384 false true 16380 = Some [16380]%N /\ hdr_chunks 16384 false true 16381 = Some [16380; 1]%N.
Proof. vm_compute. repeat split; reflexivity. Qed.

Example C09_frame_size_partial_example :
  exists f' acts q, front f0 Cl (FData 1 true (bytes_n 5) (Some 2%N)) = Some (f', acts)
    /\ In (AEnq Sv q) acts /\ fc q = 5 /\ In (ACredit Cl 1 8) acts.
Proof.
  eexists. eexists. eexists. vm_compute.
  split; [reflexivity|]. split; [right; right; left; reflexivity|]. split; [reflexivity|right; left; reflexivity].
Qed.

(* for the reader: credit smaller than the next frame moves nothing (frames are never split to fit) *)
Theorem C09_byte_granular_refuted :
  let o := obs_of w_gran in
  0 < win_at Sv 1 (length o) w_gran o /\ 0 < conn_at Sv (length o) w_gran o
  /\ sents Sv 1 (concat o) = 0 /\ length (accepted Sv 1 w_gran) = 2%nat /\ delivered Sv 1 (concat o) = 1%nat.
Proof. exact byte_granular_refuted. Qed.

(* the oracle evaluated on the real relay's output is the conjunction of the statements above *)
Theorem C09_oracle_is_the_property : forall ls o, c09_ok ls o = true <-> P09 ls o.
Proof. exact c09_ok_iff. Qed.
Print Assumptions C09_oracle_is_the_property.

Theorem C09_chunk_oracle_is_the_property : forall maxf hp ip c t,
  chunks_fit maxf hp ip (c :: t) = true <->
  (c + (if ip then 4 else if hp then 5 else 0) <= maxf)%N /\ Forall (fun c => (c <= maxf)%N) t.
Proof. exact chunks_fit_iff. Qed.

Example C09_example :
  rfc_valid w_ex = true /\ length (obs_of w_ex) = length w_ex
  /\ c09_ok w_ex (obs_of w_ex) = true /\ c08_ok w_ex (obs_of w_ex) = true
  /\ sents Sv 1 (concat (obs_of w_ex)) = 3 /\ creds Cl 1 (concat (obs_of w_ex)) = 12.
Proof. exact example_ok. Qed.
