From Coq Require Import ExtrOcamlBasic ExtrOcamlString.
From Martian.Common Require Import ExtractBase.
From Martian.C19 Require Import Model.
Extraction Language OCaml.
Extraction "model.ml" base_anchor
  wire_id enc_frame enc_stream dec_frame dec_frame_orig dec_stream dec_stream_orig
  c19_reader_ok body_log body_returns req_pseudo res_pseudo map_headers hframes msg_frames
  frame_eqb list_eqb perm_b keyb key_eqb mkey msg_okb msg_pseudo_okb msg_headers_okb msg_data_okb keys_distinctb c19_subscriber_ok c19_stream_ok c19_passthrough_ok
  ts_okb find_ts first_diff mt_request mt_response.
