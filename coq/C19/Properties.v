(* C19 — property theorems.  Nothing but statements closed by [exact] and
   Print Assumptions, so a weakened statement is visible in review.

   [dec_frame] / [dec_stream] model the REPAIRED marbl.Reader
   (fixes/C19-1-reader-length-wrap.diff); [dec_frame_orig] the reader as found. *)
From Coq Require Import List NArith Bool Ascii String Arith Permutation.
From Martian.C19 Require Import Model Proofs_Codec Proofs_Stream Proofs_Ids Proofs_Audit.
Import ListNotations.
Open Scope N_scope.

(* ---- codec ------------------------------------------------------- *)

Theorem C19_be32_roundtrip : forall n, n < two32 -> de32 (be32 n) = n.
Proof. exact de32_be32. Qed.
Print Assumptions C19_be32_roundtrip.

(* A header frame written by sendHeader, followed by anything, is read back
   as exactly that header and the untouched rest. All sizes below 2^32. *)
Theorem C19_header_roundtrip : forall id mt name value rest,
  List.length id = 8%nat -> mt < 256 -> len name < two32 -> len value < two32 ->
  dec_frame (enc_header id mt name value ++ rest) = Res (FHeader id mt name value) rest.
Proof. exact header_roundtrip. Qed.
Print Assumptions C19_header_roundtrip.

Theorem C19_data_roundtrip : forall id mt index terminal data rest,
  List.length id = 8%nat -> mt < 256 -> index < two32 -> len data < two32 ->
  dec_frame (enc_data id mt index terminal data ++ rest) = Res (FData id mt index terminal data) rest.
Proof. exact data_roundtrip. Qed.
Print Assumptions C19_data_roundtrip.

(* Any sequence of whole frames decodes to itself and ends with io.EOF at a
   frame boundary. *)
Theorem C19_stream_roundtrip : forall fs, Forall wf_frame fs ->
  dec_stream (enc_stream fs) = (fs, FinErr EEof).
Proof. exact stream_roundtrip. Qed.
Print Assumptions C19_stream_roundtrip.

(* ---- one message ------------------------------------------------- *)

(* The frames of a logged message, in whatever order Go iterates the header
   map, decode to: the pseudo-headers in their fixed order, then the headers
   as a multiset, then the data frames of the body. *)
Theorem C19_message_roundtrip : forall m order,
  wf_msg m -> Permutation order (m_hdrs m) ->
  dec_stream (enc_stream (msg_frames m order)) = (msg_frames m order, FinErr EEof)
  /\ msg_frames m order =
       hframes (m_id m) (m_mt m) (m_pseudo m) ++ hframes (m_id m) (m_mt m) order
       ++ body_log (m_id m) (m_mt m) (m_reads m)
  /\ Permutation (hframes (m_id m) (m_mt m) order) (hframes (m_id m) (m_mt m) (m_hdrs m)).
Proof.
  intros m order Hwf Hperm. split; [|split].
  - apply stream_roundtrip. exact (msg_frames_wf m order Hwf Hperm).
  - exact (msg_frames_split m order).
  - unfold hframes. apply Permutation_map. exact Hperm.
Qed.
Print Assumptions C19_message_roundtrip.

(* Data frames: one per Read, indices 0,1,2,.. , concatenation = the bytes
   read, terminal exactly on the Reads that returned io.EOF. *)
Theorem C19_data_contiguous : forall id mt unders,
  N.of_nat (List.length unders) <= two32 ->
  let fs := body_log id mt unders in
  List.length fs = List.length unders
  /\ map fidx fs = map N.of_nat (seq 0 (List.length unders))
  /\ List.concat (map fdata fs) = List.concat (map fst unders)
  /\ map fterm fs = map (fun u => is_eof (snd u)) unders
  /\ Forall (fun f => is_data f = true /\ fkey f = (id, mt)) fs.
Proof. exact data_contiguous. Qed.
Print Assumptions C19_data_contiguous.

Theorem C19_last_data_frame_terminal_iff_eof : forall id mt unders,
  fterm (last (body_log id mt unders) (FData id mt 0 false [])) =
  is_eof (snd (last unders ([], RNil))).
Proof. exact data_last_terminal. Qed.
Print Assumptions C19_last_data_frame_terminal_iff_eof.

(* The wrapper hands the consumer what the body returned. *)
Theorem C19_passthrough : forall id mt unders, body_returns id mt unders = unders.
Proof. exact passthrough. Qed.
Print Assumptions C19_passthrough.

(* ---- concurrent messages ----------------------------------------- *)

(* Any interleaving of whole frames of lists with pairwise distinct keys
   demultiplexes, by key, into exactly those lists. *)
Theorem C19_interleave_demux : forall ls out, Merge ls out ->
  forall keys, NoDup keys ->
  Forall2 (fun k l => Forall (fun f => fkey f = k) l) keys ls ->
  Forall2 (fun k l => filter (keyb k) out = l) keys ls.
Proof. exact merge_demux. Qed.
Print Assumptions C19_interleave_demux.

(* Messages logged concurrently in any schedule: the byte stream decodes to
   whole frames, nothing torn, and per (id, type) to exactly the frames of
   that message.  PARTIAL: the guard [NoDup (map mkey ms)] is over the WIRE
   ids (first 8 bytes of the ID given to LogRequest/LogResponse); it excludes
   messages whose IDs differ only after the 8th byte (see _refuted below). *)
Theorem C19_concurrent_stream_partial : forall ms ls fs,
  NoDup (map mkey ms) -> Forall wf_msg ms ->
  Forall2 msg_spec ms ls -> Merge ls fs ->
  dec_stream (enc_stream fs) = (fs, FinErr EEof) /\ stream_spec ms fs.
Proof.
  intros ms ls fs Hnd Hwf Hspec Hmerge. split.
  - exact (logged_stream_decodes ms ls fs Hwf Hspec Hmerge).
  - exact (logged_stream_demux ms ls fs Hnd Hspec Hmerge).
Qed.
Print Assumptions C19_concurrent_stream_partial.

(* Without that guard the statement is false for message IDs as the caller
   knows them: marbl.Modifier logs under 16-character context IDs, newFrame
   keeps id[:8].  Two distinct IDs, same wire id: the demultiplexed frames
   are those of neither message. *)
Theorem C19_concurrent_stream_refuted : exists id1 id2 m1 m2 fs,
  id1 <> id2
  /\ wire_id id1 = Some (m_id m1) /\ wire_id id2 = Some (m_id m2) /\ m_mt m1 = m_mt m2
  /\ wf_msg m1 /\ wf_msg m2
  /\ Merge [msg_frames m1 (m_hdrs m1); msg_frames m2 (m_hdrs m2)] fs
  /\ ~ stream_spec [m1; m2] fs.
Proof. exists tid1, tid2, tm1, tm2, tfs. exact id_truncation_refutes_demux. Qed.
Print Assumptions C19_concurrent_stream_refuted.

(* ---- the frame reader on arbitrary bytes -------------------------- *)

Theorem C19_reader_never_panics : forall bs,
  dec_frame bs <> Panic
  /\ exists fs e, dec_stream bs = (fs, FinErr e).
Proof. intros bs. split; [exact (dec_frame_never_panics bs)|exact (dec_stream_total bs)]. Qed.
Print Assumptions C19_reader_never_panics.

(* The reader as found in the repository does panic ... *)
Theorem C19_original_reader_panics : exists bs, dec_frame_orig bs = Panic.
Proof. exists panic_witness. exact orig_reader_panics. Qed.
Print Assumptions C19_original_reader_panics.

(* ... exactly and only on header frames whose declared lengths sum to 2^32
   or more; everywhere else the repair changes nothing. *)
Theorem C19_repair_conservative : forall bs,
  no_wrap bs -> dec_frame_orig bs = dec_frame bs.
Proof. exact repair_conservative. Qed.
Print Assumptions C19_repair_conservative.

Theorem C19_original_reader_panics_only_on_wrap : forall bs,
  dec_frame_orig bs = Panic -> ~ no_wrap bs.
Proof. exact orig_panic_only_on_wrap. Qed.
Print Assumptions C19_original_reader_panics_only_on_wrap.

(* ---- the executable oracles are the property ---------------------- *)

Theorem C19_stream_oracle_is_the_property : forall ms fs,
  c19_stream_ok ms fs = true <-> stream_spec ms fs.
Proof. exact c19_stream_ok_iff. Qed.
Print Assumptions C19_stream_oracle_is_the_property.

Theorem C19_reader_oracle_is_the_property : forall observed,
  c19_reader_ok observed = true <-> exists e, snd observed = FinErr e.
Proof. exact c19_reader_ok_iff. Qed.
Print Assumptions C19_reader_oracle_is_the_property.

Theorem C19_passthrough_oracle_is_the_property : forall unders wrapped,
  c19_passthrough_ok unders wrapped = true <-> wrapped = unders.
Proof. exact c19_passthrough_ok_iff. Qed.
Print Assumptions C19_passthrough_oracle_is_the_property.

(* ---- audit round: what every verdict function of the driver means ---- *)

(* The stream oracle is EXACTLY the existential over schedules: the decoded
   frames are some interleaving (each list in its own order, whole frames —
   the atomicity assumption: Stream.loop receives one whole frame per channel
   operation and issues one Write per frame) of lists that are, message by
   message, the pseudo-headers, a permutation of the headers and the data
   frames.  Guard: distinct (wire id, type). *)
Theorem C19_stream_oracle_iff_some_interleaving : forall ms fs,
  NoDup (map mkey ms) ->
  (c19_stream_ok ms fs = true <-> exists ls, Forall2 msg_spec ms ls /\ Merge ls fs).
Proof.
  intros ms fs Hnd. rewrite c19_stream_ok_iff. exact (stream_spec_iff_interleaving ms fs Hnd).
Qed.
Print Assumptions C19_stream_oracle_iff_some_interleaving.

(* clause names pseudo_headers / headers / data_frames of a PROPFAIL *)
Theorem C19_message_oracle_parts : forall m l,
  (msg_okb m l = true <->
     msg_pseudo_okb m l = true /\ msg_headers_okb m l = true /\ msg_data_okb m l = true)
  /\ (msg_pseudo_okb m l = true <->
        firstn (List.length (m_pseudo m)) l = hframes (m_id m) (m_mt m) (m_pseudo m))
  /\ (msg_headers_okb m l = true <->
        Permutation (firstn (List.length (m_hdrs m)) (skipn (List.length (m_pseudo m)) l))
                    (hframes (m_id m) (m_mt m) (m_hdrs m)))
  /\ (msg_data_okb m l = true <->
        skipn (List.length (m_hdrs m)) (skipn (List.length (m_pseudo m)) l)
        = body_log (m_id m) (m_mt m) (m_reads m))
  /\ (msg_okb m l = true <-> msg_spec m l).
Proof.
  intros m l. split; [|split; [|split; [|split]]].
  - exact (msg_okb_parts m l).
  - exact (msg_pseudo_okb_iff m l).
  - exact (msg_headers_okb_iff m l).
  - exact (msg_data_okb_iff m l).
  - exact (msg_okb_iff m l).
Qed.
Print Assumptions C19_message_oracle_parts.

(* clause message_id_truncated: the guard of C19_concurrent_stream_partial *)
Theorem C19_distinct_keys_oracle : forall ms,
  keys_distinctb (map mkey ms) = true <-> NoDup (map mkey ms).
Proof. intros ms. exact (keys_distinctb_iff (map mkey ms)). Qed.
Print Assumptions C19_distinct_keys_oracle.

(* newFrame: id[:8] — the wire id is the first 8 bytes; shorter IDs panic *)
Theorem C19_wire_id_is_first_8_bytes : forall id,
  (forall w, wire_id id = Some w <-> 8 <= len id /\ w = firstn 8 id)
  /\ (wire_id id = None <-> len id < 8).
Proof. intros id. split; [exact (wire_id_some id)|exact (wire_id_none id)]. Qed.
Print Assumptions C19_wire_id_is_first_8_bytes.

(* :timestamp / :status / Content-Length: the decimal printer of the model is
   inverted by the decimal reader the timestamp check uses *)
Theorem C19_itoa_roundtrip : forall n, n < 10 ^ 40 -> undec (itoa n) = Some n.
Proof. exact undec_itoa. Qed.
Print Assumptions C19_itoa_roundtrip.

Theorem C19_timestamp_oracle : forall t0 t1 v,
  ts_okb t0 t1 v = true <-> exists t, undec v = Some t /\ t0 <= t <= t1.
Proof. exact ts_okb_iff. Qed.
Print Assumptions C19_timestamp_oracle.

(* Go's s[a:b] as modelled *)
Theorem C19_go_slice_semantics : forall s a b m,
  slice s a b = Some m <->
  a <= b /\ b <= len s /\ m = firstn (N.to_nat (b - a)) (skipn (N.to_nat a) s).
Proof. exact slice_spec. Qed.
Print Assumptions C19_go_slice_semantics.

(* However the buffer is sized, a Panic of the model is one of the two
   run-time slice expressions failing on a header frame — never one of the
   structurally unreachable branches Model.v had to fill in. *)
Theorem C19_panic_only_from_slice : forall add bs, dec_frame_gen add bs = Panic ->
  exists ft mt id a b c d e f g h nv r3,
    N_of_ascii ft = ft_header /\
    bs = ft :: mt :: id ++ [a; b; c; d; e; f; g; h] ++ nv ++ r3 /\
    (slice nv 0 (de32 [a; b; c; d]) = None \/ slice nv (de32 [a; b; c; d]) (len nv) = None).
Proof. exact panic_is_slice_failure. Qed.
Print Assumptions C19_panic_only_from_slice.

(* Whatever the reader returns can be written again and read back. *)
Theorem C19_decoded_frames_wellformed : forall bs f rest,
  dec_frame bs = Res f rest -> wf_frame f.
Proof. exact dec_frame_wf. Qed.
Print Assumptions C19_decoded_frames_wellformed.

Theorem C19_decode_encode_decode : forall bs fs e,
  dec_stream bs = (fs, e) -> dec_stream (enc_stream fs) = (fs, FinErr EEof).
Proof. exact dec_enc_dec. Qed.
Print Assumptions C19_decode_encode_decode.

Theorem C19_trunc32_fallback_unreachable : forall s, take (u32 (len s)) s <> None.
Proof. exact trunc32_take_total. Qed.
Print Assumptions C19_trunc32_fallback_unreachable.

(* ---- delivery to subscribers (marbl.Handler) ---------------------- *)

(* What one subscriber received, against the complete stream: per (id, type)
   a gap-free run of that message's frames. *)
Theorem C19_subscriber_oracle_is_the_property : forall ref got,
  c19_subscriber_ok ref got = true <->
  forall k, In k (map fkey got) ->
    exists pre post, filter (keyb k) ref = pre ++ filter (keyb k) got ++ post.
Proof. exact c19_subscriber_ok_iff. Qed.
Print Assumptions C19_subscriber_oracle_is_the_property.

(* A subscriber that joined late and/or was cut off, but received every frame
   in between, is accepted (so a cut-off is never reported as a hole). *)
Theorem C19_contiguous_delivery_accepted : forall pre got post,
  c19_subscriber_ok (pre ++ got ++ post) got = true.
Proof. intros. apply c19_subscriber_ok_iff. apply contiguous_part_ok. Qed.
Print Assumptions C19_contiguous_delivery_accepted.

(* ---- non-vacuity -------------------------------------------------- *)

Local Open Scope string_scope.
Definition ex_id1 : bytes := s "0000000a".
Definition ex_id2 : bytes := s "0000000b".
Definition ex_m1 : msg :=
  mkMsg ex_id1 mt_request
    (req_pseudo (s "POST") (s "http") (s "example.com") (s "/p") (s "q=1") (s "HTTP/1.1") (s "10.0.0.1:9") (s "1700000000000") false)
    (map_headers [(s "Accept", s "*/*"); (s "X-A", s "1"); (s "X-A", s "2")] (s "example.com") 5 None)
    [(s "he", RNil); (s "llo", RNil); ([], REof)].
Definition ex_m2 : msg :=
  mkMsg ex_id1 mt_response
    (res_pseudo (s "HTTP/1.1") 200 (s "200 OK") (s "1700000000001") true)
    [(s "Content-Type", s "text/plain")]
    [(s "ok", REof)].
Definition ex_m3 : msg :=
  mkMsg ex_id2 mt_request
    (req_pseudo (s "GET") (s "https") (s "h") (s "/") [] (s "HTTP/2.0") [] (s "1700000000002") false)
    [] [].

(* an interleaving of the three messages' frames, m1's header map iterated
   in reverse *)
Definition ex_l1 := msg_frames ex_m1 (rev (m_hdrs ex_m1)).
Definition ex_l2 := msg_frames ex_m2 (m_hdrs ex_m2).
Definition ex_l3 := msg_frames ex_m3 (m_hdrs ex_m3).

Fixpoint zip3 (a b c : list frame) (fuel : nat) : list frame :=
  match fuel with
  | O => []
  | S k => match a with
           | x :: a' => x :: zip3 b c a' k
           | [] => match b with
                   | y :: b' => y :: zip3 c a b' k
                   | [] => match c with z :: c' => z :: zip3 a b c' k | [] => [] end
                   end
           end
  end.
Definition ex_fs := zip3 ex_l1 ex_l2 ex_l3 100.

Example C19_example_messages_meet_hypotheses :
  NoDup (map mkey [ex_m1; ex_m2; ex_m3]) /\ Forall wf_msg [ex_m1; ex_m2; ex_m3]
  /\ Forall2 msg_spec [ex_m1; ex_m2; ex_m3] [ex_l1; ex_l2; ex_l3].
Proof.
  split; [|split].
  - repeat constructor; cbn; intuition discriminate.
  - repeat constructor; vm_compute; reflexivity.
  - repeat constructor.
    + exists (rev (m_hdrs ex_m1)). split; [symmetry; apply Permutation_rev|reflexivity].
    + exists (m_hdrs ex_m2). split; reflexivity.
    + exists (m_hdrs ex_m3). split; reflexivity.
Qed.

Example C19_example_stream :
  c19_stream_ok [ex_m1; ex_m2; ex_m3] ex_fs = true
  /\ dec_stream (enc_stream ex_fs) = (ex_fs, FinErr EEof)
  /\ List.length ex_fs = 31%nat
  /\ c19_stream_ok [ex_m1; ex_m2; ex_m3] (tl ex_fs) = false.
Proof. vm_compute. repeat split; reflexivity. Qed.

Example C19_example_merge : Merge [[1; 2]; [3]]%nat [1; 3; 2]%nat.
Proof.
  apply (Merge_cons [] 1%nat [2%nat] [[3%nat]]).
  apply (Merge_cons [[2%nat]] 3%nat [] []).
  apply (Merge_cons [] 2%nat [] [[]]).
  apply Merge_nil. repeat constructor.
Qed.

Example C19_example_reader_on_hostile_lengths :
  dec_stream panic_witness = ([], FinErr EUnexpected)
  /\ dec_stream_orig panic_witness = ([], FinPanic)
  /\ ~ no_wrap panic_witness.
Proof. vm_compute. repeat split; try reflexivity. intros H. discriminate H. Qed.

(* hypotheses of the codec theorems are met by ordinary frames *)
Example C19_example_roundtrip_hypotheses :
  wf_frame (FHeader ex_id1 mt_request (s ":method") (s "POST"))
  /\ wf_frame (FData ex_id1 mt_response 4294967295 true (s "tail"))
  /\ dec_frame (List.app (enc_frame (FData ex_id1 mt_response 4294967295 true (s "tail"))) (s "rest"))
     = Res (FData ex_id1 mt_response 4294967295 true (s "tail")) (s "rest").
Proof. vm_compute. repeat split; reflexivity. Qed.

Example C19_example_data_contiguous :
  let unders := [(s "ab", RNil); ([], RNil); (s "c", ROther); (s "d", REof); ([], REof)] in
  N.of_nat (List.length unders) <= two32
  /\ map fidx (body_log ex_id1 mt_request unders) = [0; 1; 2; 3; 4]
  /\ map fterm (body_log ex_id1 mt_request unders) = [false; false; false; true; true]
  /\ List.concat (map fdata (body_log ex_id1 mt_request unders)) = s "abcd".
Proof. vm_compute. repeat split; try reflexivity. intros H; discriminate H. Qed.

Example C19_example_oracle_parts :
  keys_distinctb (map mkey [ex_m1; ex_m2; ex_m3]) = true
  /\ keys_distinctb (map mkey [tm1; tm2]) = false
  /\ msg_pseudo_okb ex_m1 ex_l1 = true /\ msg_headers_okb ex_m1 ex_l1 = true
  /\ msg_data_okb ex_m1 ex_l1 = true /\ msg_data_okb ex_m1 (removelast ex_l1) = false
  /\ wire_id (s "0123456789abcdef") = Some (s "01234567") /\ wire_id (s "1234567") = None
  /\ itoa 1700000000123 = s "1700000000123" /\ itoa 0 = s "0"
  /\ ts_okb 1700000000000 1700000000200 (s "1700000000123") = true
  /\ ts_okb 1700000000000 1700000000200 (s "1700000000201") = false
  /\ ts_okb 0 10 (s "") = false /\ ts_okb 0 10 (s "+5") = false.
Proof. vm_compute. repeat split; reflexivity. Qed.

(* a subscriber with a hole in a body is rejected; prefix / late joiner are accepted *)
Example C19_example_subscriber :
  let b := body_log ex_id1 mt_request [(s "a", RNil); (s "b", RNil); (s "c", RNil); (s "d", REof)] in
  let other := body_log ex_id2 mt_request [(s "x", REof)] in
  let ref := List.app (firstn 2 b) (List.app other (skipn 2 b)) in
  c19_subscriber_ok ref (firstn 3 ref) = true
  /\ c19_subscriber_ok ref (skipn 1 ref) = true
  /\ c19_subscriber_ok ref [] = true
  /\ c19_subscriber_ok ref (List.app (firstn 1 b) (skipn 3 b)) = false
  /\ c19_subscriber_ok ref (List.app other (List.app (firstn 2 b) (skipn 3 b))) = false.
Proof. vm_compute. repeat split; reflexivity. Qed.
