(* C19 — body logger, interleaving of whole frames, demultiplexing, and the
   equivalence of the executable oracles with the specification. *)
From Coq Require Import List NArith Bool Ascii Arith Lia Permutation.
From Coq Require Import ZifyBool ZifyNat ZifyN.
From Martian.C19 Require Import Model Proofs_Codec.
Import ListNotations.
Open Scope N_scope.

(* ------------------------------------------------------------------ *)
(* bodyLogger                                                           *)
(* ------------------------------------------------------------------ *)

Lemma bl_run_cons : forall id mt st u t,
  bl_run id mt st (u :: t) =
  (u :: fst (bl_run id mt (u32 (st + 1)) t),
   FData id mt st (is_eof (snd u)) (fst u) :: snd (bl_run id mt (u32 (st + 1)) t)).
Proof.
  intros. cbn [bl_run bl_read]. destruct (bl_run id mt (u32 (st + 1)) t). reflexivity.
Qed.

Lemma bl_run_fst : forall id mt unders st, fst (bl_run id mt st unders) = unders.
Proof.
  induction unders as [|u t IH]; intros st.
  - reflexivity.
  - rewrite bl_run_cons. cbn [fst]. rewrite IH. reflexivity.
Qed.

Lemma bl_run_data : forall id mt unders st,
  map fdata (snd (bl_run id mt st unders)) = map fst unders.
Proof.
  induction unders as [|u t IH]; intros st.
  - reflexivity.
  - rewrite bl_run_cons. cbn [snd map fdata]. rewrite IH. reflexivity.
Qed.

Lemma bl_run_term : forall id mt unders st,
  map fterm (snd (bl_run id mt st unders)) = map (fun u => is_eof (snd u)) unders.
Proof.
  induction unders as [|u t IH]; intros st.
  - reflexivity.
  - rewrite bl_run_cons. cbn [snd map fterm]. rewrite IH. reflexivity.
Qed.

Lemma bl_run_length : forall id mt unders st,
  List.length (snd (bl_run id mt st unders)) = List.length unders.
Proof.
  induction unders as [|u t IH]; intros st.
  - reflexivity.
  - rewrite bl_run_cons. cbn [snd List.length]. rewrite IH. reflexivity.
Qed.

Lemma bl_run_keys : forall id mt unders st,
  Forall (fun f => is_data f = true /\ fkey f = (id, mt)) (snd (bl_run id mt st unders)).
Proof.
  induction unders as [|u t IH]; intros st.
  - constructor.
  - rewrite bl_run_cons. cbn [snd]. constructor; [split; reflexivity|apply IH].
Qed.

Lemma bl_run_idx : forall id mt unders st, st < two32 ->
  map fidx (snd (bl_run id mt st unders)) =
  map (fun j => u32 (st + N.of_nat j)) (seq 0 (List.length unders)).
Proof.
  induction unders as [|u t IH]; intros st Hst.
  - reflexivity.
  - rewrite bl_run_cons. cbn [snd map fidx List.length seq].
    rewrite IH by apply u32_lt. f_equal.
    + cbn [N.of_nat]. rewrite N.add_0_r, u32_small by exact Hst. reflexivity.
    + rewrite <- seq_shift, map_map. apply map_ext. intros j. unfold u32.
      rewrite N.add_mod_idemp_l by (unfold two32; lia). f_equal. lia.
Qed.

Lemma last_map : forall {A B} (f : A -> B) l d, last (map f l) (f d) = f (last l d).
Proof.
  induction l as [|x [|y t] IH]; intros d; try reflexivity.
  change (map f (x :: y :: t)) with (f x :: map f (y :: t)).
  change (last (f x :: map f (y :: t)) (f d)) with (last (map f (y :: t)) (f d)).
  rewrite IH. reflexivity.
Qed.

(* Data frames of one body: contiguous indices from 0, concatenation = the
   bytes the consumer read, terminal flags = "that Read returned io.EOF". *)
Lemma data_contiguous : forall id mt unders,
  N.of_nat (List.length unders) <= two32 ->
  let fs := body_log id mt unders in
  List.length fs = List.length unders
  /\ map fidx fs = map N.of_nat (seq 0 (List.length unders))
  /\ concat (map fdata fs) = concat (map fst unders)
  /\ map fterm fs = map (fun u => is_eof (snd u)) unders
  /\ Forall (fun f => is_data f = true /\ fkey f = (id, mt)) fs.
Proof.
  intros id mt unders Hk fs. subst fs. unfold body_log.
  split; [apply bl_run_length|]. split; [|split; [|split]].
  - rewrite bl_run_idx by (unfold two32; lia). apply map_ext_in. intros j Hj.
    apply in_seq in Hj. rewrite N.add_0_l. apply u32_small. lia.
  - rewrite bl_run_data. reflexivity.
  - apply bl_run_term.
  - apply bl_run_keys.
Qed.

Lemma data_last_terminal : forall id mt unders,
  fterm (last (body_log id mt unders) (FData id mt 0 false [])) =
  is_eof (snd (last unders ([], RNil))).
Proof.
  intros id mt unders.
  change false with (fterm (FData id mt 0 false [])) at 1.
  rewrite <- (last_map fterm). unfold body_log. rewrite bl_run_term.
  exact (last_map (fun u : read_result => is_eof (snd u)) unders ([], RNil)).
Qed.

Lemma passthrough : forall id mt unders, body_returns id mt unders = unders.
Proof. intros. unfold body_returns. apply bl_run_fst. Qed.

(* ------------------------------------------------------------------ *)
(* boolean equalities                                                   *)
(* ------------------------------------------------------------------ *)

Lemma bytes_eqb_eq : forall a b, bytes_eqb a b = true <-> a = b.
Proof.
  induction a as [|x a IH]; intros [|y b]; cbn [bytes_eqb]; split; intros H;
    try discriminate; try reflexivity.
  - apply andb_true_iff in H. destruct H as [H1 H2].
    apply Ascii.eqb_eq in H1. apply IH in H2. subst. reflexivity.
  - inversion H; subst. apply andb_true_iff. split; [apply Ascii.eqb_refl|apply IH; reflexivity].
Qed.

Lemma frame_eqb_eq : forall a b, frame_eqb a b = true <-> a = b.
Proof.
  intros [i m n v|i m x t d] [i' m' n' v'|i' m' x' t' d']; cbn [frame_eqb]; split; intros H;
    try discriminate.
  - rewrite !andb_true_iff in H. destruct H as [[[H1 H2] H3] H4].
    apply bytes_eqb_eq in H1, H3, H4. apply N.eqb_eq in H2. subst. reflexivity.
  - inversion H; subst. rewrite !andb_true_iff. repeat split;
      try (apply bytes_eqb_eq; reflexivity); apply N.eqb_refl.
  - rewrite !andb_true_iff in H. destruct H as [[[[H1 H2] H3] H4] H5].
    apply bytes_eqb_eq in H1, H5. apply N.eqb_eq in H2, H3. apply Bool.eqb_prop in H4.
    subst. reflexivity.
  - inversion H; subst. rewrite !andb_true_iff. repeat split;
      try (apply bytes_eqb_eq; reflexivity); try apply N.eqb_refl. apply Bool.eqb_reflx.
Qed.

Section ListEq.
  Context {A : Type} (eqb : A -> A -> bool).
  Hypothesis eqb_eq : forall x y, eqb x y = true <-> x = y.

  Lemma list_eqb_eq : forall a b, list_eqb eqb a b = true <-> a = b.
  Proof.
    induction a as [|x a IH]; intros [|y b]; cbn [list_eqb]; split; intros H;
      try discriminate; try reflexivity.
    - apply andb_true_iff in H. destruct H as [H1 H2].
      apply eqb_eq in H1. apply IH in H2. subst. reflexivity.
    - inversion H; subst. apply andb_true_iff. split; [apply eqb_eq|apply IH]; reflexivity.
  Qed.

  Lemma remove1_some : forall x l l', remove1 eqb x l = Some l' -> Permutation l (x :: l').
  Proof.
    induction l as [|y t IH]; intros l' H; cbn [remove1] in H; [discriminate|].
    destruct (eqb x y) eqn:E.
    - apply eqb_eq in E. inversion H; subst. reflexivity.
    - destruct (remove1 eqb x t) as [t'|] eqn:Et; [|discriminate]. inversion H; subst.
      rewrite (IH t' eq_refl). apply perm_swap.
  Qed.

  Lemma remove1_none : forall x l, remove1 eqb x l = None -> ~ In x l.
  Proof.
    induction l as [|y t IH]; intros H; cbn [remove1] in H; [intros []|].
    destruct (eqb x y) eqn:E; [discriminate|].
    destruct (remove1 eqb x t) eqn:Et; [discriminate|].
    intros [->|Hin].
    - assert (eqb x x = true) by (apply eqb_eq; reflexivity). congruence.
    - exact (IH eq_refl Hin).
  Qed.

  Lemma perm_b_iff : forall l1 l2, perm_b eqb l1 l2 = true <-> Permutation l1 l2.
  Proof.
    induction l1 as [|x t IH]; intros l2; cbn [perm_b].
    - destruct l2; split; intros H; try reflexivity; try discriminate.
      apply Permutation_nil in H. discriminate.
    - destruct (remove1 eqb x l2) as [l2'|] eqn:E.
      + apply remove1_some in E. rewrite IH. split; intros H.
        * rewrite E. constructor. exact H.
        * rewrite E in H. apply Permutation_cons_inv in H. exact H.
      + apply remove1_none in E. split; [discriminate|]. intros H. exfalso. apply E.
        apply (Permutation_in x H). left. reflexivity.
  Qed.
End ListEq.

Lemma key_eqb_eq : forall k k', key_eqb k k' = true <-> k = k'.
Proof.
  intros [i m] [i' m']. unfold key_eqb. cbn [fst snd]. rewrite andb_true_iff, bytes_eqb_eq, N.eqb_eq.
  split; [intros [-> ->]; reflexivity|intros H; inversion H; auto].
Qed.

Lemma keyb_iff : forall k f, keyb k f = true <-> fkey f = k.
Proof. intros. unfold keyb. rewrite key_eqb_eq. split; auto. Qed.

Lemma keyb_false : forall k f, fkey f <> k -> keyb k f = false.
Proof.
  intros k f H. destruct (keyb k f) eqn:E; [|reflexivity]. apply keyb_iff in E. contradiction.
Qed.

(* ------------------------------------------------------------------ *)
(* interleaving of whole frames                                         *)
(* ------------------------------------------------------------------ *)

(* [Merge ls out]: out is an interleaving of the lists ls, each keeping its
   own order.  This is what Stream.loop produces: every sender hands over one
   whole frame at a time through the unbuffered channel, the single writer
   goroutine writes each with one Write call. *)
Inductive Merge {A : Type} : list (list A) -> list A -> Prop :=
| Merge_nil : forall ls, Forall (fun l => l = []) ls -> Merge ls []
| Merge_cons : forall pre x l post out,
    Merge (pre ++ l :: post) out -> Merge (pre ++ (x :: l) :: post) (x :: out).

Lemma Merge_in : forall {A} (ls : list (list A)) out, Merge ls out ->
  forall f, In f out -> exists l, In l ls /\ In f l.
Proof.
  intros A ls out H. induction H as [ls H|pre x l post out H IH]; intros f Hin.
  - destruct Hin.
  - destruct Hin as [<-|Hin].
    + exists (x :: l). split; [apply in_or_app; right; left; reflexivity|left; reflexivity].
    + destruct (IH f Hin) as (l' & Hl' & Hf). apply in_app_or in Hl'.
      destruct Hl' as [Hl'|[<-|Hl']].
      * exists l'. split; [apply in_or_app; left; exact Hl'|exact Hf].
      * exists (x :: l). split; [apply in_or_app; right; left; reflexivity|right; exact Hf].
      * exists l'. split; [apply in_or_app; right; right; exact Hl'|exact Hf].
Qed.

Lemma Forall2_len : forall {A B} (R : A -> B -> Prop) la lb,
  Forall2 R la lb -> List.length la = List.length lb.
Proof. intros A B R la lb H. induction H; cbn; congruence. Qed.

Lemma filter_skip : forall keys ls x out,
  Forall2 (fun k l => filter (keyb k) out = l) keys ls ->
  ~ In (fkey x) keys ->
  Forall2 (fun k l => filter (keyb k) (x :: out) = l) keys ls.
Proof.
  intros keys ls x out H. induction H as [|k l keys ls Hk H IH]; intros Hn.
  - constructor.
  - constructor.
    + cbn [filter]. rewrite keyb_false; [exact Hk|]. intros E. apply Hn. left. auto.
    + apply IH. intros Hin. apply Hn. right. exact Hin.
Qed.

Theorem merge_demux : forall ls out, Merge ls out ->
  forall keys, NoDup keys ->
  Forall2 (fun k l => Forall (fun f => fkey f = k) l) keys ls ->
  Forall2 (fun k l => filter (keyb k) out = l) keys ls.
Proof.
  intros ls out H. induction H as [ls H|pre x l post out H IH]; intros keys Hnd HF.
  - cbn [filter]. clear Hnd. induction HF as [|k l keys ls _ _ IH]; [constructor|].
    inversion H; subst. constructor; [reflexivity|apply IH; assumption].
  - apply Forall2_app_inv_r in HF. destruct HF as (kpre & krest & Hpre & Hrest & ->).
    inversion Hrest as [|k ? kpost ? Hk Hpost]; subst.
    inversion Hk as [|? ? Hx Hl]; subst.
    assert (HF' : Forall2 (fun k l => Forall (fun f => fkey f = k) l)
                    (kpre ++ fkey x :: kpost) (pre ++ l :: post)).
    { apply Forall2_app; [exact Hpre|constructor; [exact Hl|exact Hpost]]. }
    specialize (IH _ Hnd HF').
    apply Forall2_app_inv_r in IH. destruct IH as (kpre' & krest' & Ipre & Irest & E).
    assert (Hlen : List.length kpre' = List.length kpre).
    { apply Forall2_len in Ipre. apply Forall2_len in Hpre. congruence. }
    assert (kpre' = kpre /\ krest' = fkey x :: kpost) as [-> ->].
    { clear - E Hlen. revert kpre' E Hlen. induction kpre as [|a t IH]; intros [|b t'] E Hlen;
        cbn in *; try discriminate; auto.
      inversion E; subst. destruct (IH t') as [-> ->]; auto. }
    inversion Irest as [|? ? ? ? Ik Ipost]; subst.
    apply NoDup_remove_2 in Hnd.
    apply Forall2_app.
    + apply filter_skip; [exact Ipre|]. intros Hin. apply Hnd. apply in_or_app. left. exact Hin.
    + constructor.
      * cbn [filter]. assert (Ekx : keyb (fkey x) x = true) by (apply keyb_iff; reflexivity).
        rewrite Ekx. reflexivity.
      * apply filter_skip; [exact Ipost|]. intros Hin. apply Hnd. apply in_or_app. right. exact Hin.
Qed.

(* ------------------------------------------------------------------ *)
(* messages                                                             *)
(* ------------------------------------------------------------------ *)

(* the frames of one message, for some iteration order of its header map *)
Definition msg_spec (m : msg) (l : list frame) : Prop :=
  exists order, Permutation order (m_hdrs m) /\ l = msg_frames m order.

(* what a stream must decode to: every frame belongs to a logged message and,
   per (id, type), the frames are exactly that message's *)
Definition stream_spec (ms : list msg) (fs : list frame) : Prop :=
  Forall (fun f => Exists (fun m => fkey f = mkey m) ms) fs
  /\ Forall (fun m => msg_spec m (filter (keyb (mkey m)) fs)) ms.

Lemma hframes_app : forall id mt a b, hframes id mt (a ++ b) = hframes id mt a ++ hframes id mt b.
Proof. intros. unfold hframes. apply map_app. Qed.

Lemma hframes_length : forall id mt a, List.length (hframes id mt a) = List.length a.
Proof. intros. unfold hframes. apply map_length. Qed.

Lemma firstn_app_exact : forall {A} n (a b : list A), List.length a = n -> firstn n (a ++ b) = a.
Proof.
  intros A n a b <-. rewrite firstn_app, Nat.sub_diag, firstn_all. cbn. apply app_nil_r.
Qed.

Lemma skipn_app_exact : forall {A} n (a b : list A), List.length a = n -> skipn n (a ++ b) = b.
Proof.
  intros A n a b <-. rewrite skipn_app, Nat.sub_diag, skipn_all. reflexivity.
Qed.

Lemma msg_frames_split : forall m order,
  msg_frames m order =
  hframes (m_id m) (m_mt m) (m_pseudo m) ++ hframes (m_id m) (m_mt m) order
  ++ body_log (m_id m) (m_mt m) (m_reads m).
Proof. intros. unfold msg_frames. rewrite hframes_app, app_assoc. reflexivity. Qed.

Lemma msg_okb_iff : forall m l, msg_okb m l = true <-> msg_spec m l.
Proof.
  intros m l. unfold msg_okb, msg_pseudo_okb, msg_headers_okb, msg_data_okb, msg_spec.
  rewrite !andb_true_iff, !(list_eqb_eq frame_eqb frame_eqb_eq), (perm_b_iff frame_eqb frame_eqb_eq).
  split.
  - intros [[HP HH] HD].
    unfold hframes in HH at 1. apply Permutation_map_inv in HH.
    destruct HH as (order & EH & Hperm).
    exists order. split; [symmetry; exact Hperm|].
    rewrite msg_frames_split. unfold hframes at 2. rewrite <- EH, <- HP, <- HD.
    rewrite !firstn_skipn. reflexivity.
  - intros (order & Hperm & ->). rewrite msg_frames_split.
    assert (Hlo : List.length (hframes (m_id m) (m_mt m) order) = List.length (m_hdrs m)).
    { rewrite hframes_length. apply Permutation_length. exact Hperm. }
    rewrite firstn_app_exact by apply hframes_length.
    rewrite skipn_app_exact by apply hframes_length.
    rewrite firstn_app_exact by exact Hlo. rewrite skipn_app_exact by exact Hlo.
    repeat split. unfold hframes. apply Permutation_map. exact Hperm.
Qed.

Lemma c19_stream_ok_iff : forall ms fs, c19_stream_ok ms fs = true <-> stream_spec ms fs.
Proof.
  intros ms fs. unfold c19_stream_ok, stream_spec.
  rewrite andb_true_iff, !forallb_forall, !Forall_forall.
  split; intros [H1 H2]; split.
  - intros f Hf. specialize (H1 f Hf). apply existsb_exists in H1. destruct H1 as (m & Hm & Hk).
    apply Exists_exists. exists m. split; [exact Hm|]. apply keyb_iff in Hk. exact Hk.
  - intros m Hm. apply msg_okb_iff. apply H2. exact Hm.
  - intros f Hf. specialize (H1 f Hf). apply Exists_exists in H1. destruct H1 as (m & Hm & Hk).
    apply existsb_exists. exists m. split; [exact Hm|]. apply keyb_iff. exact Hk.
  - intros m Hm. apply msg_okb_iff. apply H2. exact Hm.
Qed.

Lemma c19_passthrough_ok_iff : forall unders wrapped,
  c19_passthrough_ok unders wrapped = true <-> wrapped = unders.
Proof.
  intros. unfold c19_passthrough_ok. apply list_eqb_eq.
  intros [a e] [b e']. unfold rr_eqb. cbn [fst snd]. rewrite andb_true_iff, bytes_eqb_eq.
  split.
  - intros [-> H]. destruct e, e'; try discriminate; reflexivity.
  - intros H. inversion H; subst. split; [reflexivity|]. destruct e'; reflexivity.
Qed.

Lemma msg_frames_keys : forall m order, Forall (fun f => fkey f = mkey m) (msg_frames m order).
Proof.
  intros m order. unfold msg_frames. apply Forall_app. split.
  - apply Forall_forall. intros f Hf. unfold hframes in Hf. apply in_map_iff in Hf.
    destruct Hf as (h & <- & _). reflexivity.
  - unfold body_log. eapply Forall_impl; [|apply bl_run_keys]. intros f [_ H]. exact H.
Qed.

(* ------------------------------------------------------------------ *)
(* well-formed messages produce well-formed frames                      *)
(* ------------------------------------------------------------------ *)

Definition wf_msg (m : msg) : Prop :=
  List.length (m_id m) = 8%nat /\ m_mt m < 256
  /\ Forall (fun h => len (fst h) < two32 /\ len (snd h) < two32) (m_pseudo m ++ m_hdrs m)
  /\ Forall (fun u : read_result => len (fst u) < two32) (m_reads m).

Lemma bl_run_wf : forall id mt unders st,
  List.length id = 8%nat -> mt < 256 -> st < two32 ->
  Forall (fun u : read_result => len (fst u) < two32) unders ->
  Forall wf_frame (snd (bl_run id mt st unders)).
Proof.
  induction unders as [|u t IH]; intros st Hid Hmt Hst Hu.
  - constructor.
  - inversion Hu; subst. rewrite bl_run_cons. cbn [snd]. constructor.
    + cbn [wf_frame]. auto.
    + apply IH; auto. apply u32_lt.
Qed.

Lemma msg_frames_wf : forall m order, wf_msg m -> Permutation order (m_hdrs m) ->
  Forall wf_frame (msg_frames m order).
Proof.
  intros m order (Hid & Hmt & Hh & Hr) Hperm. unfold msg_frames. apply Forall_app. split.
  - assert (Hh' : Forall (fun h => len (fst h) < two32 /\ len (snd h) < two32) (m_pseudo m ++ order)).
    { apply Forall_app in Hh. destruct Hh as [Hp Hm]. apply Forall_app. split; [exact Hp|].
      eapply Permutation_Forall; [symmetry; exact Hperm|exact Hm]. }
    unfold hframes. apply Forall_forall. intros f Hf. apply in_map_iff in Hf.
    destruct Hf as (h & <- & Hin). rewrite Forall_forall in Hh'. destruct (Hh' h Hin).
    cbn [wf_frame]. auto.
  - unfold body_log. apply bl_run_wf; auto. unfold two32. lia.
Qed.

(* ------------------------------------------------------------------ *)
(* the whole stream                                                     *)
(* ------------------------------------------------------------------ *)

Lemma Forall2_in_r : forall {A B} (R : A -> B -> Prop) la lb, Forall2 R la lb ->
  forall b, In b lb -> exists a, In a la /\ R a b.
Proof.
  intros A B R la lb H. induction H as [|a b la lb Hab H IH]; intros b' Hin.
  - destruct Hin.
  - destruct Hin as [<-|Hin].
    + exists a. split; [left; reflexivity|exact Hab].
    + destruct (IH b' Hin) as (a' & Ha' & HR). exists a'. split; [right; exact Ha'|exact HR].
Qed.

Theorem logged_stream_demux : forall ms ls fs,
  NoDup (map mkey ms) -> Forall2 msg_spec ms ls -> Merge ls fs -> stream_spec ms fs.
Proof.
  intros ms ls fs Hnd Hspec Hmerge.
  assert (Hkeys : Forall2 (fun k l => Forall (fun f => fkey f = k) l) (map mkey ms) ls).
  { clear - Hspec. induction Hspec as [|m l ms ls Hm _ IH]; cbn [map]; constructor; [|exact IH].
    destruct Hm as (order & _ & ->). apply msg_frames_keys. }
  pose proof (merge_demux ls fs Hmerge (map mkey ms) Hnd Hkeys) as Hdemux.
  split.
  - apply Forall_forall. intros f Hf.
    destruct (Merge_in ls fs Hmerge f Hf) as (l & Hl & Hfl).
    destruct (Forall2_in_r _ _ _ Hspec l Hl) as (m & Hm & (order & _ & ->)).
    apply Exists_exists. exists m. split; [exact Hm|].
    pose proof (msg_frames_keys m order) as Hk. rewrite Forall_forall in Hk. apply Hk. exact Hfl.
  - clear - Hspec Hdemux. induction Hspec as [|m l ms ls Hm _ IH]; [constructor|].
    cbn [map] in Hdemux. inversion Hdemux; subst. constructor; [exact Hm|apply IH; assumption].
Qed.

Theorem logged_stream_decodes : forall ms ls fs,
  Forall wf_msg ms -> Forall2 msg_spec ms ls -> Merge ls fs ->
  dec_stream (enc_stream fs) = (fs, FinErr EEof).
Proof.
  intros ms ls fs Hwf Hspec Hmerge. apply stream_roundtrip.
  apply Forall_forall. intros f Hf.
  destruct (Merge_in ls fs Hmerge f Hf) as (l & Hl & Hfl).
  destruct (Forall2_in_r _ _ _ Hspec l Hl) as (m & Hm & (order & Hperm & ->)).
  rewrite Forall_forall in Hwf.
  pose proof (msg_frames_wf m order (Hwf m Hm) Hperm) as H. rewrite Forall_forall in H. auto.
Qed.
