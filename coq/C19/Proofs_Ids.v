(* C19 — only the first 8 bytes of a message ID reach the wire (newFrame:
   id[:8]); marbl.Modifier passes 16-character context IDs.  Two messages
   whose IDs differ after the 8th byte cannot be told apart in the stream. *)
From Coq Require Import List NArith Bool Ascii String Permutation.
From Martian.C19 Require Import Model Proofs_Codec Proofs_Stream.
Import ListNotations.
Open Scope N_scope.
Local Open Scope string_scope.

Definition tid1 : bytes := s "aaaaaaaa11111111".
Definition tid2 : bytes := s "aaaaaaaa22222222".
Definition tmsg (body : bytes) : msg := mkMsg (s "aaaaaaaa") mt_request [] [] [(body, REof)].
Definition tm1 := tmsg (s "x").
Definition tm2 := tmsg (s "y").
Definition tfs : list frame := msg_frames tm1 (m_hdrs tm1) ++ msg_frames tm2 (m_hdrs tm2).

Lemma id_truncation_refutes_demux :
  tid1 <> tid2
  /\ wire_id tid1 = Some (m_id tm1) /\ wire_id tid2 = Some (m_id tm2) /\ m_mt tm1 = m_mt tm2
  /\ wf_msg tm1 /\ wf_msg tm2
  /\ Merge [msg_frames tm1 (m_hdrs tm1); msg_frames tm2 (m_hdrs tm2)] tfs
  /\ ~ stream_spec [tm1; tm2] tfs.
Proof.
  split; [discriminate|]. split; [reflexivity|]. split; [reflexivity|]. split; [reflexivity|].
  split; [repeat constructor; vm_compute; reflexivity|].
  split; [repeat constructor; vm_compute; reflexivity|].
  split.
  - vm_compute.
    match goal with |- Merge [[?f1]; [?f2]] _ =>
      apply (Merge_cons [] f1 [] [[f2]]); apply (Merge_cons [[]] f2 [] []) end.
    apply Merge_nil. repeat constructor.
  - intros H. apply c19_stream_ok_iff in H. vm_compute in H. discriminate H.
Qed.
