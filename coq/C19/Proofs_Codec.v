(* C19 — codec proofs: be32/de32, take/slice, frame round trip, totality of
   the repaired decoder, the defect of the original one. *)
From Coq Require Import List NArith Bool Ascii String Arith Lia ZArith.
From Coq Require Import ZifyBool ZifyNat ZifyN.
From Martian.C19 Require Import Model.
Import ListNotations.
Open Scope N_scope.

Ltac Zify.zify_post_hook ::= Z.div_mod_to_equations.

(* ------------------------------------------------------------------ *)
(* len / take / slice                                                   *)
(* ------------------------------------------------------------------ *)

Lemma len_acc_spec : forall l a, len_acc l a = a + N.of_nat (List.length l).
Proof.
  induction l as [|x t IH]; intros a; cbn [len_acc List.length].
  - lia.
  - rewrite IH. lia.
Qed.

Lemma len_spec : forall l, len l = N.of_nat (List.length l).
Proof. intros l. unfold len. rewrite len_acc_spec. lia. Qed.

Lemma len_nil : len [] = 0.
Proof. reflexivity. Qed.

Lemma len_cons : forall x l, len (x :: l) = N.succ (len l).
Proof. intros. rewrite !len_spec. cbn [List.length]. lia. Qed.

Lemma len_app : forall a b, len (a ++ b) = len a + len b.
Proof. intros. rewrite !len_spec, app_length. lia. Qed.

Lemma len_0_nil : forall l, len l = 0 -> l = [].
Proof. intros [|x t] H; [reflexivity|]. rewrite len_cons in H. lia. Qed.

Lemma take_acc_0 : forall l acc, take_acc l 0 acc = Some (rev acc, l).
Proof.
  intros l acc. destruct l; cbn [take_acc N.eqb]; unfold rev'; rewrite <- rev_alt; reflexivity.
Qed.

Lemma take_acc_spec : forall l n acc,
  take_acc l n acc =
  if n <=? len l
  then Some (rev acc ++ firstn (N.to_nat n) l, skipn (N.to_nat n) l)
  else None.
Proof.
  induction l as [|x t IH]; intros n acc.
  - destruct (N.eq_dec n 0) as [->|Hn].
    + rewrite take_acc_0. cbn. rewrite app_nil_r. reflexivity.
    + cbn [take_acc]. destruct (N.eqb_spec n 0); [contradiction|].
      rewrite len_nil. destruct (N.leb_spec n 0); [lia|reflexivity].
  - destruct (N.eq_dec n 0) as [->|Hn].
    + rewrite take_acc_0. destruct (N.leb_spec 0 (len (x :: t))); [|lia].
      cbn [N.to_nat firstn skipn]. rewrite app_nil_r. reflexivity.
    + cbn [take_acc]. destruct (N.eqb_spec n 0); [contradiction|].
      rewrite IH. rewrite len_cons.
      assert (Hs : N.to_nat n = S (N.to_nat (N.pred n))) by lia.
      rewrite Hs. cbn [firstn skipn rev].
      destruct (N.leb_spec (N.pred n) (len t)); destruct (N.leb_spec n (N.succ (len t))); try lia.
      * rewrite <- app_assoc. reflexivity.
      * reflexivity.
Qed.

Lemma take_spec : forall n l,
  take n l = if n <=? len l then Some (firstn (N.to_nat n) l, skipn (N.to_nat n) l) else None.
Proof. intros. unfold take. rewrite take_acc_spec. reflexivity. Qed.

Lemma take_app_exact : forall a r, take (len a) (a ++ r) = Some (a, r).
Proof.
  intros a r. rewrite take_spec, len_app.
  destruct (N.leb_spec (len a) (len a + len r)); [|lia].
  rewrite len_spec, Nat2N.id.
  rewrite firstn_app, Nat.sub_diag, firstn_all, skipn_app, Nat.sub_diag, skipn_all. cbn.
  rewrite app_nil_r. reflexivity.
Qed.

Lemma take_all : forall a, take (len a) a = Some (a, []).
Proof. intros a. rewrite <- (app_nil_r a) at 2. apply take_app_exact. Qed.

Lemma take_some_inv : forall n l a r, take n l = Some (a, r) -> l = a ++ r /\ len a = n.
Proof.
  intros n l a r. rewrite take_spec. destruct (N.leb_spec n (len l)) as [H|H]; [|discriminate].
  intros E. inversion E; subst. split.
  - symmetry. apply firstn_skipn.
  - rewrite len_spec in *. rewrite firstn_length_le by lia. lia.
Qed.

Lemma take_none_inv : forall n l, take n l = None -> len l < n.
Proof.
  intros n l. rewrite take_spec. destruct (N.leb_spec n (len l)); [discriminate|auto].
Qed.

Lemma slice_some : forall s a b, a <= b -> b <= len s -> exists m, slice s a b = Some m.
Proof.
  intros s a b Hab Hb. unfold slice.
  destruct (N.leb_spec a b); [|lia]. destruct (N.leb_spec b (len s)); [|lia]. cbn [andb].
  rewrite (take_spec a s). destruct (N.leb_spec a (len s)); [|lia].
  rewrite take_spec.
  assert (Hl : len (skipn (N.to_nat a) s) = len s - a).
  { rewrite !len_spec, skipn_length. rewrite len_spec in *. lia. }
  rewrite Hl. destruct (N.leb_spec (b - a) (len s - a)); [|lia]. eauto.
Qed.

Lemma slice_prefix : forall n v, slice (n ++ v) 0 (len n) = Some n.
Proof.
  intros n v. unfold slice. rewrite len_app.
  destruct (N.leb_spec 0 (len n)); [|lia]. destruct (N.leb_spec (len n) (len n + len v)); [|lia].
  cbn [andb]. unfold take at 1. rewrite take_acc_0. cbn [rev].
  rewrite N.sub_0_r, take_app_exact. reflexivity.
Qed.

Lemma slice_suffix : forall n v, slice (n ++ v) (len n) (len (n ++ v)) = Some v.
Proof.
  intros n v. unfold slice. rewrite len_app.
  destruct (N.leb_spec (len n) (len n + len v)); [|lia].
  destruct (N.leb_spec (len n + len v) (len n + len v)); [|lia]. cbn [andb].
  rewrite take_app_exact. replace (len n + len v - len n) with (len v) by lia.
  rewrite take_all. reflexivity.
Qed.

(* ------------------------------------------------------------------ *)
(* big-endian 32                                                        *)
(* ------------------------------------------------------------------ *)

Lemma N_of_byte_of : forall n, N_of_ascii (byte_of n) = n mod 256.
Proof.
  intros n. unfold byte_of. apply N_ascii_embedding.
  apply N.mod_upper_bound. lia.
Qed.

Lemma de32_be32 : forall n, n < two32 -> de32 (be32 n) = n.
Proof.
  intros n Hn. unfold be32, de32, two32 in *. rewrite !N_of_byte_of. lia.
Qed.

Lemma de32_lt : forall a b c d, de32 [a; b; c; d] < two32.
Proof.
  intros a b c d. unfold de32, two32.
  pose proof (N_ascii_bounded a). pose proof (N_ascii_bounded b).
  pose proof (N_ascii_bounded c). pose proof (N_ascii_bounded d). lia.
Qed.

Lemma u32_small : forall n, n < two32 -> u32 n = n.
Proof. intros n H. unfold u32. apply N.mod_small. exact H. Qed.

Lemma u32_lt : forall n, u32 n < two32.
Proof. intros n. unfold u32. apply N.mod_upper_bound. unfold two32. lia. Qed.

Lemma trunc32_small : forall s, len s < two32 -> trunc32 s = s.
Proof. intros s H. unfold trunc32. rewrite u32_small by exact H. rewrite take_all. reflexivity. Qed.

(* ------------------------------------------------------------------ *)
(* read_full                                                            *)
(* ------------------------------------------------------------------ *)

Lemma read_full_app : forall a r, read_full (len a) (a ++ r) = inl (a, r).
Proof.
  intros a r. unfold read_full. destruct (N.eqb_spec (len a) 0) as [H|H].
  - apply len_0_nil in H. subst. reflexivity.
  - destruct a as [|x a']; [rewrite len_nil in H; lia|].
    change ((x :: a') ++ r) with (x :: (a' ++ r)) at 1.
    cbv iota. change (x :: a' ++ r) with ((x :: a') ++ r). rewrite take_app_exact. reflexivity.
Qed.

Lemma read_full_inv : forall n l a r, read_full n l = inl (a, r) -> l = a ++ r /\ len a = n.
Proof.
  intros n l a r. unfold read_full. destruct (N.eqb_spec n 0) as [->|Hn].
  - intros E. inversion E; subst. split; reflexivity.
  - destruct l as [|x t]; [discriminate|].
    destruct (take n (x :: t)) as [[a' r']|] eqn:Et; [|discriminate].
    intros E. inversion E; subst. apply take_some_inv in Et. exact Et.
Qed.

Lemma read_full_nil : forall n, n <> 0 -> read_full n [] = inr EEof.
Proof. intros n H. unfold read_full. destruct (N.eqb_spec n 0); [contradiction|reflexivity]. Qed.

Lemma read_full_8 : forall a b c d e f g h rest,
  read_full 8 (a :: b :: c :: d :: e :: f :: g :: h :: rest) = inl ([a; b; c; d; e; f; g; h], rest).
Proof.
  intros. unfold read_full. change (8 =? 0) with false. cbv iota. rewrite take_spec.
  destruct (N.leb_spec 8 (len (a :: b :: c :: d :: e :: f :: g :: h :: rest))) as [_|H].
  - reflexivity.
  - rewrite !len_cons in H. lia.
Qed.

Lemma read_full_9 : forall a b c d t e f g h rest,
  read_full 9 (a :: b :: c :: d :: t :: e :: f :: g :: h :: rest) = inl ([a; b; c; d; t; e; f; g; h], rest).
Proof.
  intros. unfold read_full. change (9 =? 0) with false. cbv iota. rewrite take_spec.
  destruct (N.leb_spec 9 (len (a :: b :: c :: d :: t :: e :: f :: g :: h :: rest))) as [_|H].
  - reflexivity.
  - rewrite !len_cons in H. lia.
Qed.

Lemma read_full_10_id : forall ft mt id rest, List.length id = 8%nat ->
  read_full 10 (ft :: mt :: id ++ rest) = inl (ft :: mt :: id, rest).
Proof.
  intros ft mt id rest H.
  replace 10 with (len (ft :: mt :: id)) by (rewrite len_spec; cbn [List.length]; rewrite H; reflexivity).
  change (ft :: mt :: id ++ rest) with ((ft :: mt :: id) ++ rest). apply read_full_app.
Qed.

(* a list of known N-length is a list of that many conses *)
Lemma len_succ_inv : forall l n, len l = N.succ n -> exists x t, l = x :: t /\ len t = n.
Proof.
  intros [|x t] n H.
  - rewrite len_nil in H. lia.
  - rewrite len_cons in H. exists x, t. split; [reflexivity|lia].
Qed.

Ltac len_destruct H :=
  repeat match type of H with
  | len ?l = 0 => apply len_0_nil in H; subst l
  | len ?l = ?n =>
      let x := fresh "x" in let t := fresh "t" in let E := fresh "E" in
      change n with (N.succ (N.pred n)) in H; cbn [N.pred Pos.pred_N Pos.pred_double] in H;
      apply len_succ_inv in H; destruct H as (x & t & E & H); subst l
  end.

(* ------------------------------------------------------------------ *)
(* decoder on well-shaped input                                         *)
(* ------------------------------------------------------------------ *)

Lemma dec_header_shape : forall add ft mt id nl vl nv r,
  List.length id = 8%nat -> N_of_ascii ft = ft_header -> nl < two32 -> vl < two32 ->
  add nl vl = len nv ->
  dec_frame_gen add (ft :: mt :: id ++ be32 nl ++ be32 vl ++ nv ++ r) =
  match slice nv 0 nl, slice nv nl (len nv) with
  | Some name, Some value => Res (FHeader id (N_of_ascii mt) name value) r
  | _, _ => Panic
  end.
Proof.
  intros add ft mt id nl vl nv r Hid Hft Hnl Hvl Hadd.
  unfold dec_frame_gen. rewrite read_full_10_id by exact Hid. cbv iota.
  rewrite Hft. change (ft_header =? ft_header) with true. cbv iota.
  change (be32 nl ++ be32 vl ++ nv ++ r) with
    (byte_of (nl / 16777216) :: byte_of (nl / 65536) :: byte_of (nl / 256) :: byte_of nl ::
     byte_of (vl / 16777216) :: byte_of (vl / 65536) :: byte_of (vl / 256) :: byte_of vl :: nv ++ r).
  rewrite read_full_8. cbv iota.
  change [byte_of (nl / 16777216); byte_of (nl / 65536); byte_of (nl / 256); byte_of nl] with (be32 nl).
  change [byte_of (vl / 16777216); byte_of (vl / 65536); byte_of (vl / 256); byte_of vl] with (be32 vl).
  rewrite !de32_be32 by assumption. rewrite Hadd, read_full_app. reflexivity.
Qed.

Lemma dec_data_shape : forall add ft mt id idx t dl data r,
  List.length id = 8%nat -> N_of_ascii ft = ft_data -> idx < two32 -> dl < two32 ->
  dl = len data ->
  dec_frame_gen add (ft :: mt :: id ++ be32 idx ++ [t] ++ be32 dl ++ data ++ r) =
  Res (FData id (N_of_ascii mt) idx (N_of_ascii t =? 1) data) r.
Proof.
  intros add ft mt id idx t dl data r Hid Hft Hidx Hdl Hlen.
  unfold dec_frame_gen. rewrite read_full_10_id by exact Hid. cbv iota.
  rewrite Hft. change (ft_data =? ft_header) with false. change (ft_data =? ft_data) with true. cbv iota.
  change (be32 idx ++ [t] ++ be32 dl ++ data ++ r) with
    (byte_of (idx / 16777216) :: byte_of (idx / 65536) :: byte_of (idx / 256) :: byte_of idx :: t ::
     byte_of (dl / 16777216) :: byte_of (dl / 65536) :: byte_of (dl / 256) :: byte_of dl :: data ++ r).
  rewrite read_full_9. cbv iota.
  change [byte_of (idx / 16777216); byte_of (idx / 65536); byte_of (idx / 256); byte_of idx] with (be32 idx).
  change [byte_of (dl / 16777216); byte_of (dl / 65536); byte_of (dl / 256); byte_of dl] with (be32 dl).
  rewrite !de32_be32 by assumption. rewrite Hlen, read_full_app. reflexivity.
Qed.

(* ------------------------------------------------------------------ *)
(* round trips                                                          *)
(* ------------------------------------------------------------------ *)

Definition wf_frame (f : frame) : Prop :=
  match f with
  | FHeader id mt n v => List.length id = 8%nat /\ mt < 256 /\ len n < two32 /\ len v < two32
  | FData id mt i _ d => List.length id = 8%nat /\ mt < 256 /\ i < two32 /\ len d < two32
  end.

Lemma N_of_byte_small : forall n, n < 256 -> N_of_ascii (byte_of n) = n.
Proof. intros n H. rewrite N_of_byte_of. apply N.mod_small. exact H. Qed.

Lemma header_roundtrip_gen : forall add id mt name value r,
  List.length id = 8%nat -> mt < 256 -> len name < two32 -> len value < two32 ->
  add (len name) (len value) = len name + len value ->
  dec_frame_gen add (enc_header id mt name value ++ r) = Res (FHeader id mt name value) r.
Proof.
  intros add id mt name value r Hid Hmt Hn Hv Hadd.
  unfold enc_header. rewrite !trunc32_small, !u32_small by assumption.
  change ((byte_of ft_header :: byte_of mt :: id ++ be32 (len name) ++ be32 (len value) ++ name ++ value) ++ r)
    with (byte_of ft_header :: byte_of mt :: (id ++ be32 (len name) ++ be32 (len value) ++ name ++ value) ++ r).
  rewrite <- !app_assoc.
  replace (name ++ value ++ r) with ((name ++ value) ++ r) by (rewrite app_assoc; reflexivity).
  rewrite (dec_header_shape add (byte_of ft_header) (byte_of mt) id (len name) (len value) (name ++ value) r);
    try assumption.
  - rewrite slice_prefix, slice_suffix. rewrite N_of_byte_small by exact Hmt. reflexivity.
  - reflexivity.
  - rewrite Hadd, len_app. reflexivity.
Qed.

Lemma header_roundtrip : forall id mt name value r,
  List.length id = 8%nat -> mt < 256 -> len name < two32 -> len value < two32 ->
  dec_frame (enc_header id mt name value ++ r) = Res (FHeader id mt name value) r.
Proof. intros. apply header_roundtrip_gen; auto. Qed.

(* the code as found round-trips too, as long as the sum does not wrap *)
Lemma header_roundtrip_orig : forall id mt name value r,
  List.length id = 8%nat -> mt < 256 -> len name + len value < two32 ->
  dec_frame_orig (enc_header id mt name value ++ r) = Res (FHeader id mt name value) r.
Proof.
  intros. apply header_roundtrip_gen; auto; try lia.
  unfold add_u32. apply u32_small. assumption.
Qed.

Lemma data_roundtrip_gen : forall add id mt idx term data r,
  List.length id = 8%nat -> mt < 256 -> idx < two32 -> len data < two32 ->
  dec_frame_gen add (enc_data id mt idx term data ++ r) = Res (FData id mt idx term data) r.
Proof.
  intros add id mt idx term data r Hid Hmt Hidx Hd.
  unfold enc_data. rewrite u32_small by assumption.
  change ((byte_of ft_data :: byte_of mt :: id ++ be32 idx ++ [byte_of (if term then 1 else 0)] ++ be32 (len data) ++ data) ++ r)
    with (byte_of ft_data :: byte_of mt :: (id ++ be32 idx ++ [byte_of (if term then 1 else 0)] ++ be32 (len data) ++ data) ++ r).
  rewrite <- !app_assoc.
  rewrite (dec_data_shape add (byte_of ft_data) (byte_of mt) id idx (byte_of (if term then 1 else 0)) (len data) data r);
    try assumption; try reflexivity.
  rewrite N_of_byte_small by exact Hmt.
  destruct term; reflexivity.
Qed.

Lemma data_roundtrip : forall id mt idx term data r,
  List.length id = 8%nat -> mt < 256 -> idx < two32 -> len data < two32 ->
  dec_frame (enc_data id mt idx term data ++ r) = Res (FData id mt idx term data) r.
Proof. intros. apply data_roundtrip_gen; auto. Qed.

Lemma frame_roundtrip : forall f r, wf_frame f -> dec_frame (enc_frame f ++ r) = Res f r.
Proof.
  intros [id mt n v|id mt i t d] r H; cbn [wf_frame enc_frame] in *.
  - destruct H as (H1 & H2 & H3 & H4). apply header_roundtrip; assumption.
  - destruct H as (H1 & H2 & H3 & H4). apply data_roundtrip; assumption.
Qed.

Lemma enc_frame_nonempty : forall f, (1 <= List.length (enc_frame f))%nat.
Proof. intros [id mt n v|id mt i t d]; cbn; lia. Qed.

Lemma dec_frame_nil : forall add, dec_frame_gen add [] = Err EEof.
Proof. reflexivity. Qed.

Lemma stream_roundtrip_f : forall fs fuel,
  Forall wf_frame fs -> (List.length (enc_stream fs) <= List.length fuel)%nat ->
  dec_stream_f add_u64 fuel (enc_stream fs) = (fs, FinErr EEof).
Proof.
  induction fs as [|f fs IH]; intros fuel Hwf Hfuel.
  - cbn [enc_stream flat_map]. destruct fuel; reflexivity.
  - inversion Hwf as [|? ? Hf Hfs]; subst.
    cbn [enc_stream flat_map] in *. fold (enc_stream fs) in *.
    rewrite app_length in Hfuel. pose proof (enc_frame_nonempty f) as Hne.
    destruct fuel as [|c fuel']; [cbn in Hfuel; lia|].
    cbn [dec_stream_f]. change (dec_frame_gen add_u64) with dec_frame.
    rewrite frame_roundtrip by exact Hf.
    rewrite IH; [reflexivity|exact Hfs|cbn in Hfuel; lia].
Qed.

Lemma stream_roundtrip : forall fs, Forall wf_frame fs ->
  dec_stream (enc_stream fs) = (fs, FinErr EEof).
Proof. intros fs H. unfold dec_stream. apply stream_roundtrip_f; [exact H|lia]. Qed.

(* ------------------------------------------------------------------ *)
(* totality: the repaired decoder never panics                          *)
(* ------------------------------------------------------------------ *)

Lemma dec_frame_never_panics : forall bs, dec_frame bs <> Panic.
Proof.
  intros bs. unfold dec_frame, dec_frame_gen.
  destruct (read_full 10 bs) as [[fh r1]|e] eqn:E10; [|discriminate].
  apply read_full_inv in E10. destruct E10 as [_ L10]. len_destruct L10.
  cbv iota.
  destruct (N_of_ascii x =? ft_header).
  - destruct (read_full 8 r1) as [[lens r2]|e] eqn:E8; [|discriminate].
    apply read_full_inv in E8. destruct E8 as [_ L8]. len_destruct L8. cbv iota.
    destruct (read_full _ r2) as [[nv r3]|e] eqn:Env; [|discriminate].
    apply read_full_inv in Env. destruct Env as [_ Lnv]. unfold add_u64 in Lnv.
    destruct (slice_some nv 0 (de32 [x9; x10; x11; x12])) as [m1 ->]; [lia|lia|].
    destruct (slice_some nv (de32 [x9; x10; x11; x12]) (len nv)) as [m2 ->]; [lia|lia|].
    discriminate.
  - destruct (N_of_ascii x =? ft_data); [|discriminate].
    destruct (read_full 9 r1) as [[desc r2]|e] eqn:E9; [|discriminate].
    apply read_full_inv in E9. destruct E9 as [_ L9]. len_destruct L9. cbv iota.
    destruct (read_full _ r2) as [[data r3]|e]; discriminate.
Qed.

(* a decoded frame consumes at least its 10-byte frame header *)
Lemma dec_frame_consumes : forall add bs f rest,
  dec_frame_gen add bs = Res f rest -> (List.length rest + 10 <= List.length bs)%nat.
Proof.
  intros add bs f rest. unfold dec_frame_gen.
  destruct (read_full 10 bs) as [[fh r1]|e] eqn:E10; [|discriminate].
  apply read_full_inv in E10. destruct E10 as [-> L10].
  assert (Hfh : List.length fh = 10%nat) by (rewrite len_spec in L10; lia).
  rewrite app_length, Hfh. clear L10.
  destruct fh as [|ft [|mt id]]; try discriminate.
  destruct (N_of_ascii ft =? ft_header).
  - destruct (read_full 8 r1) as [[lens r2]|e] eqn:E8; [|discriminate].
    apply read_full_inv in E8. destruct E8 as [-> _].
    destruct lens as [|a [|b [|c [|d [|e [|f0 [|g [|h [|]]]]]]]]]; try discriminate.
    destruct (read_full _ r2) as [[nv r3]|e'] eqn:Env; [|discriminate].
    apply read_full_inv in Env. destruct Env as [-> _].
    destruct (slice nv 0 _); [|discriminate]. destruct (slice nv _ _); [|discriminate].
    intros E. inversion E; subst. rewrite !app_length. lia.
  - destruct (N_of_ascii ft =? ft_data); [|discriminate].
    destruct (read_full 9 r1) as [[desc r2]|e] eqn:E9; [|discriminate].
    apply read_full_inv in E9. destruct E9 as [-> _].
    destruct desc as [|a [|b [|c [|d [|t [|e [|f0 [|g [|h [|]]]]]]]]]]; try discriminate.
    destruct (read_full _ r2) as [[data r3]|e'] eqn:Ed; [|discriminate].
    apply read_full_inv in Ed. destruct Ed as [-> _].
    intros E. inversion E; subst. rewrite !app_length. lia.
Qed.

Lemma dec_stream_f_total : forall fuel bs, (List.length bs <= List.length fuel)%nat ->
  exists fs e, dec_stream_f add_u64 fuel bs = (fs, FinErr e).
Proof.
  induction fuel as [|c fuel IH]; intros bs Hl.
  - destruct bs; [|cbn in Hl; lia]. exists [], EEof. reflexivity.
  - cbn [dec_stream_f]. destruct (dec_frame_gen add_u64 bs) as [f rest|e|] eqn:E.
    + apply dec_frame_consumes in E.
      destruct (IH rest) as (fs & e & ->); [cbn in Hl; lia|]. eauto.
    + eauto.
    + exfalso. exact (dec_frame_never_panics bs E).
Qed.

Lemma dec_stream_total : forall bs, exists fs e, dec_stream bs = (fs, FinErr e).
Proof. intros bs. unfold dec_stream. apply dec_stream_f_total. lia. Qed.

(* ------------------------------------------------------------------ *)
(* the reader as found                                                  *)
(* ------------------------------------------------------------------ *)

(* header frame "ABCDEFGH", nl = 0xFFFFFFFF, vl = 2, one payload byte *)
Definition panic_witness : bytes :=
  map ascii_of_N [1; 1; 65; 66; 67; 68; 69; 70; 71; 72; 255; 255; 255; 255; 0; 0; 0; 2; 65].

Lemma orig_reader_panics : dec_frame_orig panic_witness = Panic.
Proof. vm_compute. reflexivity. Qed.

Lemma repaired_reader_on_witness : dec_frame panic_witness = Err EUnexpected.
Proof. vm_compute. reflexivity. Qed.

(* The lengths a header frame declares, when the input is long enough to
   contain them. *)
Definition header_lens (bs : bytes) : option (N * N) :=
  match bs with
  | ft :: _ :: _ :: _ :: _ :: _ :: _ :: _ :: _ :: _ :: a :: b :: c :: d :: e :: f :: g :: h :: _ =>
      if N_of_ascii ft =? ft_header then Some (de32 [a; b; c; d], de32 [e; f; g; h]) else None
  | _ => None
  end.

Definition no_wrap (bs : bytes) : Prop :=
  match header_lens bs with Some (nl, vl) => nl + vl < two32 | None => True end.

(* The repair changes the result only for header frames whose declared
   lengths sum to 2^32 or more. *)
Lemma repair_conservative : forall bs, no_wrap bs -> dec_frame_orig bs = dec_frame bs.
Proof.
  intros bs. unfold no_wrap, dec_frame_orig, dec_frame, dec_frame_gen.
  destruct (read_full 10 bs) as [[fh r1]|e] eqn:E10; [|reflexivity].
  apply read_full_inv in E10. destruct E10 as [-> L10]. len_destruct L10.
  cbv iota. cbn [app header_lens].
  destruct (N_of_ascii x =? ft_header) eqn:Eft; [|reflexivity].
  destruct (read_full 8 r1) as [[lens r2]|e] eqn:E8; [|reflexivity].
  apply read_full_inv in E8. destruct E8 as [-> L8]. len_destruct L8.
  cbn [app]. cbv iota. intros Hnw.
  unfold add_u32, add_u64. rewrite u32_small by exact Hnw. reflexivity.
Qed.

(* ... and whenever the original reader panics, that is the reason *)
Lemma orig_panic_only_on_wrap : forall bs, dec_frame_orig bs = Panic -> ~ no_wrap bs.
Proof.
  intros bs Hp Hnw. rewrite (repair_conservative bs Hnw) in Hp.
  exact (dec_frame_never_panics bs Hp).
Qed.

(* ------------------------------------------------------------------ *)
(* reader oracle                                                        *)
(* ------------------------------------------------------------------ *)

Lemma c19_reader_ok_iff : forall obs,
  c19_reader_ok obs = true <-> exists e, snd obs = FinErr e.
Proof.
  intros [fs [e| |]]; cbn; split; intros H; eauto; try discriminate;
    destruct H as [e' H]; discriminate.
Qed.
