(* C19 — audit round: every function the driver uses for a verdict has its
   Prop-level meaning; the stream oracle is exactly "some interleaving of whole
   per-message frame lists"; decoded frames are well-formed; the totalised
   corners of Model.v are unreachable or guarded. *)
From Coq Require Import List NArith ZArith Bool Ascii Arith Lia Permutation.
From Coq Require Import ZifyBool ZifyNat ZifyN.
From Martian.C19 Require Import Model Proofs_Codec Proofs_Stream.
Import ListNotations.
Open Scope N_scope.

Ltac Zify.zify_post_hook ::= Z.div_mod_to_equations.

(* ------------------------------------------------------------------ *)
(* per-message parts (clause names pseudo_headers / headers / data_frames) *)
(* ------------------------------------------------------------------ *)

Lemma msg_pseudo_okb_iff : forall m l,
  msg_pseudo_okb m l = true <->
  firstn (List.length (m_pseudo m)) l = hframes (m_id m) (m_mt m) (m_pseudo m).
Proof. intros. unfold msg_pseudo_okb. apply (list_eqb_eq frame_eqb frame_eqb_eq). Qed.

Lemma msg_headers_okb_iff : forall m l,
  msg_headers_okb m l = true <->
  Permutation (firstn (List.length (m_hdrs m)) (skipn (List.length (m_pseudo m)) l))
              (hframes (m_id m) (m_mt m) (m_hdrs m)).
Proof. intros. unfold msg_headers_okb. apply (perm_b_iff frame_eqb frame_eqb_eq). Qed.

Lemma msg_data_okb_iff : forall m l,
  msg_data_okb m l = true <->
  skipn (List.length (m_hdrs m)) (skipn (List.length (m_pseudo m)) l)
  = body_log (m_id m) (m_mt m) (m_reads m).
Proof. intros. unfold msg_data_okb. apply (list_eqb_eq frame_eqb frame_eqb_eq). Qed.

Lemma msg_okb_parts : forall m l,
  msg_okb m l = true <->
  msg_pseudo_okb m l = true /\ msg_headers_okb m l = true /\ msg_data_okb m l = true.
Proof. intros. unfold msg_okb. rewrite !andb_true_iff. tauto. Qed.

(* ------------------------------------------------------------------ *)
(* distinct keys, wire ids                                              *)
(* ------------------------------------------------------------------ *)

Lemma keys_distinctb_iff : forall ks, keys_distinctb ks = true <-> NoDup ks.
Proof.
  induction ks as [|k t IH]; cbn [keys_distinctb].
  - split; [constructor|reflexivity].
  - rewrite andb_true_iff, negb_true_iff, IH. split.
    + intros [He Hn]. constructor; [|exact Hn]. intros Hin.
      assert (existsb (key_eqb k) t = true).
      { apply existsb_exists. exists k. split; [exact Hin|apply key_eqb_eq; reflexivity]. }
      congruence.
    + intros H. inversion H as [|? ? Hnin Hnd]; subst. split; [|exact Hnd].
      destruct (existsb (key_eqb k) t) eqn:E; [|reflexivity].
      apply existsb_exists in E. destruct E as (k' & Hin & Hk). apply key_eqb_eq in Hk. subst.
      contradiction.
Qed.

Lemma wire_id_some : forall id w,
  wire_id id = Some w <-> 8 <= len id /\ w = firstn 8 id.
Proof.
  intros id w. unfold wire_id. rewrite take_spec.
  destruct (N.leb_spec 8 (len id)) as [H|H].
  - change (N.to_nat 8) with 8%nat. split.
    + intros E. inversion E. auto.
    + intros [_ ->]. reflexivity.
  - split; [discriminate|]. intros [H' _]. lia.
Qed.

Lemma wire_id_none : forall id, wire_id id = None <-> len id < 8.
Proof.
  intros id. unfold wire_id. rewrite take_spec.
  destruct (N.leb_spec 8 (len id)) as [H|H]; split; intros; try discriminate; try lia; reflexivity.
Qed.

(* ------------------------------------------------------------------ *)
(* decimal: strconv.Itoa as modelled, and the :timestamp window          *)
(* ------------------------------------------------------------------ *)

Lemma undec_acc_app : forall a b k,
  undec_acc (a ++ b) k =
  match undec_acc a k with Some k' => undec_acc b k' | None => None end.
Proof.
  induction a as [|c a IH]; intros b k; cbn [app undec_acc].
  - reflexivity.
  - destruct ((48 <=? N_of_ascii c) && (N_of_ascii c <=? 57)); [apply IH|reflexivity].
Qed.

Lemma undec_digit : forall d k, d < 10 ->
  undec_acc [ascii_of_N (48 + d)] k = Some (k * 10 + d).
Proof.
  intros d k Hd. cbn [undec_acc]. rewrite N_ascii_embedding by lia.
  destruct (N.leb_spec 48 (48 + d)); [|lia]. destruct (N.leb_spec (48 + d) 57); [|lia].
  cbn [andb]. f_equal. lia.
Qed.

Lemma pow10_succ : forall f, 10 ^ N.of_nat (S f) = 10 * 10 ^ N.of_nat f.
Proof. intros f. rewrite Nat2N.inj_succ, N.pow_succ_r'. reflexivity. Qed.

Lemma dec_digits_spec : forall fuel n acc, n < 10 ^ N.of_nat (S fuel) ->
  exists ds, dec_digits (S fuel) n acc = ds ++ acc /\ ds <> [] /\
             forall k, undec_acc ds k = Some (k * 10 ^ N.of_nat (List.length ds) + n).
Proof.
  induction fuel as [|f IH]; intros n acc Hn.
  - change (10 ^ N.of_nat 1) with 10 in Hn.
    exists [ascii_of_N (48 + n mod 10)]. split; [|split].
    + cbn [dec_digits]. destruct (n / 10 =? 0); reflexivity.
    + discriminate.
    + intros k. rewrite undec_digit by lia. f_equal. cbn [List.length].
      change (10 ^ N.of_nat 1) with 10. lia.
  - rewrite pow10_succ in Hn.
    change (dec_digits (S (S f)) n acc) with
      (if n / 10 =? 0 then ascii_of_N (48 + n mod 10) :: acc
       else dec_digits (S f) (n / 10) (ascii_of_N (48 + n mod 10) :: acc)).
    destruct (N.eqb_spec (n / 10) 0) as [Hz|Hnz].
    + exists [ascii_of_N (48 + n mod 10)]. split; [reflexivity|split; [discriminate|]].
      intros k. rewrite undec_digit by lia. f_equal. cbn [List.length].
      change (10 ^ N.of_nat 1) with 10. lia.
    + destruct (IH (n / 10) (ascii_of_N (48 + n mod 10) :: acc)) as (ds & E & Hne & Hu); [lia|].
      exists (ds ++ [ascii_of_N (48 + n mod 10)]). split; [|split].
      * rewrite E, <- app_assoc. reflexivity.
      * destruct ds; discriminate.
      * intros k. rewrite undec_acc_app, Hu, undec_digit by lia. f_equal.
        rewrite app_length. cbn [List.length]. rewrite Nat.add_1_r, pow10_succ.
        set (p := 10 ^ N.of_nat (List.length ds)). nia.
Qed.

(* the decimal printer and the decimal reader are inverse (below 10^40;
   strconv.Itoa / FormatInt never print more than 20 digits) *)
Lemma undec_itoa : forall n, n < 10 ^ 40 -> undec (itoa n) = Some n.
Proof.
  intros n Hn. unfold itoa.
  destruct (dec_digits_spec 39 n []) as (ds & E & Hne & Hu); [exact Hn|].
  rewrite E, app_nil_r. unfold undec. destruct ds as [|c ds']; [contradiction|].
  rewrite Hu. f_equal; try lia.
Qed.

Lemma ts_okb_iff : forall t0 t1 v,
  ts_okb t0 t1 v = true <-> exists t, undec v = Some t /\ t0 <= t <= t1.
Proof.
  intros t0 t1 v. unfold ts_okb. destruct (undec v) as [t|].
  - rewrite andb_true_iff, !N.leb_le. split.
    + intros H. exists t. split; [reflexivity|exact H].
    + intros (t' & E & H). inversion E; subst. exact H.
  - split; [discriminate|]. intros (t & E & _). discriminate.
Qed.

Lemma ts_okb_itoa : forall t0 t1 t, t < 10 ^ 40 ->
  ts_okb t0 t1 (itoa t) = true <-> t0 <= t <= t1.
Proof.
  intros t0 t1 t Ht. rewrite ts_okb_iff, undec_itoa by exact Ht. split.
  - intros (t' & E & H). inversion E; subst. exact H.
  - intros H. exists t. split; [reflexivity|exact H].
Qed.

(* ------------------------------------------------------------------ *)
(* the stream oracle is exactly the existential over interleavings       *)
(* ------------------------------------------------------------------ *)

Lemma filter_keys_not_in : forall keys x fs, ~ In (fkey x) keys ->
  map (fun k => filter (keyb k) (x :: fs)) keys = map (fun k => filter (keyb k) fs) keys.
Proof.
  intros keys x fs H. apply map_ext_in. intros k Hk. cbn [filter].
  rewrite keyb_false; [reflexivity|]. intros E. apply H. rewrite E. exact Hk.
Qed.

(* a list all of whose elements carry one of pairwise distinct keys IS an
   interleaving of its per-key sublists *)
Lemma merge_of_filters : forall keys fs, NoDup keys ->
  Forall (fun f => In (fkey f) keys) fs ->
  Merge (map (fun k => filter (keyb k) fs) keys) fs.
Proof.
  intros keys fs Hnd. induction fs as [|x fs IH]; intros Hall.
  - apply Merge_nil. apply Forall_forall. intros l Hl. apply in_map_iff in Hl.
    destruct Hl as (k & <- & _). reflexivity.
  - inversion Hall as [|? ? Hx Hfs]; subst. specialize (IH Hfs).
    apply in_split in Hx. destruct Hx as (pre & post & E).
    assert (Hnd' := Hnd). rewrite E in Hnd'. apply NoDup_remove_2 in Hnd'.
    assert (Hpre : ~ In (fkey x) pre) by (intros H; apply Hnd'; apply in_or_app; left; exact H).
    assert (Hpost : ~ In (fkey x) post) by (intros H; apply Hnd'; apply in_or_app; right; exact H).
    rewrite E in *. rewrite map_app in *. cbn [map] in *.
    rewrite (filter_keys_not_in pre x fs Hpre), (filter_keys_not_in post x fs Hpost).
    cbn [filter]. assert (Ek : keyb (fkey x) x = true) by (apply keyb_iff; reflexivity).
    rewrite Ek. apply Merge_cons. exact IH.
Qed.

Theorem stream_spec_iff_interleaving : forall ms fs, NoDup (map mkey ms) ->
  (stream_spec ms fs <-> exists ls, Forall2 msg_spec ms ls /\ Merge ls fs).
Proof.
  intros ms fs Hnd. split.
  - intros [Hall Hms].
    exists (map (fun k => filter (keyb k) fs) (map mkey ms)). split.
    + rewrite map_map. clear - Hms. induction Hms as [|m ms Hm _ IH]; cbn [map]; constructor; assumption.
    + apply merge_of_filters; [exact Hnd|].
      eapply Forall_impl; [|exact Hall]. intros f Hex. apply Exists_exists in Hex.
      destruct Hex as (m & Hm & E). rewrite E. apply in_map. exact Hm.
  - intros (ls & Hspec & Hmerge). exact (logged_stream_demux ms ls fs Hnd Hspec Hmerge).
Qed.

(* ------------------------------------------------------------------ *)
(* decoded frames are well-formed; Go slicing; unreachable corners       *)
(* ------------------------------------------------------------------ *)

Lemma slice_spec : forall s a b m,
  slice s a b = Some m <->
  a <= b /\ b <= len s /\ m = firstn (N.to_nat (b - a)) (skipn (N.to_nat a) s).
Proof.
  intros s a b m. unfold slice.
  destruct (N.leb_spec a b) as [Hab|Hab]; destruct (N.leb_spec b (len s)) as [Hb|Hb]; cbn [andb];
    try (split; [discriminate|intros (? & ? & _); lia]).
  rewrite (take_spec a s). destruct (N.leb_spec a (len s)); [|lia].
  rewrite take_spec.
  assert (Hl : len (skipn (N.to_nat a) s) = len s - a).
  { rewrite !len_spec, skipn_length. rewrite len_spec in *. lia. }
  rewrite Hl. destruct (N.leb_spec (b - a) (len s - a)); [|lia].
  split.
  - intros E. inversion E. auto.
  - intros (_ & _ & ->). reflexivity.
Qed.

Lemma slice_len : forall s a b m, slice s a b = Some m -> len m = b - a.
Proof.
  intros s a b m H. apply slice_spec in H. destruct H as (Hab & Hb & ->).
  rewrite len_spec, firstn_length, skipn_length. rewrite len_spec in Hb. lia.
Qed.

(* for ANY way of sizing the buffer: a Panic result always comes from one of
   the two run-time slice expressions, never from the structurally
   unreachable branches of the model *)
Lemma panic_is_slice_failure : forall add bs, dec_frame_gen add bs = Panic ->
  exists ft mt id a b c d e f g h nv r3,
    N_of_ascii ft = ft_header /\
    bs = ft :: mt :: id ++ [a; b; c; d; e; f; g; h] ++ nv ++ r3 /\
    (slice nv 0 (de32 [a; b; c; d]) = None \/ slice nv (de32 [a; b; c; d]) (len nv) = None).
Proof.
  intros add bs. unfold dec_frame_gen.
  destruct (read_full 10 bs) as [[fh r1]|e] eqn:E10; [|discriminate].
  apply read_full_inv in E10. destruct E10 as [-> L10]. len_destruct L10. cbv iota.
  destruct (N.eqb_spec (N_of_ascii x) ft_header) as [Hft|Hft].
  - destruct (read_full 8 r1) as [[lens r2]|e] eqn:E8; [|discriminate].
    apply read_full_inv in E8. destruct E8 as [-> L8]. len_destruct L8. cbv iota.
    destruct (read_full _ r2) as [[nv r3]|e] eqn:Env; [|discriminate].
    apply read_full_inv in Env. destruct Env as [-> _].
    intros H. exists x, x0, [x1; x2; x3; x4; x5; x6; x7; x8], x9, x10, x11, x12, x13, x14, x15, x16, nv, r3.
    split; [exact Hft|]. split; [reflexivity|].
    destruct (slice nv 0 _); [|left; reflexivity].
    destruct (slice nv _ (len nv)); [discriminate|right; reflexivity].
  - destruct (N_of_ascii x =? ft_data); [|discriminate].
    destruct (read_full 9 r1) as [[desc r2]|e] eqn:E9; [|discriminate].
    apply read_full_inv in E9. destruct E9 as [_ L9]. len_destruct L9. cbv iota.
    destruct (read_full _ r2) as [[data r3]|e]; discriminate.
Qed.

(* whatever the repaired reader returns is a well-formed frame: it can be
   written again and read back *)
Lemma dec_frame_wf : forall bs f rest, dec_frame bs = Res f rest -> wf_frame f.
Proof.
  intros bs f rest. unfold dec_frame, dec_frame_gen.
  destruct (read_full 10 bs) as [[fh r1]|e] eqn:E10; [|discriminate].
  apply read_full_inv in E10. destruct E10 as [_ L10]. len_destruct L10. cbv iota.
  pose proof (N_ascii_bounded x0) as Hmt.
  destruct (N_of_ascii x =? ft_header).
  - destruct (read_full 8 r1) as [[lens r2]|e] eqn:E8; [|discriminate].
    apply read_full_inv in E8. destruct E8 as [_ L8]. len_destruct L8. cbv iota.
    destruct (read_full _ r2) as [[nv r3]|e] eqn:Env; [|discriminate].
    apply read_full_inv in Env. destruct Env as [_ Lnv]. unfold add_u64 in Lnv.
    pose proof (de32_lt x9 x10 x11 x12) as Hnl. pose proof (de32_lt x13 x14 x15 x16) as Hvl.
    destruct (slice nv 0 _) as [name|] eqn:S1; [|discriminate].
    destruct (slice nv _ (len nv)) as [value|] eqn:S2; [|discriminate].
    apply slice_len in S1. apply slice_len in S2.
    intros E. inversion E; subst. cbn [wf_frame]. repeat split; try reflexivity; lia.
  - destruct (N_of_ascii x =? ft_data); [|discriminate].
    destruct (read_full 9 r1) as [[desc r2]|e] eqn:E9; [|discriminate].
    apply read_full_inv in E9. destruct E9 as [_ L9]. len_destruct L9. cbv iota.
    destruct (read_full _ r2) as [[data r3]|e] eqn:Ed; [|discriminate].
    apply read_full_inv in Ed. destruct Ed as [_ Ld].
    pose proof (de32_lt x9 x10 x11 x12). pose proof (de32_lt x14 x15 x16 x17).
    intros E. inversion E; subst. cbn [wf_frame]. repeat split; try reflexivity; try lia.
    exact (de32_lt x9 x10 x11 x12).
Qed.

Lemma dec_stream_f_wf : forall fuel bs fs e,
  dec_stream_f add_u64 fuel bs = (fs, e) -> Forall wf_frame fs.
Proof.
  induction fuel as [|c fuel IH]; intros bs fs e; cbn [dec_stream_f];
    destruct (dec_frame_gen add_u64 bs) as [f rest|e'|] eqn:E; intros H; try (inversion H; constructor).
  destruct (dec_stream_f add_u64 fuel rest) as [fs' e''] eqn:E'. inversion H; subst.
  constructor; [exact (dec_frame_wf bs f rest E)|exact (IH rest fs' e E')].
Qed.

(* decode, encode, decode again: the same frames *)
Lemma dec_enc_dec : forall bs fs e, dec_stream bs = (fs, e) ->
  dec_stream (enc_stream fs) = (fs, FinErr EEof).
Proof.
  intros bs fs e H. apply stream_roundtrip. unfold dec_stream in H.
  exact (dec_stream_f_wf bs bs fs e H).
Qed.

(* key[:uint32(len(key))]: the fallback branch of [trunc32] is unreachable *)
Lemma trunc32_take_total : forall s, take (u32 (len s)) s <> None.
Proof.
  intros s H. apply take_none_inv in H. unfold u32, two32 in H.
  pose proof (N.mod_le (len s) 4294967296). lia.
Qed.

(* ------------------------------------------------------------------ *)
(* what one subscriber received: gap-free per message                   *)
(* ------------------------------------------------------------------ *)

Lemma prefixb_iff : forall a l, prefixb a l = true <-> exists post, l = a ++ post.
Proof.
  induction a as [|x a IH]; intros l; cbn [prefixb].
  - split; [intros _; exists l; reflexivity|reflexivity].
  - destruct l as [|y l].
    + split; [discriminate|]. intros [post E]. discriminate.
    + rewrite andb_true_iff, frame_eqb_eq, IH. split.
      * intros [-> [post ->]]. exists post. reflexivity.
      * intros [post E]. inversion E; subst. split; [reflexivity|exists post; reflexivity].
Qed.

Lemma segmentb_iff : forall a l, segmentb a l = true <-> exists pre post, l = pre ++ a ++ post.
Proof.
  intros a. induction l as [|y l IH]; cbn [segmentb]; rewrite orb_true_iff, prefixb_iff.
  - split.
    + intros [[post E]|H]; [exists [], post; exact E|discriminate].
    + intros (pre & post & E). left. destruct pre; [exists post; exact E|discriminate].
  - rewrite IH. split.
    + intros [[post E]|(pre & post & E)].
      * exists [], post. exact E.
      * exists (y :: pre), post. rewrite E. reflexivity.
    + intros (pre & post & E). destruct pre as [|z pre].
      * left. exists post. exact E.
      * right. inversion E; subst. exists pre, post. reflexivity.
Qed.

Lemma dedup_keys_in : forall ks k, In k (dedup_keys ks) <-> In k ks.
Proof.
  induction ks as [|k0 t IH]; intros k; cbn [dedup_keys]; [tauto|].
  destruct (existsb (key_eqb k0) t) eqn:E.
  - rewrite IH. split; [intros H; right; exact H|]. intros [<-|H]; [|exact H].
    apply existsb_exists in E. destruct E as (k' & Hin & Hk). apply key_eqb_eq in Hk. subst. exact Hin.
  - cbn [In]. rewrite IH. tauto.
Qed.

Definition subscriber_spec (ref got : list frame) : Prop :=
  forall k, In k (map fkey got) ->
    exists pre post, filter (keyb k) ref = pre ++ filter (keyb k) got ++ post.

Lemma c19_subscriber_ok_iff : forall ref got,
  c19_subscriber_ok ref got = true <-> subscriber_spec ref got.
Proof.
  intros ref got. unfold c19_subscriber_ok, subscriber_spec. rewrite forallb_forall. split.
  - intros H k Hk. apply segmentb_iff. apply H. apply dedup_keys_in. exact Hk.
  - intros H k Hk. apply segmentb_iff. apply H. apply dedup_keys_in. exact Hk.
Qed.

(* a subscriber that received a contiguous part of the stream (joined late,
   cut off early, or both) satisfies it; so does the complete stream *)
Lemma filter_segment : forall (p : frame -> bool) pre got post,
  filter p (pre ++ got ++ post) = filter p pre ++ filter p got ++ filter p post.
Proof. intros. rewrite !filter_app. reflexivity. Qed.

Lemma contiguous_part_ok : forall pre got post, subscriber_spec (pre ++ got ++ post) got.
Proof.
  intros pre got post k _. exists (filter (keyb k) pre), (filter (keyb k) post).
  apply filter_segment.
Qed.
