(* C19 — marbl streams decode to the logged messages with intact, ordered
   bodies.

   Definitions only (no proofs), total, computable, extractable.

   Mirrors /repo/marbl:
   - marbl.go   newFrame / sendHeader / sendData  -> [enc_header] [enc_data]
                bodyLogger.Read                    -> [bl_run] / [body_log]
                LogRequest / LogResponse           -> [req_pseudo] [res_pseudo]
                                                      [map_headers] [msg_frames]
                Stream.loop (one Write per frame)  -> [Merge] (in Proofs) of
                                                      whole frames
   - reader.go  Reader.ReadFrame                   -> [dec_frame_gen add]
                a loop of ReadFrame until error    -> [dec_stream]

   The reader exists in two instances of one definition:
     [dec_frame_orig] = the code as found: the size of the name+value buffer
                        is the **uint32** sum nl+vl (wraps mod 2^32), then
                        nv[:nl] / nv[nl:] — Go panics when nl > len(nv);
     [dec_frame]      = the repaired code (fixes/C19-1-*.diff): the size is
                        the 64-bit sum, and the payload is read with a buffer
                        that grows with the bytes actually present.
   Every Go slice expression on a run-time length goes through [slice], which
   returns [None] where Go would panic; the decoder then returns [Panic].
   "Never [Panic]" is a theorem about [dec_frame], and its negation a theorem
   about [dec_frame_orig].

   Lengths on the wire are N (never converted to nat: a hostile length of
   2^32-1 must not allocate anything in the extracted model either). *)

From Coq Require Import List NArith Bool Ascii String Arith.
Import ListNotations.
Open Scope N_scope.

Definition bytes := list ascii.

Definition two32 : N := 4294967296.
Definition u32 (n : N) : N := n mod two32.

(* tail-recursive length in N *)
Fixpoint len_acc (l : bytes) (acc : N) : N :=
  match l with [] => acc | _ :: t => len_acc t (N.succ acc) end.
Definition len (l : bytes) : N := len_acc l 0.

(* [take n l] = Some (first n bytes, rest) when l has at least n bytes.
   Structural on l, tail recursive. *)
Fixpoint take_acc (l : bytes) (n : N) (acc : bytes) : option (bytes * bytes) :=
  if n =? 0 then Some (rev' acc, l)
  else match l with
       | [] => None
       | x :: t => take_acc t (N.pred n) (x :: acc)
       end.
Definition take (n : N) (l : bytes) : option (bytes * bytes) := take_acc l n [].

(* Go: s[a:b] on a slice whose cap = len; panics unless 0 <= a <= b <= len s *)
Definition slice (s : bytes) (a b : N) : option bytes :=
  if (a <=? b) && (b <=? len s) then
    match take a s with
    | Some (_, r) => match take (b - a) r with Some (m, _) => Some m | None => None end
    | None => None
    end
  else None.

(* ------------------------------------------------------------------ *)
(* big-endian uint32                                                    *)
(* ------------------------------------------------------------------ *)

Definition byte_of (n : N) : ascii := ascii_of_N (n mod 256).

Definition be32 (n : N) : bytes :=
  [byte_of (n / 16777216); byte_of (n / 65536); byte_of (n / 256); byte_of n].

Definition de32 (b : bytes) : N :=
  match b with
  | [a; b; c; d] =>
      N_of_ascii a * 16777216 + N_of_ascii b * 65536 + N_of_ascii c * 256 + N_of_ascii d
  | _ => 0
  end.

(* ------------------------------------------------------------------ *)
(* frames and encoders (marbl.go)                                       *)
(* ------------------------------------------------------------------ *)

Inductive frame :=
| FHeader (id : bytes) (mt : N) (name value : bytes)
| FData (id : bytes) (mt : N) (index : N) (terminal : bool) (data : bytes).

Definition ft_header : N := 1.
Definition ft_data : N := 2.
Definition mt_request : N := 1.
Definition mt_response : N := 2.

(* newFrame: id[:8].  [wire_id] = None where Go panics (len(id) < 8). *)
Definition wire_id (id : bytes) : option bytes :=
  match take 8 id with Some (a, _) => Some a | None => None end.

(* key[:uint32(len(key))] : a string of 2^32 bytes or more is cut *)
Definition trunc32 (s : bytes) : bytes :=
  match take (u32 (len s)) s with Some (a, _) => a | None => s end.

(* sendHeader; [id] is the wire id (8 bytes) *)
Definition enc_header (id : bytes) (mt : N) (name value : bytes) : bytes :=
  byte_of ft_header :: byte_of mt :: id
  ++ be32 (u32 (len name)) ++ be32 (u32 (len value)) ++ trunc32 name ++ trunc32 value.

(* sendData *)
Definition enc_data (id : bytes) (mt : N) (index : N) (terminal : bool) (data : bytes) : bytes :=
  byte_of ft_data :: byte_of mt :: id
  ++ be32 index ++ [byte_of (if terminal then 1 else 0)] ++ be32 (u32 (len data)) ++ data.

Definition enc_frame (f : frame) : bytes :=
  match f with
  | FHeader id mt n v => enc_header id mt n v
  | FData id mt i t d => enc_data id mt i t d
  end.

(* the byte stream: Stream.loop writes each frame received with one Write *)
Definition enc_stream (fs : list frame) : bytes := flat_map enc_frame fs.

(* ------------------------------------------------------------------ *)
(* decoder (reader.go)                                                  *)
(* ------------------------------------------------------------------ *)

Inductive derr :=
| EEof          (* io.EOF: the read that failed got no byte at all *)
| EUnexpected   (* io.ErrUnexpectedEOF: it got some, not all *)
| EUnknownFrame (* "marbl: unknown type of frame" *).

Inductive dres :=
| Res (f : frame) (rest : bytes)
| Err (e : derr)
| Panic.

(* io.ReadFull(r, make([]byte, n)) on the remaining input l.  A zero-length
   buffer succeeds without reading (also at end of input). *)
Definition read_full (n : N) (l : bytes) : (bytes * bytes) + derr :=
  if n =? 0 then inl ([], l)
  else match l with
       | [] => inr EEof
       | _ => match take n l with Some p => inl p | None => inr EUnexpected end
       end.

(* [add] = how the size of the name+value buffer is computed from nl, vl *)
Definition dec_frame_gen (add : N -> N -> N) (bs : bytes) : dres :=
  match read_full 10 bs with
  | inr e => Err e
  | inl (fh, r1) =>
    match fh with
    | ft :: mt :: id =>
      let mt := N_of_ascii mt in
      if N_of_ascii ft =? ft_header then
        match read_full 8 r1 with
        | inr e => Err e
        | inl (lens, r2) =>
          match lens with
          | [a; b; c; d; e; f; g; h] =>
            let nl := de32 [a; b; c; d] in
            let vl := de32 [e; f; g; h] in
            match read_full (add nl vl) r2 with
            | inr e => Err e
            | inl (nv, r3) =>
              match slice nv 0 nl, slice nv nl (len nv) with
              | Some name, Some value => Res (FHeader id mt name value) r3
              | _, _ => Panic
              end
            end
          | _ => Panic (* unreachable: read_full 8 returns 8 bytes *)
          end
        end
      else if N_of_ascii ft =? ft_data then
        match read_full 9 r1 with
        | inr e => Err e
        | inl (desc, r2) =>
          match desc with
          | [a; b; c; d; t; e; f; g; h] =>
            let idx := de32 [a; b; c; d] in
            let term := N_of_ascii t =? 1 in
            let dl := de32 [e; f; g; h] in
            match read_full dl r2 with
            | inr e => Err e
            | inl (data, r3) => Res (FData id mt idx term data) r3
            end
          | _ => Panic (* unreachable *)
          end
        end
      else Err EUnknownFrame
    | _ => Panic (* unreachable: read_full 10 returns 10 bytes *)
    end
  end.

Definition add_u32 (a b : N) : N := u32 (a + b).   (* uint32 addition *)
Definition add_u64 (a b : N) : N := a + b.         (* a, b < 2^32: no wrap in 64 bits *)

Definition dec_frame_orig : bytes -> dres := dec_frame_gen add_u32.
Definition dec_frame : bytes -> dres := dec_frame_gen add_u64.

(* ReadFrame in a loop until it fails.  [fuel] is any list at least as long
   as the input (the input itself): each frame consumes >= 10 bytes. *)
Inductive fin := FinErr (e : derr) | FinPanic | FinFuel.

Fixpoint dec_stream_f (add : N -> N -> N) (fuel bs : bytes) : list frame * fin :=
  match dec_frame_gen add bs with
  | Err e => ([], FinErr e)
  | Panic => ([], FinPanic)
  | Res f rest =>
      match fuel with
      | [] => ([], FinFuel)
      | _ :: fuel' =>
          let (fs, e) := dec_stream_f add fuel' rest in (f :: fs, e)
      end
  end.

Definition dec_stream (bs : bytes) : list frame * fin := dec_stream_f add_u64 bs bs.
Definition dec_stream_orig (bs : bytes) : list frame * fin := dec_stream_f add_u32 bs bs.

(* the property oracle for the reader clause, on an observed final outcome *)
Definition c19_reader_ok (observed : list frame * fin) : bool :=
  match snd observed with FinErr _ => true | _ => false end.

(* ------------------------------------------------------------------ *)
(* bodyLogger                                                           *)
(* ------------------------------------------------------------------ *)

Inductive rerr := RNil | REof | ROther.
Definition is_eof (e : rerr) : bool := match e with REof => true | _ => false end.

Definition read_result := (bytes * rerr)%type.   (* b[:n] and err of one Read *)

(* bodyLogger.Read: forwards to the body, emits one data frame with
   index = atomic.AddUint32(&index,1)-1, terminal iff err == io.EOF, returns
   the same (n, err).  State = the uint32 counter. *)
Definition bl_read (id : bytes) (mt : N) (st : N) (under : read_result)
  : read_result * N * frame :=
  (under, u32 (st + 1), FData id mt st (is_eof (snd under)) (fst under)).

Fixpoint bl_run (id : bytes) (mt : N) (st : N) (unders : list read_result)
  : list read_result * list frame :=
  match unders with
  | [] => ([], [])
  | u :: t =>
      let '(r, st', f) := bl_read id mt st u in
      let (rs, fs) := bl_run id mt st' t in
      (r :: rs, f :: fs)
  end.

Definition body_log (id : bytes) (mt : N) (unders : list read_result) : list frame :=
  snd (bl_run id mt 0 unders).
Definition body_returns (id : bytes) (mt : N) (unders : list read_result) : list read_result :=
  fst (bl_run id mt 0 unders).

Definition fidx (f : frame) : N := match f with FData _ _ i _ _ => i | _ => 0 end.
Definition fterm (f : frame) : bool := match f with FData _ _ _ t _ => t | _ => false end.
Definition fdata (f : frame) : bytes := match f with FData _ _ _ _ d => d | _ => [] end.
Definition is_data (f : frame) : bool := match f with FData _ _ _ _ _ => true | _ => false end.

(* ------------------------------------------------------------------ *)
(* messages (LogRequest / LogResponse)                                  *)
(* ------------------------------------------------------------------ *)

Definition hdr := (bytes * bytes)%type.
Definition s (x : string) : bytes := list_ascii_of_string x.

(* strconv.Itoa / FormatInt for n >= 0 *)
Fixpoint dec_digits (fuel : nat) (n : N) (acc : bytes) : bytes :=
  match fuel with
  | O => acc
  | S f =>
      let acc' := ascii_of_N (48 + n mod 10) :: acc in
      if n / 10 =? 0 then acc' else dec_digits f (n / 10) acc'
  end.
Definition itoa (n : N) : bytes := dec_digits 40 n [].

Fixpoint undec_acc (v : bytes) (acc : N) : option N :=
  match v with
  | [] => Some acc
  | c :: t =>
      let d := N_of_ascii c in
      if (48 <=? d) && (d <=? 57) then undec_acc t (acc * 10 + (d - 48)) else None
  end.
Definition undec (v : bytes) : option N :=
  match v with [] => None | _ => undec_acc v 0 end.

Fixpoint bytes_eqb (a b : bytes) : bool :=
  match a, b with
  | [], [] => true
  | x :: a', y :: b' => Ascii.eqb x y && bytes_eqb a' b'
  | _, _ => false
  end.

Definition api_hdr (api : bool) : list hdr :=
  if api then [(s ":api", s "true")] else [].

Definition req_pseudo (method scheme authority path query proto remote ts : bytes) (api : bool)
  : list hdr :=
  [(s ":method", method); (s ":scheme", scheme); (s ":authority", authority);
   (s ":path", path); (s ":query", query); (s ":proto", proto); (s ":remote", remote);
   (s ":timestamp", ts)] ++ api_hdr api.

Definition res_pseudo (proto : bytes) (status : N) (reason ts : bytes) (api : bool) : list hdr :=
  [(s ":proto", proto); (s ":status", itoa status); (s ":reason", reason);
   (s ":timestamp", ts)] ++ api_hdr api.

(* proxyutil.Header.Map: the header map, with Host / Content-Length /
   Transfer-Encoding replaced by the message fields when those are set *)
Definition override (k : bytes) (vs : option (list bytes)) (hs : list hdr) : list hdr :=
  match vs with
  | None => hs
  | Some vs => filter (fun h => negb (bytes_eqb (fst h) k)) hs ++ map (fun v => (k, v)) vs
  end.

Definition map_headers (hs : list hdr) (host : bytes) (cl : N) (te : option (list bytes)) : list hdr :=
  override (s "Transfer-Encoding") te
    (override (s "Content-Length") (if cl =? 0 then None else Some [itoa cl])
       (override (s "Host") (match host with [] => None | _ => Some [host] end) hs)).

Record msg := mkMsg {
  m_id : bytes;          (* wire id: 8 bytes *)
  m_mt : N;
  m_pseudo : list hdr;   (* fixed order *)
  m_hdrs : list hdr;     (* any order (Go map iteration) *)
  m_reads : list read_result   (* what the body returned to each Read *)
}.

Definition hframes (id : bytes) (mt : N) (hs : list hdr) : list frame :=
  map (fun h => FHeader id mt (fst h) (snd h)) hs.

(* frames of one message when the header map is iterated in [order] *)
Definition msg_frames (m : msg) (order : list hdr) : list frame :=
  hframes (m_id m) (m_mt m) (m_pseudo m ++ order)
  ++ body_log (m_id m) (m_mt m) (m_reads m).

(* ------------------------------------------------------------------ *)
(* oracle for the message clauses, on the frames decoded from a stream  *)
(* ------------------------------------------------------------------ *)

Definition frame_eqb (a b : frame) : bool :=
  match a, b with
  | FHeader i m n v, FHeader i' m' n' v' =>
      bytes_eqb i i' && (m =? m') && bytes_eqb n n' && bytes_eqb v v'
  | FData i m x t d, FData i' m' x' t' d' =>
      bytes_eqb i i' && (m =? m') && (x =? x') && Bool.eqb t t' && bytes_eqb d d'
  | _, _ => false
  end.

Fixpoint list_eqb {A} (eqb : A -> A -> bool) (a b : list A) : bool :=
  match a, b with
  | [], [] => true
  | x :: a', y :: b' => eqb x y && list_eqb eqb a' b'
  | _, _ => false
  end.

Fixpoint remove1 {A} (eqb : A -> A -> bool) (x : A) (l : list A) : option (list A) :=
  match l with
  | [] => None
  | y :: t => if eqb x y then Some t
              else match remove1 eqb x t with Some t' => Some (y :: t') | None => None end
  end.

Fixpoint perm_b {A} (eqb : A -> A -> bool) (l1 l2 : list A) : bool :=
  match l1 with
  | [] => match l2 with [] => true | _ => false end
  | x :: t => match remove1 eqb x l2 with Some l2' => perm_b eqb t l2' | None => false end
  end.

Definition fkey (f : frame) : bytes * N :=
  match f with FHeader i m _ _ => (i, m) | FData i m _ _ _ => (i, m) end.
Definition mkey (m : msg) : bytes * N := (m_id m, m_mt m).
Definition key_eqb (k k' : bytes * N) : bool := bytes_eqb (fst k) (fst k') && (snd k =? snd k').
Definition keyb (k : bytes * N) (f : frame) : bool := key_eqb k (fkey f).

(* the three parts of the per-message check; [l] = the frames carrying the
   message's key, in stream order *)
Definition msg_pseudo_okb (m : msg) (l : list frame) : bool :=
  list_eqb frame_eqb (firstn (List.length (m_pseudo m)) l) (hframes (m_id m) (m_mt m) (m_pseudo m)).

Definition msg_headers_okb (m : msg) (l : list frame) : bool :=
  perm_b frame_eqb
    (firstn (List.length (m_hdrs m)) (skipn (List.length (m_pseudo m)) l))
    (hframes (m_id m) (m_mt m) (m_hdrs m)).

Definition msg_data_okb (m : msg) (l : list frame) : bool :=
  list_eqb frame_eqb
    (skipn (List.length (m_hdrs m)) (skipn (List.length (m_pseudo m)) l))
    (body_log (m_id m) (m_mt m) (m_reads m)).

Definition msg_okb (m : msg) (l : list frame) : bool :=
  msg_pseudo_okb m l && msg_headers_okb m l && msg_data_okb m l.

(* precondition of demultiplexing: pairwise distinct (wire id, type) *)
Fixpoint keys_distinctb (ks : list (bytes * N)) : bool :=
  match ks with
  | [] => true
  | k :: t => negb (existsb (key_eqb k) t) && keys_distinctb t
  end.

(* whole stream: every frame belongs to a logged message, and per
   (id, type) the frames are those of that message *)
Definition c19_stream_ok (ms : list msg) (fs : list frame) : bool :=
  forallb (fun f => existsb (fun m => keyb (mkey m) f) ms) fs
  && forallb (fun m => msg_okb m (filter (keyb (mkey m)) fs)) ms.

(* What ONE subscriber of the stream received, against the complete stream
   [ref]: for every (id, type) it saw a frame of, its frames are a gap-free
   run of that message's frames (it may have joined late or been cut off; it
   must not have a hole). *)
Fixpoint prefixb (a l : list frame) : bool :=
  match a, l with
  | [], _ => true
  | x :: a', y :: l' => frame_eqb x y && prefixb a' l'
  | _ :: _, [] => false
  end.

Fixpoint segmentb (a l : list frame) : bool :=
  prefixb a l || match l with [] => false | _ :: l' => segmentb a l' end.

Fixpoint dedup_keys (ks : list (bytes * N)) : list (bytes * N) :=
  match ks with
  | [] => []
  | k :: t => if existsb (key_eqb k) t then dedup_keys t else k :: dedup_keys t
  end.

Definition c19_subscriber_ok (ref got : list frame) : bool :=
  forallb (fun k => segmentb (filter (keyb k) got) (filter (keyb k) ref))
          (dedup_keys (map fkey got)).

(* passthrough: what the consumer got from the wrapper vs what the body gave *)
Definition rerr_eqb (a b : rerr) : bool :=
  match a, b with RNil, RNil | REof, REof | ROther, ROther => true | _, _ => false end.
Definition rr_eqb (a b : read_result) : bool := bytes_eqb (fst a) (fst b) && rerr_eqb (snd a) (snd b).
Definition c19_passthrough_ok (unders wrapped : list read_result) : bool :=
  list_eqb rr_eqb wrapped unders.

(* :timestamp is milliseconds since the epoch, taken during the call *)
Definition ts_okb (t0 t1 : N) (v : bytes) : bool :=
  match undec v with Some t => (t0 <=? t) && (t <=? t1) | None => false end.

Definition find_ts (l : list frame) : option bytes :=
  match find (fun f => match f with
                       | FHeader _ _ n _ => bytes_eqb n (s ":timestamp")
                       | _ => false end) l with
  | Some (FHeader _ _ _ v) => Some v
  | _ => None
  end.

(* first position where two frame lists differ (diagnostics only) *)
Fixpoint first_diff (k : nat) (a b : list frame) : option nat :=
  match a, b with
  | [], [] => None
  | x :: a', y :: b' => if frame_eqb x y then first_diff (S k) a' b' else Some k
  | _, _ => Some k
  end.
