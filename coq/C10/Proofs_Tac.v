(* C10 — quiescence facts and the case-analysis tactics shared by Proofs_Live.v and Proofs_Partial.v. *)
From Coq Require Import List Bool Arith Lia.
From Martian.C10 Require Import Gen_H2Const Model Proofs_Measure Proofs_Inv.
Import ListNotations.

Lemma quiescent_none : forall c s, quiescentb c s = true ->
  forall l, In l all_internal -> step c s l = None.
Proof.
  intros c s Hq l Hin. unfold quiescentb in Hq. rewrite forallb_forall in Hq.
  specialize (Hq l Hin). unfold enabled in Hq. destruct (step c s l); [discriminate|reflexivity].
Qed.

Lemma internal_in_all : forall c s l, internal l = true ->
  (exists s', step c s l = Some s') -> exists l', In l' all_internal /\ exists s', step c s l' = Some s'.
Proof.
  intros c s l Hi Hex. exists l. split; [|exact Hex].
  destruct l; try discriminate Hi;
    repeat match goal with t : side |- _ => destruct t end;
    repeat match goal with b : bool |- _ => destruct b end; simpl; tauto.
Qed.

(* quiescentb is exactly "no internal label is enabled" *)
Lemma quiescentb_spec : forall c s,
  quiescentb c s = true <-> (forall l, internal l = true -> step c s l = None).
Proof.
  intros c s. split.
  - intros Hq l Hi. destruct (step c s l) as [s'|] eqn:E; [|reflexivity].
    destruct (internal_in_all c s l Hi (ex_intro _ s' E)) as (l' & Hin & s'' & E').
    rewrite (quiescent_none _ _ Hq _ Hin) in E'. discriminate.
  - intros H. unfold quiescentb. rewrite forallb_forall. intros l Hin.
    unfold enabled. rewrite H; [reflexivity|].
    unfold all_internal in Hin. simpl in Hin.
    repeat (destruct Hin as [Hin|Hin]; [subst l; reflexivity|]). contradiction.
Qed.

Lemma ltb_0_cap : Nat.ltb 0 cap = true.
Proof. reflexivity. Qed.

Ltac all_q Hq :=
  let go l := (let H := fresh "Q" in pose proof (quiescent_none _ _ Hq l ltac:(simpl; tauto)) as H) in
  go (IPreface true); go IJoin; go ICallerClose;
  go (IRead Cl); go (IReadEnd Cl); go (ITake Cl false); go (ISelErr Cl); go (ISelClosing Cl); go (ISelDone Cl);
  go (ILock Cl); go (ISend Cl); go (IAbort Cl); go (IUnlock Cl false); go (IDWrite Cl false); go (IWrite Cl false); go (IWTake Cl); go (IWSend Cl false); go (IErrHandoff Cl); go (IHandshake Cl); go (IStop Cl);
  go (IRead Sv); go (IReadEnd Sv); go (ITake Sv false); go (ISelErr Sv); go (ISelClosing Sv); go (ISelDone Sv);
  go (ILock Sv); go (ISend Sv); go (IAbort Sv); go (IUnlock Sv false); go (IDWrite Sv false); go (IWrite Sv false); go (IWTake Sv); go (IWSend Sv false); go (IErrHandoff Sv); go (IHandshake Sv); go (IStop Sv).

Ltac red_q :=
  unfold blocks in *;
  cbn [step getd setd with_rd with_rd_rf exit_failed set_trig set_remote remote local_closed is_emit_on side_eqb
       dc ds main cli srv wbroken_c wbroken_s sc_closed cc_closed closing done trig dleak_c dleak_s dleak set_dleak
       rd wr wfailed werr chan queued rf inflight other cfg_fixed cfg_orig fix_close fix_done fix_abort
       werr_buffered credit_unlocks data_errs_propagate wbroken blocks is_stalled not_errsend
       andb orb negb conn_open rf_gone in_loop writer_alive reader_alive] in *.

Ltac qd :=
  repeat match goal with
         | H : Some _ = None |- _ => discriminate H
         | H : false = true |- _ => discriminate H
         | H : true = false |- _ => discriminate H
         | H : context [match ?v with _ => _ end] |- _ => is_var v; destruct v; red_q
         | H : context [if ?v then _ else _] |- _ => is_var v; destruct v; red_q
         | H : context [?v && _] |- _ => is_var v; destruct v; red_q
         | H : context [?v || _] |- _ => is_var v; destruct v; red_q
         | H : context [negb ?v] |- _ => is_var v; destruct v; red_q
         | H : context [conn_open ?v] |- _ => is_var v; destruct v; red_q
         | H : context [is_stalled ?v] |- _ => is_var v; destruct v; red_q
         | H : context [not_errsend ?v] |- _ => is_var v; destruct v; red_q
         | H : context [getd _ ?v] |- _ => is_var v; destruct v; red_q
         | H : context [remote _ ?v] |- _ => is_var v; destruct v; red_q
         | H : context [dleak _ ?v] |- _ => is_var v; destruct v; red_q
         | H : context [writer_alive ?v] |- _ => is_var v; destruct v; red_q
         | H : context [reader_alive ?v] |- _ => is_var v; destruct v; red_q
         | H : context [rf_gone ?v] |- _ => is_var v; destruct v; red_q
         | H : context [in_loop ?v] |- _ => is_var v; destruct v; red_q
         | H : context [setd _ ?v] |- _ => is_var v; destruct v; red_q
         | H : context [Nat.ltb 0 cap] |- _ => rewrite ltb_0_cap in H; red_q
         end.

