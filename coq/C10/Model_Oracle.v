(* C10 — the verdict functions the driver calls, as definitions (extracted with the model).
   Definitions only. *)
From Coq Require Import List Bool Arith.
From Martian.C10 Require Import Gen_H2Const Model.
Import ListNotations.

Inductive clause := CReturns | CUpstreamClosed | CNoBlockedGoroutine.

(* What the harness reports of a finished scenario: fin (Proxy returned within T), eof (the TLS
   server saw its accepted connection end; None = '-': the server ended that connection itself, so
   the observation does not exist), and the census of goroutines with martian/v3/h2 frames by
   blocking point, in the order of [census]: MAIN RSEL REMIT RLOCK RDONE ROTHER W RF. *)
Record raw_obs := mkRaw { r_fin : bool; r_eof : option bool; r_census : list nat }.

Definition sum (l : list nat) : nat := fold_right Nat.add 0 l.

Definition obs_of_raw (r : raw_obs) : obs :=
  mkObs (r_fin r) (match r_eof r with Some b => b | None => true end) (sum (r_census r)).

(* a reader is inside (or waiting to get into) emitEligibleFrames: census positions REMIT, RLOCK *)
Definition emit_blocked (r : raw_obs) : bool :=
  match r_census r with
  | _ :: _ :: e :: l :: _ => negb (Nat.eqb (e + l) 0)
  | _ => false
  end.

(* None = the property holds of this observation; Some c = the clause reported as PROPFAIL *)
Definition c10_verdict (r : raw_obs) : option clause :=
  let o := obs_of_raw r in
  if c10_ok o then None
  else if negb (o_returned o) then Some (if emit_blocked r then CNoBlockedGoroutine else CReturns)
  else if negb (o_upstream_eof o) then Some CUpstreamClosed
  else Some CNoBlockedGoroutine.

(* the observation the model predicts in state s *)
Definition model_raw (s : state) : raw_obs := mkRaw (returned s) (Some (sc_closed s)) (census s).

(* the oracle is evaluated when the predicted final state satisfies the hypotheses of C10_returns *)
Definition c10_applicable (s : state) : bool :=
  trig s && negb (blocks s Cl) && negb (blocks s Sv).
