(* C10 — internal steps terminate: every internal label strictly decreases
   [measure], for every configuration of the repairs. *)
From Coq Require Import List Bool Arith Lia.
From Martian.C10 Require Import Gen_H2Const Model.
Import ListNotations.

Ltac bm :=
  match goal with
  | H : context [match ?x with _ => _ end] |- _ =>
      match type of H with
      | _ = Some _ => destruct x eqn:?
      end
  end.

Ltac destruct_state s :=
  let xc := fresh "xc" in let xs := fresh "xs" in
  destruct s as [xc xs m_ cl_ sv_ wbc_ wbs_ scc_ ccc_ clo_ dn_ tr_ dlc_ dls_];
  destruct xc as [rdc wrc wfc wec chc quc rfc inc];
  destruct xs as [rds wrs wfs wes chs qus rfs ins].

Lemma cap_pos : 0 < cap.
Proof. unfold cap, output_channel_size. lia. Qed.

Lemma step_measure : forall c s l s',
  internal l = true -> step c s l = Some s' -> measure s' < measure s.
Proof.
  intros c s l s' Hi Hs.
  destruct_state s.
  destruct l; try discriminate Hi; try destruct d;
    cbn [step getd setd with_rd with_rd_rf exit_failed set_trig
         dc ds main cli srv wbroken_c wbroken_s sc_closed cc_closed closing done trig dleak_c dleak_s dleak set_dleak
         rd wr wfailed werr chan queued rf inflight other] in Hs;
    repeat bm; try discriminate Hs; inversion Hs; subst; clear Hs;
    unfold measure, dir_measure;
    cbn [exit_failed set_trig set_dleak getd setd with_rd with_rd_rf dc ds main cc_closed rd wr wfailed werr chan queued rf inflight
         rd_rank rf_rank kcost b2n writer_alive negb fold_right other];
    try lia;
    repeat match goal with t : side |- _ => destruct t end;
    repeat match goal with
           | |- context [if ?b then _ else _] => destruct b
           | |- context [match ?o with Some _ => _ | None => _ end] => is_var o; destruct o
           end;
    cbn [exit_failed set_trig set_dleak getd setd with_rd with_rd_rf dc ds main cc_closed rd wr wfailed werr chan queued rf inflight
         rd_rank rf_rank kcost b2n writer_alive negb fold_right other];
    lia.
Qed.

(* A run of internal steps from [s] has at most [measure s] steps. *)
Lemma internal_run_bounded : forall c ls s s',
  forallb internal ls = true -> run c s ls = Some s' -> length ls + measure s' <= measure s.
Proof.
  induction ls as [|l ls IH]; intros s s' Hi Hr; simpl in *.
  - inversion Hr; subst. lia.
  - apply andb_prop in Hi. destruct Hi as [Hl Hls].
    destruct (step c s l) as [s1|] eqn:E; [|discriminate].
    pose proof (step_measure _ _ _ _ Hl E).
    specialize (IH _ _ Hls Hr). lia.
Qed.
