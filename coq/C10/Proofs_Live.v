(* C10 — liveness as quiescence for the repaired relay: in every reachable
   state in which no internal step is enabled and the session is ending,
   Proxy has returned, the upstream connection is closed and no goroutine of
   the session is left. *)
From Coq Require Import List Bool Arith Lia.
From Martian.C10 Require Import Gen_H2Const Model Proofs_Measure Proofs_Inv Proofs_Tac.
Import ListNotations.

Lemma returns_fixed : forall s,
  reachable cfg_fixed s -> quiescentb cfg_fixed s = true -> Ev s ->
  blocks s Cl = false -> blocks s Sv = false -> main s = MReturned.
Proof.
  intros s Hr Hq Hev Hb1 Hb2.
  destruct (inv_reachable _ Hr) as (Hc & Hv & Hg & _).
  destruct_state s.
  all_q Hq. clear Hq Hr.
  unfold dinv, dir_inv, glob1, blocks in *. red_q. split_hyps.
  destruct m_; [exfalso; discriminate Q | exfalso | reflexivity].
  red_q.
  qd.
  all: unfold Ev, EvD, left_loop in Hev; simpl in Hev; intuition discriminate.
Qed.

Lemma no_goroutine_fixed : forall s,
  reachable cfg_fixed s -> quiescentb cfg_fixed s = true -> Ev s ->
  blocks s Cl = false -> blocks s Sv = false -> goroutines s = 0.
Proof.
  intros s Hr Hq Hev Hb1 Hb2.
  pose proof (returns_fixed s Hr Hq Hev Hb1 Hb2) as Hm. clear Hb1 Hb2.
  destruct (inv_reachable _ Hr) as (Hc & Hv & Hg & _).
  destruct_state s. simpl in Hm. subst m_.
  pose proof (quiescent_none _ _ Hq ICallerClose ltac:(simpl; tauto)) as Q1.
  pose proof (quiescent_none _ _ Hq (IReadEnd Cl) ltac:(simpl; tauto)) as Q2.
  pose proof (quiescent_none _ _ Hq (IReadEnd Sv) ltac:(simpl; tauto)) as Q3.
  clear Hq Hr Hev.
  unfold dinv, dir_inv, glob1, blocks in *. red_q. split_hyps.
  qd; simpl; try reflexivity.
Qed.

Lemma upstream_closed_fixed : forall s,
  reachable cfg_fixed s -> main s = MReturned -> sc_closed s = true.
Proof.
  intros s Hr Hm. destruct (inv_reachable _ Hr) as (_ & _ & Hg & _).
  unfold glob1 in Hg. rewrite Hm in Hg.
  repeat (apply andb_prop in Hg; destruct Hg as [Hg _]). exact Hg.
Qed.

Lemma trig_ev_fixed : forall s, reachable cfg_fixed s -> trig s = true -> Ev s.
Proof. intros s Hr Ht. destruct (inv_reachable _ Hr) as (_ & _ & _ & H). exact (H Ht). Qed.

