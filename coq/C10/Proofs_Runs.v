(* C10 — liveness in run form, the scheduler used for predictions, and the verdict oracle. *)
From Coq Require Import List Bool Arith Lia.
From Martian.C10 Require Import Gen_H2Const Model Model_Oracle Proofs_Measure Proofs_Inv Proofs_Tac Proofs_Live
     Proofs_Partial Proofs_Refute Proofs_Safe.
Import ListNotations.

Definition released (s : state) : Prop := main s = MReturned /\ sc_closed s = true /\ goroutines s = 0.

(* no internal label is enabled: the run cannot be extended without the environment *)
Definition maximal (c : cfg) (s : state) : Prop := forall l, internal l = true -> step c s l = None.

Lemma run_app : forall c l1 l2 s s1, run c s l1 = Some s1 -> run c s (l1 ++ l2) = run c s1 l2.
Proof.
  induction l1 as [|l l1 IH]; intros l2 s s1 H; simpl in *.
  - inversion H; reflexivity.
  - destruct (step c s l); [eapply IH; exact H | discriminate].
Qed.

Lemma reachable_run : forall c s ls s', reachable c s -> run c s ls = Some s' -> reachable c s'.
Proof. intros c s ls s' [l0 H0] H. exists (l0 ++ ls). rewrite (run_app _ _ _ _ _ H0). exact H. Qed.

Lemma trig_stable_run : forall c ls s s', trig s = true -> run c s ls = Some s' -> trig s' = true.
Proof.
  induction ls as [|l ls IH]; intros s s' Ht Hr; simpl in Hr.
  - inversion Hr; subst; assumption.
  - destruct (step c s l) as [s1|] eqn:E; [|discriminate].
    eapply IH; [eapply trig_stable; eassumption | exact Hr].
Qed.

(* LIVENESS, run form: from every reachable state of the repaired relay in which a session-ending event
   has happened, every run of internal steps that cannot be extended, and at whose end no Write is held
   up by a peer that has stopped reading, ends in the all-released state, after at most [measure s]
   steps.  No fairness assumption: every internal step decreases the measure, so every maximal
   internal run is finite whatever the scheduler does. *)
Lemma every_maximal_run_releases : forall s ls s',
  reachable cfg_fixed s -> trig s = true ->
  forallb internal ls = true -> run cfg_fixed s ls = Some s' -> maximal cfg_fixed s' ->
  blocks s' Cl = false -> blocks s' Sv = false ->
  released s' /\ length ls <= measure s.
Proof.
  intros s ls s' Hr Ht Hi Hrun Hmax Hb1 Hb2.
  pose proof (reachable_run _ _ _ _ Hr Hrun) as Hr'.
  pose proof (trig_stable_run _ _ _ _ Ht Hrun) as Ht'.
  pose proof (proj2 (quiescentb_spec _ _) Hmax) as Hq.
  pose proof (trig_ev_fixed _ Hr' Ht') as Hev.
  split.
  - split; [exact (returns_fixed _ Hr' Hq Hev Hb1 Hb2)|].
    split; [exact (upstream_closed_fixed _ Hr' (returns_fixed _ Hr' Hq Hev Hb1 Hb2))|].
    exact (no_goroutine_fixed _ Hr' Hq Hev Hb1 Hb2).
  - pose proof (internal_run_bounded _ _ _ _ Hi Hrun). lia.
Qed.

(* ---- the eager scheduler [settle] produces such a maximal run ---- *)

Lemma sched_internal : forallb internal sched_order = true.
Proof. reflexivity. Qed.

Lemma first_step_some : forall c s L s', first_step c s L = Some s' -> exists l, In l L /\ step c s l = Some s'.
Proof.
  induction L as [|l L IH]; intros s' H; simpl in H; [discriminate|].
  destruct (step c s l) as [s1|] eqn:E.
  - inversion H; subst. exists l. split; [left; reflexivity | exact E].
  - destruct (IH _ H) as (l' & Hin & Hs). exists l'. split; [right; exact Hin | exact Hs].
Qed.

Lemma first_step_none : forall c s L, first_step c s L = None -> forall l, In l L -> step c s l = None.
Proof.
  induction L as [|l0 L IH]; intros H l Hin; simpl in *; [contradiction|].
  destruct (step c s l0) eqn:E; [discriminate|].
  destruct Hin as [<-|Hin]; [exact E | exact (IH H l Hin)].
Qed.

Lemma never_enabled : forall c s d,
  step c s (ITake d true) = None /\ step c s (IUnlock d true) = None /\ step c s (IWrite d true) = None.
Proof.
  intros c s d. repeat split; destruct d; cbn [step]; try reflexivity;
    match goal with |- context [wr ?x] => destruct (wr x); try reflexivity; destruct (chan x); try reflexivity end;
    rewrite andb_false_r; reflexivity.
Qed.

Lemma preface_false_none : forall c s, step c s (IPreface true) = None -> step c s (IPreface false) = None.
Proof. intros c s H. cbn [step] in *. destruct (main s); try reflexivity; discriminate. Qed.

(* the scheduler's label list misses only labels that are never enabled, or enabled exactly when one it has is *)
Lemma sched_complete : forall c s, first_step c s sched_order = None -> maximal c s.
Proof.
  intros c s H. unfold maximal. apply (proj1 (quiescentb_spec c s)). unfold quiescentb. apply forallb_forall. intros l Hin.
  unfold enabled.
  assert (G : step c s l = None); [|rewrite G; reflexivity].
  pose proof (first_step_none _ _ _ H) as N.
  destruct (never_enabled c s Cl) as (A1 & A2 & A3). destruct (never_enabled c s Sv) as (B1 & B2 & B3).
  unfold all_internal in Hin. simpl in Hin.
  repeat (destruct Hin as [<-|Hin];
          [first [ assumption | apply preface_false_none; apply N; simpl; tauto | apply N; simpl; tauto ] | ]).
  contradiction.
Qed.

Lemma settle_run : forall c fuel s s' ok, settle c fuel s = (s', ok) ->
  exists ls, forallb internal ls = true /\ run c s ls = Some s' /\ (ok = true -> maximal c s').
Proof.
  induction fuel as [|f IH]; intros s s' ok H; cbn [settle] in H.
  - inversion H; subst. exists []. repeat split; try reflexivity. discriminate.
  - destruct (first_step c s sched_order) as [s1|] eqn:E.
    + destruct (first_step_some _ _ _ _ E) as (l & Hin & Hs).
      destruct (IH _ _ _ H) as (ls & Hi & Hr & Hm).
      exists (l :: ls). cbn [forallb run]. rewrite Hs. repeat split; try assumption.
      rewrite Hi, andb_true_r.
      pose proof sched_internal as SI. rewrite forallb_forall in SI. exact (SI l Hin).
    + inversion H; subst. exists []. repeat split; try reflexivity. intros _. exact (sched_complete _ _ E).
Qed.

Lemma settle_fuel_enough : forall c fuel s, measure s < fuel -> snd (settle c fuel s) = true.
Proof.
  induction fuel as [|f IH]; intros s Hm; [lia|]. cbn [settle].
  destruct (first_step c s sched_order) as [s1|] eqn:E; [|reflexivity].
  destruct (first_step_some _ _ _ _ E) as (l & Hin & Hs).
  pose proof sched_internal as SI. rewrite forallb_forall in SI.
  pose proof (step_measure _ _ _ _ (SI l Hin) Hs). apply IH. lia.
Qed.

(* every state has a maximal internal run, of at most [measure s] steps *)
Lemma maximal_run_exists : forall c s,
  exists ls s', forallb internal ls = true /\ run c s ls = Some s' /\ maximal c s' /\ length ls <= measure s.
Proof.
  intros c s. destruct (settle c (S (measure s)) s) as [s' ok] eqn:E.
  destruct (settle_run _ _ _ _ _ E) as (ls & Hi & Hr & Hm).
  pose proof (settle_fuel_enough c (S (measure s)) s (Nat.lt_succ_diag_r _)) as F. rewrite E in F. simpl in F.
  exists ls, s'. repeat split; try assumption; [exact (Hm F)|].
  pose proof (internal_run_bounded _ _ _ _ Hi Hr). lia.
Qed.

(* ---- the verdict oracle ---- *)

Lemma census_sum : forall s, sum (census s) = goroutines s.
Proof.
  intros s. unfold census, goroutines, dir_goroutines, census_dir, sum. simpl.
  destruct (rd (dc s)), (rd (ds s)); simpl; lia.
Qed.

Lemma model_raw_obs : forall s, obs_of_raw (model_raw s) = obs_of s.
Proof. intros s. unfold obs_of_raw, model_raw, obs_of. cbn [r_fin r_eof r_census]. rewrite census_sum. reflexivity. Qed.

Lemma verdict_none_iff : forall r, c10_verdict r = None <-> c10_ok (obs_of_raw r) = true.
Proof.
  intros r. unfold c10_verdict. destruct (c10_ok (obs_of_raw r)); [tauto|].
  split; [|discriminate].
  destruct (negb (o_returned (obs_of_raw r))); [destruct (emit_blocked r); discriminate|].
  destruct (negb (o_upstream_eof (obs_of_raw r))); discriminate.
Qed.

Lemma emit_blocked_census : forall r, emit_blocked r = true -> sum (r_census r) <> 0.
Proof.
  intros r. unfold emit_blocked, sum. destruct (r_census r) as [|a [|b [|e [|l t]]]]; try discriminate.
  simpl. rewrite negb_true_iff, Nat.eqb_neq. lia.
Qed.

(* what each reported clause says about the observation (and that the property fails on it) *)
Lemma verdict_sound : forall r cl, c10_verdict r = Some cl ->
  c10_ok (obs_of_raw r) = false /\
  match cl with
  | CReturns => r_fin r = false
  | CUpstreamClosed => r_fin r = true /\ r_eof r = Some false
  | CNoBlockedGoroutine => sum (r_census r) <> 0
  end.
Proof.
  intros r cl. unfold c10_verdict.
  destruct (c10_ok (obs_of_raw r)) eqn:Eok; [discriminate|]. intros H. split; [reflexivity|].
  unfold c10_ok, obs_of_raw in Eok. simpl in *.
  destruct (r_fin r) eqn:Ef; simpl in *.
  - destruct (r_eof r) as [[|]|] eqn:Ee; simpl in *; inversion H; subst;
      try (split; reflexivity);
      rewrite Nat.eqb_neq in Eok; exact Eok.
  - destruct (emit_blocked r) eqn:Eb; inversion H; subst; [exact (emit_blocked_census _ Eb) | reflexivity].
Qed.

(* on the model's own states the verdict is exactly the final-state predicate *)
Lemma verdict_model_iff : forall s, c10_verdict (model_raw s) = None <-> released s.
Proof. intros s. rewrite verdict_none_iff, model_raw_obs. apply c10_ok_iff. Qed.

Lemma applicable_iff : forall s,
  c10_applicable s = true <-> trig s = true /\ blocks s Cl = false /\ blocks s Sv = false.
Proof.
  intros s. unfold c10_applicable. rewrite !andb_true_iff, !negb_true_iff. tauto.
Qed.

Lemma accepts_exists : forall c ls, accepts c ls = true <-> exists s, run c init ls = Some s.
Proof.
  intros c ls. unfold accepts. destruct (run c init ls) as [s|].
  - split; [intros _; exists s; reflexivity | reflexivity].
  - split; [discriminate | intros [s H]; discriminate].
Qed.
