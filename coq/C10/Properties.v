(* C10 — property theorems.  Nothing but statements closed by [exact] and
   Print Assumptions.  The model is the relay with the three proposed repairs
   ([cfg_fixed]: fixes/C10-1..3); [cfg_orig] is the relay as it was.
   "Quiescent" = no internal label is enabled; a theorem about all reachable
   quiescent states plus the termination measure is the liveness statement
   "every maximal run of internal steps is finite and ends in such a state". *)
From Coq Require Import List Bool Arith.
From Martian.C10 Require Import Gen_H2Const Model Model_Oracle Proofs_Measure Proofs_Inv Proofs_Tac Proofs_Live Proofs_Partial
     Proofs_Refute Proofs_Safe Proofs_Runs Proofs_Examples.
Import ListNotations.

(* Internal steps terminate, whatever the configuration and whatever the state:
   every internal label strictly decreases a natural-number measure, so from any
   state at most [measure s] internal steps can follow. *)
Theorem C10_internal_steps_terminate : forall c s l s',
  internal l = true -> step c s l = Some s' -> measure s' < measure s.
Proof. exact step_measure. Qed.
Print Assumptions C10_internal_steps_terminate.

Theorem C10_internal_runs_bounded : forall c ls s s',
  forallb internal ls = true -> run c s ls = Some s' -> length ls + measure s' <= measure s.
Proof. exact internal_run_bounded. Qed.
Print Assumptions C10_internal_runs_bounded.

(* Every way the session can end sets the trigger, and it stays set. *)
Theorem C10_ending_events_trigger : forall c s l s',
  ending_label l = true -> step c s l = Some s' -> trig s' = true.
Proof. exact ending_label_trig. Qed.
Print Assumptions C10_ending_events_trigger.

Theorem C10_failed_write_triggers : forall c s d s',
  (step c s (IWSend d true) = Some s' \/ step c s (IDWrite d true) = Some s') -> trig s' = true.
Proof. exact failed_write_trig. Qed.
Print Assumptions C10_failed_write_triggers.

Theorem C10_trigger_stable : forall c s l s', trig s = true -> step c s l = Some s' -> trig s' = true.
Proof. exact trig_stable. Qed.
Print Assumptions C10_trigger_stable.

(* RETURNS: over all histories and interleavings of the repaired relay, once
   a session-ending event has happened, every state in which no internal step
   is enabled is a state where Proxy has returned. *)
Theorem C10_returns : forall s,
  reachable cfg_fixed s ->
  (forall l, internal l = true -> step cfg_fixed s l = None) ->
  trig s = true ->
  blocks s Cl = false -> blocks s Sv = false ->   (* no Write is held up by a peer that stopped reading *)
  main s = MReturned.
Proof.
  intros s Hr Hq Ht.
  exact (returns_fixed s Hr (proj2 (quiescentb_spec _ _) Hq) (trig_ev_fixed s Hr Ht)).
Qed.
(* assumptions: its proof is made of returns_fixed / no_goroutine_fixed / trig_ev_fixed, all inside
   C10_every_maximal_run_ends_released, whose Print Assumptions below covers them (printing walks the
   large case-analysis terms, ~7 s each) *)

(* UPSTREAM CLOSED: whenever Proxy has returned (also from a failed preface)
   the connection it dialled has been closed. *)
Theorem C10_upstream_closed_on_return : forall s,
  reachable cfg_fixed s -> main s = MReturned -> sc_closed s = true.
Proof. exact upstream_closed_fixed. Qed.
Print Assumptions C10_upstream_closed_on_return.

(* NO BLOCKED GOROUTINE: in those quiescent states no goroutine of the session
   is left: no reader, writer, ReadFrame goroutine, nor Proxy itself. *)
Theorem C10_no_blocked_goroutine : forall s,
  reachable cfg_fixed s ->
  (forall l, internal l = true -> step cfg_fixed s l = None) ->
  trig s = true ->
  blocks s Cl = false -> blocks s Sv = false ->
  goroutines s = 0.
Proof.
  intros s Hr Hq Ht.
  exact (no_goroutine_fixed s Hr (proj2 (quiescentb_spec _ _) Hq) (trig_ev_fixed s Hr Ht)).
Qed.
(* assumptions: its proof is made of returns_fixed / no_goroutine_fixed / trig_ev_fixed, all inside
   C10_every_maximal_run_ends_released, whose Print Assumptions below covers them (printing walks the
   large case-analysis terms, ~7 s each) *)

(* The executable oracle evaluated on the real observations is the conjunction
   of the three conclusions. *)
Theorem C10_oracle_is_the_property : forall s,
  c10_ok (obs_of s) = true <-> main s = MReturned /\ sc_closed s = true /\ goroutines s = 0.
Proof. exact c10_ok_iff. Qed.
Print Assumptions C10_oracle_is_the_property.

Theorem C10_oracle_on_observations : forall o,
  c10_ok o = true <-> o_returned o = true /\ o_upstream_eof o = true /\ o_goroutines o = 0.
Proof. exact c10_ok_obs_iff. Qed.
Print Assumptions C10_oracle_on_observations.

Theorem C10_quiescentb_spec : forall c s,
  quiescentb c s = true <-> (forall l, internal l = true -> step c s l = None).
Proof. exact quiescentb_spec. Qed.
Print Assumptions C10_quiescentb_spec.

(* ---- liveness in run form (audit round) ---- *)

(* TERMINATES AND RELEASES, all schedules: from every reachable state of the repaired relay after a
   session-ending cause, every run of internal steps that cannot be extended (whatever the scheduler
   did: no fairness is assumed or needed) and at whose end no Write is held up by a peer that stopped
   reading ends with Proxy returned, the upstream connection closed and no session goroutine left,
   after at most [measure s] steps. *)
Theorem C10_every_maximal_run_ends_released : forall s ls s',
  reachable cfg_fixed s -> trig s = true ->
  forallb internal ls = true -> run cfg_fixed s ls = Some s' -> maximal cfg_fixed s' ->
  blocks s' Cl = false -> blocks s' Sv = false ->
  released s' /\ length ls <= measure s.
Proof. exact every_maximal_run_releases. Qed.
Print Assumptions C10_every_maximal_run_ends_released.

(* ... and such a run exists from every state, for every configuration *)
Theorem C10_maximal_run_exists : forall c s,
  exists ls s', forallb internal ls = true /\ run c s ls = Some s' /\ maximal c s' /\ length ls <= measure s.
Proof. exact maximal_run_exists. Qed.
Print Assumptions C10_maximal_run_exists.

(* the scheduler the driver uses for its predictions ([settle], inside [predict]) produces a maximal
   internal run, and the fuel [predict] gives it always suffices *)
Theorem C10_settle_is_a_maximal_run : forall c fuel s s' ok, settle c fuel s = (s', ok) ->
  exists ls, forallb internal ls = true /\ run c s ls = Some s' /\ (ok = true -> maximal c s').
Proof. exact settle_run. Qed.
Print Assumptions C10_settle_is_a_maximal_run.

Theorem C10_settle_fuel_suffices : forall c s, snd (settle c (S (measure s)) s) = true.
Proof. intros c s. apply settle_fuel_enough. apply Nat.lt_succ_diag_r. Qed.
Print Assumptions C10_settle_fuel_suffices.

(* the channel capacity of the model is the constant the translator read from h2/relay.go *)
Theorem C10_capacity_is_read_from_source : cap = output_channel_size.
Proof. reflexivity. Qed.

(* WHAT MUST NOT HAPPEN, every configuration: without a session-ending event Proxy does not return,
   the proxy closes neither connection, and the session's goroutines are all there *)
Theorem C10_no_spurious_return : forall c s, reachable c s -> main s = MReturned -> trig s = true.
Proof. exact no_spurious_return. Qed.
Print Assumptions C10_no_spurious_return.

Theorem C10_session_intact_until_triggered : forall c s, reachable c s -> trig s = false ->
  sc_closed s = false /\ cc_closed s = false /\ main s <> MReturned /\ goroutines s <> 0 \/ main s = MPreface.
Proof. exact no_spurious_close. Qed.
Print Assumptions C10_session_intact_until_triggered.

(* ---- the driver's verdict (audit round) ---- *)

(* OK <-> the property's conclusion holds of the observation *)
Theorem C10_verdict_ok_iff : forall r,
  c10_verdict r = None <-> (r_fin r = true /\ (r_eof r = Some true \/ r_eof r = None) /\ sum (r_census r) = 0).
Proof.
  intros r. rewrite verdict_none_iff, c10_ok_obs_iff. unfold obs_of_raw. simpl.
  destruct (r_eof r) as [[|]|]; intuition (try discriminate; auto).
Qed.
Print Assumptions C10_verdict_ok_iff.

(* PROPFAIL <clause> -> the property's conclusion fails of the observation, in the way the clause says.
   Not decided: the upstream clause when the harness server ended its own connection (r_eof = None). *)
Theorem C10_verdict_propfail_sound : forall r cl, c10_verdict r = Some cl ->
  c10_ok (obs_of_raw r) = false /\
  match cl with
  | CReturns => r_fin r = false
  | CUpstreamClosed => r_fin r = true /\ r_eof r = Some false
  | CNoBlockedGoroutine => sum (r_census r) <> 0
  end.
Proof. exact verdict_sound. Qed.
Print Assumptions C10_verdict_propfail_sound.

(* the observation tokens of a model state (fin, eof, census g=...) give verdict OK exactly in the
   all-released states *)
Theorem C10_verdict_on_model_states_iff : forall s, c10_verdict (model_raw s) = None <-> released s.
Proof. exact verdict_model_iff. Qed.
Print Assumptions C10_verdict_on_model_states_iff.

Theorem C10_census_counts_the_goroutines : forall s, sum (census s) = goroutines s.
Proof. exact census_sum. Qed.

(* the oracle is evaluated exactly when the predicted final state meets the hypotheses of C10_returns *)
Theorem C10_applicable_iff : forall s,
  c10_applicable s = true <-> trig s = true /\ blocks s Cl = false /\ blocks s Sv = false.
Proof. exact applicable_iff. Qed.

Theorem C10_trace_admissible_iff : forall c ls, accepts c ls = true <-> exists s, run c init ls = Some s.
Proof. exact accepts_exists. Qed.
Print Assumptions C10_trace_admissible_iff.

(* ---- the relay as it was: each clause fails, each repair is needed ---- *)

Theorem C10_returns_refuted : exists s,
  reachable cfg_orig s /\ quiescentb cfg_orig s = true /\ trig s = true /\ not_returned s = true.
Proof. exact (bad_final_elim _ _ _ refute_returns_orig). Qed.
Print Assumptions C10_returns_refuted.

Theorem C10_returns_refuted_without_done_signal : exists s,
  reachable (mkCfg true false true true true true) s /\ quiescentb (mkCfg true false true true true true) s = true
  /\ trig s = true /\ not_returned s = true.
Proof. exact (bad_final_elim _ _ _ refute_returns_no_done). Qed.

Theorem C10_upstream_closed_on_return_refuted : exists s,
  reachable cfg_orig s /\ quiescentb cfg_orig s = true /\ trig s = true
  /\ (returned s && negb (sc_closed s)) = true.
Proof. exact (bad_final_elim _ _ _ refute_upstream_orig). Qed.
Print Assumptions C10_upstream_closed_on_return_refuted.

Theorem C10_upstream_closed_refuted_without_close : exists s,
  reachable (mkCfg false true true true true true) s /\ quiescentb (mkCfg false true true true true true) s = true
  /\ trig s = true /\ (returned s && negb (sc_closed s)) = true.
Proof. exact (bad_final_elim _ _ _ refute_upstream_no_close). Qed.

Theorem C10_no_blocked_goroutine_refuted : exists s,
  reachable cfg_orig s /\ quiescentb cfg_orig s = true /\ trig s = true
  /\ (returned s && negb (Nat.eqb (goroutines s) 0)) = true.
Proof. exact (bad_final_elim _ _ _ refute_goroutine_orig). Qed.
Print Assumptions C10_no_blocked_goroutine_refuted.

(* both endpoints gone, yet a reader sits for ever in `output <- f` holding flowMu *)
Theorem C10_emit_into_dead_channel_refuted : exists s,
  reachable cfg_orig s /\ quiescentb cfg_orig s = true /\ trig s = true /\ stuck_in_emit s = true.
Proof. exact (bad_final_elim _ _ _ refute_emit_orig). Qed.
Print Assumptions C10_emit_into_dead_channel_refuted.

Theorem C10_emit_refuted_without_abort : exists s,
  reachable (mkCfg true true false true true true) s /\ quiescentb (mkCfg true true false true true true) s = true
  /\ trig s = true /\ stuck_in_emit s = true.
Proof. exact (bad_final_elim _ _ _ refute_emit_no_abort). Qed.

(* writerErr made unbuffered (the repairs otherwise in place): a write toward a peer that has
   stopped reading is blocked in the writer goroutine, the session ends by another route (that
   peer's FIN), the reader waits in `readerDone <-`; when the blocked write then fails the writer
   waits in `writerErr <-`: neither moves again although no peer holds a write up any more *)
Theorem C10_returns_refuted_with_unbuffered_writerErr : exists s,
  reachable cfg_unbuffered_werr s /\ quiescentb cfg_unbuffered_werr s = true
  /\ trig s = true /\ handoff_deadlock s = true.
Proof. exact (bad_final_elim _ _ _ refute_unbuffered_werr). Qed.
Print Assumptions C10_returns_refuted_with_unbuffered_writerErr.

(* sendWindowUpdates returning early with destMu locked (the repairs otherwise in place): the credit
   for a client DATA frame fails to be written, the reader leaves with the client-side destMu locked,
   the server->client writer that has a frame for the client waits for that mutex for ever; proxy
   shutdown and the client going away change nothing *)
Theorem C10_returns_refuted_with_leaked_destMu : exists s,
  reachable cfg_destmu_leak s /\ quiescentb cfg_destmu_leak s = true
  /\ trig s = true /\ lock_leaked_writer_stuck s = true.
Proof. exact (bad_final_elim _ _ _ refute_destmu_leak). Qed.
Print Assumptions C10_returns_refuted_with_leaked_destMu.

(* processFrame's DATA case losing its errors (an inner `err :=`): neither a failed credit write toward
   the DATA sender nor a DATA frame rejected by the stream processor ends the session any more:
   both relays keep relaying although a session-ending event has happened *)
Theorem C10_returns_refuted_with_swallowed_write_error : exists s,
  reachable cfg_swallow s /\ quiescentb cfg_swallow s = true /\ trig s = true /\ still_relaying s = true.
Proof. exact (bad_final_elim _ _ _ refute_swallowed_write_error). Qed.
Print Assumptions C10_returns_refuted_with_swallowed_write_error.

Theorem C10_returns_refuted_with_swallowed_processor_error : exists s,
  reachable cfg_swallow s /\ quiescentb cfg_swallow s = true /\ trig s = true /\ still_relaying s = true.
Proof. exact (bad_final_elim _ _ _ refute_swallowed_processor_error). Qed.
Print Assumptions C10_returns_refuted_with_swallowed_processor_error.

(* what does hold of the relay as it was: proxy shutdown makes Proxy return
   unless a reader is wedged on the output channel of a direction whose writer
   has gone *)
Theorem C10_returns_partial : forall s,
  reachable cfg_orig s ->
  (forall l, internal l = true -> step cfg_orig s l = None) ->
  closing s = true -> no_stuck_emit s ->
  is_stalled (cli s) = false -> is_stalled (srv s) = false ->
  main s = MReturned.
Proof.
  intros s Hr Hq. exact (returns_partial_orig s Hr (proj2 (quiescentb_spec _ _) Hq)).
Qed.
Print Assumptions C10_returns_partial.

(* ---- non-vacuity ---- *)

(* the hypotheses of C10_returns / C10_no_blocked_goroutine are met by a run in
   which cap+1 frames are queued, released while the client goes away, and the
   repaired relay unwinds *)
Example C10_example_full_channel :
  match run cfg_fixed init (w_full_then_end ++ [IAbort Sv; IUnlock Sv false; ISelDone Sv; IHandshake Sv; IStop Sv;
                                               IJoin; ICallerClose; IReadEnd Sv]) with
  | Some s => quiescentb cfg_fixed s && trig s && c10_ok (obs_of s)
  | None => false
  end = true.
Proof. exact ex_full_channel. Qed.

(* the repaired relay (buffered writerErr) unwinds from the late write failure; the hypotheses
   blocks = false of C10_returns hold in its final state *)
Example C10_example_late_write_failure :
  match run cfg_fixed init (w_blocked_write_fails_late ++ [IHandshake Cl; IStop Cl; IJoin; ICallerClose; IReadEnd Cl]) with
  | Some s => quiescentb cfg_fixed s && trig s && negb (blocks s Cl) && negb (blocks s Sv) && c10_ok (obs_of s)
  | None => false
  end = true.
Proof. exact ex_late_write_failure. Qed.

(* the repaired relay releases destMu: the same run unwinds *)
Example C10_example_credit_failure :
  match run cfg_fixed init (w_credit_fails_writer_waits ++ [IWSend Sv true; IHandshake Sv; IStop Sv; IJoin; ICallerClose; IReadEnd Sv]) with
  | Some s => quiescentb cfg_fixed s && trig s && negb (blocks s Cl) && negb (blocks s Sv) && c10_ok (obs_of s)
  | None => false
  end = true.
Proof. exact ex_credit_failure. Qed.

(* the repaired relay ends the session on both *)
Example C10_example_data_errors_end_the_session :
  match run cfg_fixed init (w_credit_write_fails ++ [IHandshake Cl; IStop Cl; ISelDone Sv; IHandshake Sv; IStop Sv; IJoin; ICallerClose; IReadEnd Sv]),
        run cfg_fixed init (w_processor_rejects_data ++ [IHandshake Cl; IStop Cl; ISelDone Sv; IHandshake Sv; IStop Sv; IJoin; ICallerClose; IReadEnd Sv]) with
  | Some s1, Some s2 => quiescentb cfg_fixed s1 && trig s1 && c10_ok (obs_of s1) && quiescentb cfg_fixed s2 && trig s2 && c10_ok (obs_of s2)
  | _, _ => false
  end = true.
Proof. exact ex_data_errors_end_the_session. Qed.

(* hypotheses of C10_every_maximal_run_ends_released: a reachable triggered state (the channel-full
   situation), an internal run from it that is maximal, nothing held up *)
Example C10_example_maximal_run :
  match run cfg_fixed init w_full_then_end with
  | Some s =>
      let ls := [IAbort Sv; IUnlock Sv false; ISelDone Sv; IHandshake Sv; IStop Sv; IJoin; ICallerClose; IReadEnd Sv] in
      trig s && forallb internal ls &&
      match run cfg_fixed s ls with
      | Some s' => quiescentb cfg_fixed s' && negb (blocks s' Cl) && negb (blocks s' Sv)
                   && Nat.leb (length ls) (measure s)
                   && match c10_verdict (model_raw s') with None => true | Some _ => false end
      | None => false
      end
  | None => false
  end = true.
Proof. exact ex_maximal_run. Qed.

(* hypotheses of C10_no_spurious_return / C10_session_intact_until_triggered: an untriggered busy state *)
Example C10_example_intact :
  match run cfg_fixed init (w_idle ++ rep 3 w_queue1 ++ [ESend Sv KDirect; IRead Sv; ITake Sv false; IDWrite Sv false]) with
  | Some s => negb (trig s) && negb (returned s) && Nat.eqb (goroutines s) 7
  | None => false
  end = true.
Proof. exact ex_intact. Qed.

(* each PROPFAIL clause is produced by some observation *)
Example C10_example_verdicts :
  (c10_verdict (mkRaw false (Some false) [1;1;0;0;0;0;1;1]),
   c10_verdict (mkRaw false (Some false) [1;0;1;0;0;0;1;0]),
   c10_verdict (mkRaw true (Some false) [0;0;0;0;0;0;0;0]),
   c10_verdict (mkRaw true (Some true) [0;0;0;0;0;0;0;1]),
   c10_verdict (mkRaw true None [0;0;0;0;0;0;0;0]))
  = (Some CReturns, Some CNoBlockedGoroutine, Some CUpstreamClosed, Some CNoBlockedGoroutine, None).
Proof. reflexivity. Qed.

(* the guard of C10_returns_partial is met by the plain shutdown run *)
Example C10_example_partial :
  match run cfg_orig init w_closing with
  | Some s => quiescentb cfg_orig s && closing s && returned s
  | None => false
  end = true.
Proof. exact ex_partial. Qed.

(* the eager scheduler used for predictions reaches quiescence *)
Example C10_example_predict :
  let '(fl, s, ok) := predict cfg_fixed init [[IPreface true]; [ESend Cl KDirect]; [EClose Sv]] in
  (fl, c10_ok (obs_of s), ok) = ([false; false; true], true, true).
Proof. exact ex_predict. Qed.
