(* C10 — the HTTP/2 relay terminates and releases both connections
   whichever side ends.

   Definitions only.  A labelled transition system of the goroutines of one
   h2.Config.Proxy call (h2/h2.go 57-119, h2/relay.go 144-218, 346-361,
   546-565):

     main        Proxy itself: preface, then wg.Wait(), then return
     per direction d (Cl = client->server relay, Sv = server->client relay)
       reader    the goroutine running relayFrames (select loop, processFrame)
       writer    the goroutine draining r.output into the destination framer
       rf        the goroutine blocked in r.src.ReadFrame() for the current
                 loop iteration (abandoned when the reader leaves the loop)

   The three places where the code under test was repaired are switches of a
   [cfg], so that one model describes the code as it was ([cfg_orig]), the
   repaired code ([cfg_fixed]) and every partial repair; [cfg_src] is what the
   translator read from the source tree being checked.

   Abstractions (all over-approximate the real behaviours):
   - a frame is only its [kind]: what processFrame does with it in terms of
     locks, channel sends and connection writes;
   - flow control is a count: [k] in [KOwn]/[KWin] is how many queued frames
     the windows let through; the model takes the minimum with what is queued;
   - a write on a connection is one atomic step that succeeds, or fails if
     the destination may fail (closed, reset, or made failing by the
     environment): writes never block for ever (assumption, see notes);
   - Go's select picks nondeterministically among ready cases: each case is
     its own label. *)

From Coq Require Import List Bool Arith.
From Martian.C10 Require Import Gen_H2Const.
Import ListNotations.

Inductive side := Cl | Sv.

Definition other (x : side) : side := match x with Cl => Sv | Sv => Cl end.

Definition side_eqb (a b : side) : bool :=
  match a, b with Cl, Cl => true | Sv, Sv => true | _, _ => false end.

Record cfg := mkCfg
  { fix_close : bool;   (* Proxy: defer sc.Close() right after the dial *)
    fix_done : bool;    (* a direction that ends closes `done`; relayFrames selects on it *)
    fix_abort : bool;   (* emitEligibleFrames: select { output <- f ; <-done: return } *)
    werr_buffered : bool; (* relayFrames: writerErr := make(chan error, 1) (as in the original);
                             false = unbuffered: the writer must hand its error to the reader's select *)
    credit_unlocks : bool; (* sendWindowUpdates releases destMu on every path (defer Unlock, as in the
                              original); false = the early `return err` leaves destMu locked *)
    data_errs_propagate : bool }. (* processFrame returns the error of every sub-step (as in the original);
                              false = in the DATA case the errors of sendWindowUpdates and of the stream
                              processor's Data are assigned to a shadowing variable and lost *)

Definition cfg_orig : cfg := mkCfg false false false true true true.
Definition cfg_fixed : cfg := mkCfg true true true true true true.
Definition cfg_src : cfg :=
  mkCfg src_closes_upstream src_done_signal src_emit_abortable (negb (Nat.eqb writer_err_capacity 0))
        src_destmu_released_on_every_path src_processframe_errors_reach_return.

Definition cap : nat := output_channel_size.

(* What processFrame does with a frame. *)
Inductive kind :=
| KOwn (pre : bool) (k : nat)   (* HEADERS/DATA/RST_STREAM/PRIORITY/PUSH_PROMISE: enqueue on the own
                                   direction, emit up to k; pre: DATA first writes WINDOW_UPDATEs back
                                   toward its source (peer.sendWindowUpdates) *)
| KWin (post : bool) (k : nat)  (* WINDOW_UPDATE / SETTINGS(INITIAL_WINDOW_SIZE): lock the peer's flowMu,
                                   emit up to k of the peer's queued frames into the peer's output;
                                   post: SETTINGS is then written to the destination *)
| KDirect                       (* PING, GOAWAY, SETTINGS ack: written directly under destMu *)
| KBad                          (* protocol error: ReadFrame error, unknown frame type, bad HPACK, a stream
                                   processor rejecting Header/RSTStream/PushPromise/Priority *)
| KDataBad.                     (* a DATA frame whose stream processor's Data returns an error (scripted processor,
                                   gRPC adapter given an undecodable message); the credit write that precedes it
                                   is not modelled separately for this kind *)

Inductive rres := RFrame (f : kind) | REnd.          (* REnd: io.EOF or any read error *)
Inductive rfst := RFBlocked | RFPosted (r : rres) | RFGone.

Inductive rpc :=
| RNot                                     (* not started (Proxy still in forwardPreface) *)
| RSel                                     (* at the select *)
| RLock (tgt : side) (post : bool) (k : nat)   (* waiting for tgt's flowMu *)
| REmit (tgt : side) (post : bool) (k : nat)   (* holds tgt's flowMu, k sends into tgt's output to go *)
| RDPend (x : side) (credit : bool) (cont : option nat)
      (* inside processFrame, committed to a write toward side x under that destination's destMu
         (waiting for the mutex, or in Write): credit = the WINDOW_UPDATEs of sendWindowUpdates
         (then cont = Some k: enqueue/emit k follows), otherwise a forwarded PING/GOAWAY/SETTINGS *)
| RDoneSend                                (* deferred readerDone <- struct{}{} *)
| RExited                                  (* relayFrames returned; closure's defers not yet run *)
| RRet.                                    (* endSession() (if any) and wg.Done() done *)

Inductive wpc :=
| WRun                (* in its select *)
| WPend               (* has taken a frame from output: waiting for destMu or inside Write *)
| WErrSend            (* blocked in `writerErr <- err` (unbuffered writerErr only) *)
| WGone.
Inductive mpc := MPreface | MWait | MReturned.
(* remote endpoint: Half = has sent FIN (the proxy reads EOF); Stalled/HalfStalled = in addition it
   has stopped reading, so a Write toward it blocks until it goes away or the write is failed *)
Inductive conn := Open | Stalled | Half | HalfStalled | Gone.

Record dstate := mkD
  { rd : rpc; wr : wpc;
    wfailed : bool;       (* the writer's `err != nil`: it drains without sending *)
    werr : bool;          (* writerErr holds an error *)
    chan : nat;           (* occupancy of r.output *)
    queued : nat;         (* frames held in r.outputBuffers behind flow control *)
    rf : rfst;
    inflight : list kind  (* sent by the source endpoint, not yet read by the proxy *) }.

Record state := mkS
  { dc : dstate; ds : dstate;
    main : mpc;
    cli : conn; srv : conn;
    wbroken_c : bool; wbroken_s : bool;   (* writes toward that side fail *)
    sc_closed : bool;                     (* Proxy closed the upstream connection it dialled *)
    cc_closed : bool;                     (* Proxy's caller closed the client connection (after the return) *)
    closing : bool;                       (* the proxy's closing channel is closed *)
    done : bool;                          (* the session's done channel is closed *)
    trig : bool;                          (* ghost: a session-ending event has happened *)
    dleak_c : bool; dleak_s : bool }.     (* the destMu guarding writes toward the client / the server was left
                                             locked by a goroutine that has gone *)

Definition d0 : dstate := mkD RNot WGone false false 0 0 RFGone [].
Definition init : state := mkS d0 d0 MPreface Open Open false false false false false false false false false.

Definition getd (s : state) (d : side) : dstate := match d with Cl => dc s | Sv => ds s end.

Definition setd (s : state) (d : side) (x : dstate) : state :=
  match d with
  | Cl => mkS x (ds s) (main s) (cli s) (srv s) (wbroken_c s) (wbroken_s s) (sc_closed s) (cc_closed s) (closing s) (done s) (trig s) (dleak_c s) (dleak_s s)
  | Sv => mkS (dc s) x (main s) (cli s) (srv s) (wbroken_c s) (wbroken_s s) (sc_closed s) (cc_closed s) (closing s) (done s) (trig s) (dleak_c s) (dleak_s s)
  end.

Definition set_trig (s : state) : state :=
  mkS (dc s) (ds s) (main s) (cli s) (srv s) (wbroken_c s) (wbroken_s s) (sc_closed s) (cc_closed s) (closing s) (done s) true (dleak_c s) (dleak_s s).

Definition with_rd (x : dstate) (r : rpc) : dstate :=
  mkD r (wr x) (wfailed x) (werr x) (chan x) (queued x) (rf x) (inflight x).
Definition with_rd_rf (x : dstate) (r : rpc) (f : rfst) : dstate :=
  mkD r (wr x) (wfailed x) (werr x) (chan x) (queued x) f (inflight x).

Definition conn_open (c : conn) : bool := match c with Open | Stalled => true | _ => false end.
Definition is_stalled (c : conn) : bool := match c with Stalled | HalfStalled => true | _ => false end.

Definition remote (s : state) (x : side) : conn := match x with Cl => cli s | Sv => srv s end.
Definition local_closed (s : state) (x : side) : bool := match x with Cl => cc_closed s | Sv => sc_closed s end.
Definition wbroken (s : state) (x : side) : bool := match x with Cl => wbroken_c s | Sv => wbroken_s s end.

(* a write toward side x may fail *)
Definition may_fail (s : state) (x : side) : bool :=
  negb (conn_open (remote s x)) || wbroken s x || local_closed s x.

(* a Write toward side x blocks *)
Definition blocks (s : state) (x : side) : bool :=
  is_stalled (remote s x) && negb (wbroken s x) && negb (local_closed s x).

Definition is_emit_on (r : rpc) (t : side) : bool :=
  match r with REmit t' _ _ => side_eqb t t' | _ => false end.

Definition is_bad (f : kind) : bool := match f with KBad | KDataBad => true | _ => false end.

Inductive label :=
(* environment *)
| ESend (x : side) (f : kind)   (* endpoint x sends a frame ([KBad]: a protocol error) *)
| EClose (x : side)             (* endpoint x goes away (close or reset) *)
| EHalf (x : side)              (* endpoint x half-closes: the proxy reads EOF, writes still accepted *)
| EWriteFail (x : side)         (* writes toward x start failing (also one that is blocked) *)
| EStall (x : side)             (* endpoint x stops reading *)
| EClosing                      (* proxy shutdown *)
(* internal *)
| IPreface (ok : bool)
| IRead (d : side) | IReadEnd (d : side)
| ITake (d : side) (wf : bool)
| ISelErr (d : side) | ISelClosing (d : side) | ISelDone (d : side)
| ILock (d : side) | ISend (d : side) | IAbort (d : side) | IUnlock (d : side) (wf : bool)
| IDWrite (d : side) (wf : bool)  (* the reader's write under destMu (credit / forwarded control frame) completes / fails *)
| IWrite (d : side) (wf : bool)   (* the writer drains a frame without sending it (after a failure; wf must be false) *)
| IWTake (d : side)               (* the writer takes a frame from output *)
| IWSend (d : side) (wf : bool)   (* ... gets destMu and its Write completes / fails *)
| IErrHandoff (d : side)              (* unbuffered writerErr: the reader's select takes the writer's error *)
| IHandshake (d : side) | IStop (d : side)
| IJoin | ICallerClose.

Definition internal (l : label) : bool :=
  match l with
  | ESend _ _ | EClose _ | EHalf _ | EWriteFail _ | EStall _ | EClosing => false
  | _ => true
  end.

Definition set_remote (s : state) (x : side) (c : conn) : state :=
  match x with
  | Cl => mkS (dc s) (ds s) (main s) c (srv s) (wbroken_c s) (wbroken_s s) (sc_closed s) (cc_closed s) (closing s) (done s) true (dleak_c s) (dleak_s s)
  | Sv => mkS (dc s) (ds s) (main s) (cli s) c (wbroken_c s) (wbroken_s s) (sc_closed s) (cc_closed s) (closing s) (done s) true (dleak_c s) (dleak_s s)
  end.

Definition dleak (s : state) (x : side) : bool := match x with Cl => dleak_c s | Sv => dleak_s s end.

Definition set_dleak (s : state) (x : side) : state :=
  match x with
  | Cl => mkS (dc s) (ds s) (main s) (cli s) (srv s) (wbroken_c s) (wbroken_s s) (sc_closed s) (cc_closed s)
              (closing s) (done s) (trig s) true (dleak_s s)
  | Sv => mkS (dc s) (ds s) (main s) (cli s) (srv s) (wbroken_c s) (wbroken_s s) (sc_closed s) (cc_closed s)
              (closing s) (done s) (trig s) (dleak_c s) true
  end.

(* the reader of direction d leaves the loop after a failed write *)
Definition exit_failed (s : state) (d : side) : state :=
  set_trig (setd s d (with_rd_rf (getd s d) RDoneSend RFGone)).

Definition step (c : cfg) (s : state) (l : label) : option state :=
  match l with
  | ESend x f =>
      if conn_open (remote s x) then
        let dx := getd s x in
        let s1 := setd s x (mkD (rd dx) (wr dx) (wfailed dx) (werr dx) (chan dx) (queued dx) (rf dx) (inflight dx ++ [f])) in
        Some (if is_bad f then set_trig s1 else s1)
      else None
  | EClose x => Some (set_remote s x Gone)
  | EHalf x =>
      match remote s x with
      | Open => Some (set_remote s x Half)
      | Stalled => Some (set_remote s x HalfStalled)
      | _ => None
      end
  | EStall x =>
      let keep_trig (s1 : state) :=
        mkS (dc s1) (ds s1) (main s1) (cli s1) (srv s1) (wbroken_c s1) (wbroken_s s1) (sc_closed s1)
            (cc_closed s1) (closing s1) (done s1) (trig s) (dleak_c s1) (dleak_s s1) in
      match remote s x with
      | Open => Some (keep_trig (set_remote s x Stalled))
      | Half => Some (keep_trig (set_remote s x HalfStalled))
      | _ => None
      end
  | EWriteFail x =>
      Some (match x with
            | Cl => mkS (dc s) (ds s) (main s) (cli s) (srv s) true (wbroken_s s) (sc_closed s) (cc_closed s) (closing s) (done s) (trig s) (dleak_c s) (dleak_s s)
            | Sv => mkS (dc s) (ds s) (main s) (cli s) (srv s) (wbroken_c s) true (sc_closed s) (cc_closed s) (closing s) (done s) (trig s) (dleak_c s) (dleak_s s)
            end)
  | EClosing =>
      Some (mkS (dc s) (ds s) (main s) (cli s) (srv s) (wbroken_c s) (wbroken_s s) (sc_closed s) (cc_closed s) true (done s) true (dleak_c s) (dleak_s s))
  | IPreface ok =>
      match main s with
      | MPreface =>
          if ok then
            let st (x : dstate) := mkD RSel WRun false false 0 0 RFBlocked (inflight x) in
            Some (mkS (st (dc s)) (st (ds s)) MWait (cli s) (srv s) (wbroken_c s) (wbroken_s s)
                      (sc_closed s) (cc_closed s) (closing s) (done s) (trig s) (dleak_c s) (dleak_s s))
          else
            Some (mkS (dc s) (ds s) MReturned (cli s) (srv s) (wbroken_c s) (wbroken_s s)
                      (sc_closed s || fix_close c) (cc_closed s) (closing s) (done s) true (dleak_c s) (dleak_s s))
      | _ => None
      end
  | IRead d =>
      let x := getd s d in
      match rf x, inflight x with
      | RFBlocked, f :: rest =>
          if local_closed s d then None
          else Some (setd s d (mkD (rd x) (wr x) (wfailed x) (werr x) (chan x) (queued x) (RFPosted (RFrame f)) rest))
      | _, _ => None
      end
  | IReadEnd d =>
      let x := getd s d in
      match rf x with
      | RFBlocked =>
          if local_closed s d
             || (match inflight x with [] => true | _ => false end && negb (conn_open (remote s d)))
          then Some (setd s d (mkD (rd x) (wr x) (wfailed x) (werr x) (chan x) (queued x) (RFPosted REnd) (inflight x)))
          else None
      | _ => None
      end
  | ITake d wf =>
      (* wf is kept in the label for compatibility and must be false: the connection writes of
         processFrame are separate steps (IDWrite) *)
      let x := getd s d in
      if wf then None else
      match rd x, rf x with
      | RSel, RFPosted REnd => Some (setd s d (with_rd_rf x RDoneSend RFGone))
      | RSel, RFPosted (RFrame KBad) => Some (setd s d (with_rd_rf x RDoneSend RFGone))
      | RSel, RFPosted (RFrame KDataBad) =>
          Some (setd s d (if data_errs_propagate c then with_rd_rf x RDoneSend RFGone
                          else with_rd_rf x RSel RFBlocked))   (* error lost: the frame is dropped, the loop goes on *)
      | RSel, RFPosted (RFrame KDirect) => Some (setd s d (with_rd_rf x (RDPend (other d) false None) RFGone))
      | RSel, RFPosted (RFrame (KOwn pre k)) =>
          let k' := Nat.min k (S (queued x)) in
          Some (setd s d (mkD (if pre then RDPend d true (Some k') else RLock d false k')
                              (wr x) (wfailed x) (werr x) (chan x) (S (queued x)) RFGone (inflight x)))
      | RSel, RFPosted (RFrame (KWin post k)) =>
          Some (setd s d (with_rd_rf x (RLock (other d) post (Nat.min k (queued (getd s (other d))))) RFGone))
      | _, _ => None
      end
  | ISelErr d =>
      let x := getd s d in
      match rd x with
      | RSel => if werr x
                then Some (setd s d (mkD RDoneSend (wr x) (wfailed x) false (chan x) (queued x) (rf x) (inflight x)))
                else None
      | _ => None
      end
  | ISelClosing d =>
      let x := getd s d in
      match rd x with
      | RSel => if closing s then Some (setd s d (with_rd x RDoneSend)) else None
      | _ => None
      end
  | ISelDone d =>
      let x := getd s d in
      match rd x with
      | RSel => if fix_done c && done s then Some (setd s d (with_rd x RDoneSend)) else None
      | _ => None
      end
  | ILock d =>
      let x := getd s d in
      match rd x with
      | RLock t post k =>
          if is_emit_on (rd (getd s (other d))) t then None
          else Some (setd s d (with_rd x (REmit t post k)))
      | _ => None
      end
  | ISend d =>
      let x := getd s d in
      match rd x with
      | REmit t post (S k) =>
          let y := getd s t in
          if Nat.ltb (chan y) cap then
            let s1 := setd s t (mkD (rd y) (wr y) (wfailed y) (werr y) (S (chan y)) (Nat.pred (queued y)) (rf y) (inflight y)) in
            Some (setd s1 d (with_rd (getd s1 d) (REmit t post k)))
          else None
      | _ => None
      end
  | IAbort d =>
      let x := getd s d in
      match rd x with
      | REmit t post (S k) =>
          if fix_abort c && done s then Some (setd s d (with_rd x (REmit t post 0))) else None
      | _ => None
      end
  | IUnlock d wf =>
      let x := getd s d in
      if wf then None else
      match rd x with
      | REmit t post 0 =>
          Some (setd s d (if post then with_rd x (RDPend (other d) false None) else with_rd_rf x RSel RFBlocked))
      | _ => None
      end
  | IDWrite d wf =>
      (* the reader's write under destMu completes or fails; it needs the mutex (not leaked) and a
         destination that takes the bytes *)
      let x := getd s d in
      match rd x with
      | RDPend t credit cont =>
          if blocks s t || dleak s t then None
          else if wf then
            (if may_fail s t
             then if credit && negb (data_errs_propagate c)
                  then (* the error is lost: the DATA frame is dropped and the loop goes on *)
                       Some (set_trig (setd s d (mkD RSel (wr x) (wfailed x) (werr x) (chan x) (Nat.pred (queued x))
                                                     RFBlocked (inflight x))))
                  else let s1 := exit_failed s d in
                       Some (if credit && negb (credit_unlocks c) then set_dleak s1 t else s1)
             else None)
          else Some (setd s d (match cont with
                               | Some k => with_rd x (RLock d false k)
                               | None => with_rd_rf x RSel RFBlocked
                               end))
      | _ => None
      end
  | IWrite d wf =>
      (* drain: after a failed write the writer drops the remaining frames without sending *)
      let x := getd s d in
      match wr x, chan x with
      | WRun, S n =>
          if wfailed x && negb wf
          then Some (setd s d (mkD (rd x) (wr x) true (werr x) n (queued x) (rf x) (inflight x)))
          else None
      | _, _ => None
      end
  | IWTake d =>
      let x := getd s d in
      match wr x, chan x with
      | WRun, S n =>
          if negb (wfailed x)
          then Some (setd s d (mkD (rd x) WPend false (werr x) n (queued x) (rf x) (inflight x)))
          else None
      | _, _ => None
      end
  | IWSend d wf =>
      let x := getd s d in
      match wr x with
      | WPend =>
          if blocks s (other d) || dleak s (other d) then None
          else if wf then
            (if may_fail s (other d)
             then Some (set_trig (setd s d
                    (if werr_buffered c
                     then mkD (rd x) WRun true true (chan x) (queued x) (rf x) (inflight x)
                     else mkD (rd x) WErrSend true (werr x) (chan x) (queued x) (rf x) (inflight x))))
             else None)
          else Some (setd s d (mkD (rd x) WRun (wfailed x) (werr x) (chan x) (queued x) (rf x) (inflight x)))
      | _ => None
      end
  | IErrHandoff d =>
      let x := getd s d in
      match rd x, wr x with
      | RSel, WErrSend =>
          Some (setd s d (mkD RDoneSend WRun (wfailed x) (werr x) (chan x) (queued x) (rf x) (inflight x)))
      | _, _ => None
      end
  | IHandshake d =>
      let x := getd s d in
      match rd x, wr x with
      | RDoneSend, WRun =>
          Some (setd s d (mkD RExited WGone (wfailed x) (werr x) (chan x) (queued x) (rf x) (inflight x)))
      | _, _ => None
      end
  | IStop d =>
      let x := getd s d in
      match rd x with
      | RExited =>
          let s1 := setd s d (with_rd x RRet) in
          Some (mkS (dc s1) (ds s1) (main s1) (cli s1) (srv s1) (wbroken_c s1) (wbroken_s s1)
                    (sc_closed s1) (cc_closed s1) (closing s1) true (trig s1) (dleak_c s1) (dleak_s s1))
      | _ => None
      end
  | IJoin =>
      match main s, rd (dc s), rd (ds s) with
      | MWait, RRet, RRet =>
          Some (mkS (dc s) (ds s) MReturned (cli s) (srv s) (wbroken_c s) (wbroken_s s)
                    (sc_closed s || fix_close c) (cc_closed s) (closing s) (done s) (trig s) (dleak_c s) (dleak_s s))
      | _, _, _ => None
      end
  | ICallerClose =>
      match main s with
      | MReturned =>
          if cc_closed s then None
          else Some (mkS (dc s) (ds s) (main s) (cli s) (srv s) (wbroken_c s) (wbroken_s s)
                         (sc_closed s) true (closing s) (done s) (trig s) (dleak_c s) (dleak_s s))
      | _ => None
      end
  end.

Fixpoint run (c : cfg) (s : state) (ls : list label) : option state :=
  match ls with
  | [] => Some s
  | l :: ls' => match step c s l with Some s' => run c s' ls' | None => None end
  end.

(* trace admissibility *)
Definition accepts (c : cfg) (ls : list label) : bool :=
  match run c init ls with Some _ => true | None => false end.

(* every internal label, up to the parameters that matter *)
Definition all_internal : list label :=
  [IPreface true; IPreface false; IJoin; ICallerClose]
  ++ flat_map (fun d => [IRead d; IReadEnd d; ITake d false; ITake d true; ISelErr d; ISelClosing d; ISelDone d;
                         ILock d; ISend d; IAbort d; IUnlock d false; IUnlock d true; IDWrite d false; IDWrite d true;
                         IWrite d false; IWrite d true; IWTake d; IWSend d false; IWSend d true;
                         IErrHandoff d; IHandshake d; IStop d]) [Cl; Sv].

Definition enabled (c : cfg) (s : state) (l : label) : bool :=
  match step c s l with Some _ => true | None => false end.

Definition quiescentb (c : cfg) (s : state) : bool :=
  forallb (fun l => negb (enabled c s l)) all_internal.

(* ---------------------------------------------------------------- observation *)

Definition reader_alive (r : rpc) : bool := match r with RNot | RRet => false | _ => true end.
Definition writer_alive (w : wpc) : bool := match w with WGone => false | _ => true end.
Definition rf_alive (f : rfst) : bool := match f with RFBlocked => true | _ => false end.
Definition main_alive (m : mpc) : bool := match m with MReturned => false | _ => true end.

Definition b2n (b : bool) : nat := if b then 1 else 0.

Definition dir_goroutines (x : dstate) : nat :=
  b2n (reader_alive (rd x)) + b2n (writer_alive (wr x)) + b2n (rf_alive (rf x)).

Definition goroutines (s : state) : nat :=
  b2n (main_alive (main s)) + dir_goroutines (dc s) + dir_goroutines (ds s).

(* what the harness observes of a finished scenario *)
Record obs := mkObs
  { o_returned : bool;     (* Proxy returned within T *)
    o_upstream_eof : bool; (* the TLS server saw its accepted connection end *)
    o_goroutines : nat }.  (* goroutines with martian/v3/h2 frames still alive *)

Definition returned (s : state) : bool := match main s with MReturned => true | _ => false end.

Definition obs_of (s : state) : obs := mkObs (returned s) (sc_closed s) (goroutines s).

(* the property oracle *)
Definition c10_ok (o : obs) : bool :=
  o_returned o && o_upstream_eof o && Nat.eqb (o_goroutines o) 0.

(* goroutine census by blocking point, as the harness classifies stack dumps:
   (MAIN, RSEL, REMIT, RLOCK, RDONE, ROTHER, W, RF) *)
Definition census_dir (x : dstate) : list nat :=
  [ b2n (match rd x with RSel => true | _ => false end);
    b2n (match rd x with REmit _ _ _ => true | _ => false end);
    b2n (match rd x with RLock _ _ _ => true | _ => false end);
    b2n (match rd x with RDoneSend => true | _ => false end);
    b2n (match rd x with RExited | RDPend _ _ _ => true | _ => false end);
    b2n (writer_alive (wr x));
    b2n (rf_alive (rf x)) ].

Definition census (s : state) : list nat :=
  b2n (main_alive (main s)) :: map (fun p => fst p + snd p) (combine (census_dir (dc s)) (census_dir (ds s))).

(* ---------------------------------------------------------------- eager scheduler
   Used by the driver to predict the outcome of a harness script: after each
   environment label, internal steps are run to quiescence, always taking
   the first enabled label of [sched_order]; a write fails as soon as it may. *)

Definition sched_order : list label :=
  flat_map (fun d => [IWrite d true; IWrite d false; IWTake d; IWSend d true; IWSend d false;
                      IErrHandoff d; IDWrite d true; IDWrite d false; ITake d false; IUnlock d false;
                      ISelErr d; ISelDone d; ISelClosing d; IAbort d; ISend d; ILock d;
                      IHandshake d; IStop d; IRead d; IReadEnd d]) [Cl; Sv]
  ++ [IPreface true; IJoin; ICallerClose].

Fixpoint first_step (c : cfg) (s : state) (ls : list label) : option state :=
  match ls with
  | [] => None
  | l :: ls' => match step c s l with Some s' => Some s' | None => first_step c s ls' end
  end.

Fixpoint settle (c : cfg) (fuel : nat) (s : state) : state * bool :=
  match fuel with
  | 0 => (s, false)    (* out of fuel: excluded by the measure, reported by the driver *)
  | S f => match first_step c s sched_order with
           | Some s' => settle c f s'
           | None => (s, true)
           end
  end.

(* the internal-step budget any state needs (see Proofs: measure) *)
Definition kcost (f : kind) : nat :=
  match f with KOwn _ k => 7 * k + 16 | KWin _ k => 7 * k + 16 | _ => 16 end.

Definition rf_rank (f : rfst) : nat :=
  match f with
  | RFBlocked => 2
  | RFPosted (RFrame k) => kcost k - 3
  | RFPosted REnd => 1
  | RFGone => 0
  end.

Definition rd_rank (r : rpc) : nat :=
  match r with
  | RNot => 0 | RRet => 0 | RExited => 1 | RDoneSend => 2 | RSel => 3
  | REmit _ _ k => 7 * k + 9
  | RLock _ _ k => 7 * k + 10
  | RDPend _ _ None => 6
  | RDPend _ _ (Some k) => 7 * k + 11
  end.

Definition dir_measure (x : dstate) : nat :=
  fold_right (fun f n => kcost f + n) 0 (inflight x)
  + rf_rank (rf x) + rd_rank (rd x) + 6 * chan x + b2n (werr x)
  + match wr x with WGone => 0 | WRun => 1 | WErrSend => 3 | WPend => 5 end.

Definition measure (s : state) : nat :=
  dir_measure (dc s) + dir_measure (ds s)
  + match main s with MPreface => 20 | MWait => 2 | MReturned => 0 end
  + b2n (negb (cc_closed s)).

(* One harness script op = some environment labels; the per-op observation is
   "has Proxy returned".  [predict] returns the per-op flags, the final state
   and whether every settle reached quiescence within its fuel. *)
Fixpoint predict (c : cfg) (s : state) (ops : list (list label)) : list bool * state * bool :=
  match ops with
  | [] => ([], s, true)
  | op :: ops' =>
      let s1 := fold_left (fun st l => match step c st l with Some st' => st' | None => st end) op s in
      let '(s2, ok) := settle c (S (measure s1)) s1 in
      let '(fl, s3, ok') := predict c s2 ops' in
      (returned s2 :: fl, s3, ok && ok')
  end.
