(* C10 — invariants of the repaired relay ([cfg_fixed]) over all reachable
   states, as one boolean predicate preserved by every label. *)
From Coq Require Import List Bool Arith Lia.
From Martian.C10 Require Import Gen_H2Const Model Proofs_Measure.
Import ListNotations.

Definition reachable (c : cfg) (s : state) : Prop := exists ls, run c init ls = Some s.

Definition in_loop (r : rpc) : bool :=
  match r with RSel | RLock _ _ _ | REmit _ _ _ | RDoneSend => true | _ => false end.

Definition rf_gone (f : rfst) : bool := match f with RFGone => true | _ => false end.

(* per direction, given main and the done flag *)
Definition dir_inv (m : mpc) (dn : bool) (x : dstate) : bool :=
  (* the writer lives exactly as long as the reader is inside relayFrames *)
  (if in_loop (rd x) then writer_alive (wr x) else negb (writer_alive (wr x)))
  (* a direction that has fully ended has closed done *)
  && (match rd x with RRet => dn | _ => true end)
  (* not started <-> Proxy has not got past the preface *)
  && (match m, rd x with
      | MPreface, RNot => true | MPreface, _ => false
      | MWait, RNot => false
      | _, _ => true end)
  && (match rd x with RNot => rf_gone (rf x) && negb (werr x) | _ => true end)
  (* at the select a ReadFrame goroutine is outstanding or has posted *)
  && (match rd x with RSel => negb (rf_gone (rf x)) | _ => true end)
  (* Proxy returns only after both directions have *)
  && (match m with MReturned => negb (reader_alive (rd x)) | _ => true end).

(* evidence that the session is ending, per direction *)
Definition ev_dir (x : dstate) : bool :=
  existsb is_bad (inflight x)
  || (match rf x with RFPosted (RFrame KBad) => true | _ => false end)
  || werr x
  || (match rd x with RDoneSend | RExited | RRet => true | _ => false end).

Definition glob_inv (s : state) : bool :=
  (match main s with
   | MReturned => sc_closed s
   | _ => negb (sc_closed s) && negb (cc_closed s) end)
  && implb (trig s)
       (closing s || negb (conn_open (cli s)) || negb (conn_open (srv s)) || done s
        || returned s || ev_dir (dc s) || ev_dir (ds s)).

Definition invb (s : state) : bool :=
  dir_inv (main s) (done s) (dc s) && dir_inv (main s) (done s) (ds s) && glob_inv s.

Ltac split_hyps :=
  repeat match goal with
         | H : _ && _ = true |- _ => apply andb_prop in H; destruct H
         end.

Ltac split_goal := repeat (apply andb_true_intro; split).

Ltac crush_var :=
  match goal with
  | |- context [match ?v with _ => _ end] => is_var v; destruct v
  | |- context [if ?v then _ else _] => is_var v; destruct v
  | |- context [negb ?v] => is_var v; destruct v
  | |- context [?v || _] => is_var v; destruct v
  | |- context [_ || ?v] => is_var v; destruct v
  | |- context [?v && _] => is_var v; destruct v
  | |- context [_ && ?v] => is_var v; destruct v
  | |- context [implb ?v _] => is_var v; destruct v
  | |- context [existsb ?f ?l] => let E := fresh "E" in destruct (existsb f l) eqn:E
  end.

Ltac finish :=
  simpl in *; try reflexivity; try discriminate; try assumption; try congruence.

Ltac crush := finish; repeat (crush_var; finish).

Lemma existsb_snoc : forall (f : kind -> bool) l x, existsb f (l ++ [x]) = existsb f l || f x.
Proof. intros. rewrite existsb_app. simpl. rewrite orb_false_r. reflexivity. Qed.

Lemma inv_init : invb init = true.
Proof. reflexivity. Qed.

Arguments cap : simpl never.
Arguments Nat.ltb : simpl never.
Arguments Nat.min : simpl never.

Lemma inv_step : forall s l s',
  invb s = true -> step cfg_fixed s l = Some s' -> invb s' = true.
Proof.
  intros s l s' Hinv Hs.
  destruct_state s.
  destruct l; try destruct d; try destruct x;
    cbn [step getd setd with_rd with_rd_rf exit_failed set_trig set_remote remote
         dc ds main cli srv wbroken_c wbroken_s sc_closed cc_closed closing done trig
         rd wr wfailed werr chan queued rf inflight other cfg_fixed fix_close fix_done fix_abort] in Hs;
    repeat bm; try discriminate Hs; inversion Hs; subst; clear Hs;
    repeat match goal with t : side |- _ => destruct t end;
    unfold invb, dir_inv, glob_inv, ev_dir in *;
    cbn [exit_failed set_trig set_remote getd setd with_rd with_rd_rf
         dc ds main cli srv wbroken_c wbroken_s sc_closed cc_closed closing done trig
         rd wr wfailed werr chan queued rf inflight other returned] in *;
    try rewrite !existsb_snoc;
    split_hyps; split_goal; crush.
Qed.

Lemma inv_run : forall ls s s',
  invb s = true -> run cfg_fixed s ls = Some s' -> invb s' = true.
Proof.
  induction ls as [|l ls IH]; intros s s' Hi Hr; simpl in Hr.
  - inversion Hr; subst; assumption.
  - destruct (step cfg_fixed s l) as [s1|] eqn:E; [|discriminate].
    eapply IH; [eapply inv_step; eassumption | exact Hr].
Qed.

Lemma inv_reachable : forall s, reachable cfg_fixed s -> invb s = true.
Proof. intros s [ls H]. eapply inv_run; [exact inv_init | exact H]. Qed.
