(* C10 — invariants of the repaired relay ([cfg_fixed]) over all reachable
   states, preserved by every label. *)
From Coq Require Import List Bool Arith Lia.
From Martian.C10 Require Import Gen_H2Const Model Proofs_Measure.
Import ListNotations.

Definition reachable (c : cfg) (s : state) : Prop := exists ls, run c init ls = Some s.

Definition in_loop (r : rpc) : bool :=
  match r with RSel | RLock _ _ _ | REmit _ _ _ | RDPend _ _ _ | RDoneSend => true | _ => false end.

Definition rf_gone (f : rfst) : bool := match f with RFGone => true | _ => false end.

(* per direction, given main and the done flag *)
Definition dir_inv (m : mpc) (dn : bool) (x : dstate) : bool :=
  (* the writer lives exactly as long as the reader is inside relayFrames *)
  (if in_loop (rd x) then writer_alive (wr x) else negb (writer_alive (wr x)))
  (* a direction that has fully ended has closed done *)
  && (match rd x with RRet => dn | _ => true end)
  (* not started <-> Proxy has not got past the preface *)
  && (match m, rd x with
      | MPreface, RNot => true | MPreface, _ => false
      | MWait, RNot => false
      | _, _ => true end)
  && (match rd x with RNot => rf_gone (rf x) && negb (werr x) | _ => true end)
  (* at the select a ReadFrame goroutine is outstanding or has posted *)
  && (match rd x with
      | RSel => negb (rf_gone (rf x))
      | RLock _ _ _ | REmit _ _ _ | RDPend _ _ _ => rf_gone (rf x)   (* the posted frame has been taken *)
      | _ => true end)
  (* Proxy returns only after both directions have *)
  && (match m with MReturned => negb (reader_alive (rd x)) | _ => true end).

Definition not_errsend (w : wpc) : bool := match w with WErrSend => false | _ => true end.

Definition dinv (s : state) (d : side) : bool := dir_inv (main s) (done s) (getd s d).

(* the upstream connection is closed exactly when Proxy has returned; the
   caller closes the client connection only after that *)
Definition glob1 (s : state) : bool :=
  match main s with
  | MReturned => sc_closed s
  | _ => negb (sc_closed s) && negb (cc_closed s)
  end
  (* writerErr is buffered: the writer never waits to hand its error over *)
  && not_errsend (wr (dc s)) && not_errsend (wr (ds s))
  (* no destMu is ever left locked *)
  && negb (dleak_c s) && negb (dleak_s s).

(* evidence that the session is ending *)
Definition left_loop (r : rpc) : Prop := r = RDoneSend \/ r = RExited \/ r = RRet.

Definition rf_bad (r : rfst) : bool := match r with RFPosted (RFrame f) => is_bad f | _ => false end.

Definition EvD (x : dstate) : Prop :=
  existsb is_bad (inflight x) = true \/ rf_bad (rf x) = true \/ werr x = true \/ left_loop (rd x).

Definition Ev (s : state) : Prop :=
  closing s = true \/ conn_open (cli s) = false \/ conn_open (srv s) = false \/ done s = true
  \/ main s = MReturned \/ EvD (dc s) \/ EvD (ds s).

Definition TrigInv (s : state) : Prop := trig s = true -> Ev s.

Definition Inv (s : state) : Prop :=
  dinv s Cl = true /\ dinv s Sv = true /\ glob1 s = true /\ TrigInv s.

Ltac split_hyps :=
  repeat match goal with
         | H : _ && _ = true |- _ => apply andb_prop in H; destruct H
         end.

Ltac split_goal := repeat (apply andb_true_intro; split).

Ltac crush_var :=
  match goal with
  | |- context [match ?v with _ => _ end] => is_var v; destruct v
  | |- context [if ?v then _ else _] => is_var v; destruct v
  | |- context [negb ?v] => is_var v; destruct v
  | |- context [?v && _] => is_var v; destruct v
  | |- context [_ && ?v] => is_var v; destruct v
  | |- context [in_loop ?v] => is_var v; destruct v
  | |- context [reader_alive ?v] => is_var v; destruct v
  | |- context [writer_alive ?v] => is_var v; destruct v
  | |- context [rf_gone ?v] => is_var v; destruct v
  | |- context [not_errsend ?v] => is_var v; destruct v
  end.

Ltac finish := simpl in *; try rewrite !orb_true_r; try reflexivity; try discriminate; try assumption.
Ltac crush := finish; repeat (crush_var; finish).

Lemma existsb_snoc : forall (f : kind -> bool) l x, existsb f (l ++ [x]) = existsb f l || f x.
Proof. intros. rewrite existsb_app. simpl. rewrite orb_false_r. reflexivity. Qed.

Arguments cap : simpl never.
Arguments Nat.ltb : simpl never.
Arguments Nat.min : simpl never.

Ltac step_cases s l Hs :=
  destruct_state s;
  destruct l; repeat match goal with t : side |- _ => destruct t end;
  cbn [step getd setd with_rd with_rd_rf exit_failed set_trig set_remote remote
       dc ds main cli srv wbroken_c wbroken_s sc_closed cc_closed closing done trig dleak_c dleak_s dleak set_dleak
       rd wr wfailed werr chan queued rf inflight other cfg_fixed fix_close fix_done fix_abort werr_buffered credit_unlocks data_errs_propagate
       andb negb] in Hs;
  repeat bm; try discriminate Hs; inversion Hs; subst; clear Hs;
  repeat match goal with t : side |- _ => destruct t end;
  repeat match goal with
         | |- context [if ?b then _ else _] => is_var b; destruct b
         | |- context [match ?o with Some _ => _ | None => _ end] => is_var o; destruct o
         end.

Ltac red_state :=
  cbn [exit_failed set_trig set_remote getd setd with_rd with_rd_rf
       dc ds main cli srv wbroken_c wbroken_s sc_closed cc_closed closing done trig dleak_c dleak_s dleak set_dleak
       rd wr wfailed werr chan queued rf inflight other returned] in *.

Lemma dinv_step_any : forall c s l s' d0,
  dinv s Cl = true -> dinv s Sv = true -> step c s l = Some s' -> dinv s' d0 = true.
Proof.
  intros c s l s' d0 Hc Hv Hs.
  step_cases s l Hs; destruct d0; unfold dinv, dir_inv in *; red_state;
    split_hyps; split_goal; crush.
Qed.

Lemma dinv_step : forall s l s' d0,
  dinv s Cl = true -> dinv s Sv = true -> step cfg_fixed s l = Some s' -> dinv s' d0 = true.
Proof. intros. eapply dinv_step_any; eassumption. Qed.

Lemma dinv_reachable_any : forall c s, reachable c s -> dinv s Cl = true /\ dinv s Sv = true.
Proof.
  intros c s [ls H]. revert H.
  assert (G : forall ks s0, dinv s0 Cl = true /\ dinv s0 Sv = true -> run c s0 ks = Some s ->
                            dinv s Cl = true /\ dinv s Sv = true).
  { induction ks as [|l ks IH]; intros s0 [Hc Hv] Hr; simpl in Hr.
    - inversion Hr; subst; split; assumption.
    - destruct (step c s0 l) as [s1|] eqn:E; [|discriminate].
      eapply IH; [|exact Hr]. split; eapply dinv_step_any; eassumption. }
  apply G. split; reflexivity.
Qed.

Definition noerr (s : state) : bool := not_errsend (wr (dc s)) && not_errsend (wr (ds s)).

Lemma noerr_step_any : forall c s l s',
  werr_buffered c = true -> noerr s = true -> step c s l = Some s' -> noerr s' = true.
Proof.
  intros c s l s' Hwb Hn Hs.
  destruct_state s;
  destruct l; repeat match goal with t : side |- _ => destruct t end;
  cbn [step getd setd with_rd with_rd_rf exit_failed set_trig set_remote remote
       dc ds main cli srv wbroken_c wbroken_s sc_closed cc_closed closing done trig dleak_c dleak_s dleak set_dleak
       rd wr wfailed werr chan queued rf inflight other] in Hs;
  try rewrite Hwb in Hs;
  repeat bm; try discriminate Hs; inversion Hs; subst; clear Hs;
  repeat match goal with t : side |- _ => destruct t end;
  unfold noerr in *; red_state; try assumption;
  split_hyps; split_goal; crush.
Qed.

Lemma noerr_reachable_any : forall c s, werr_buffered c = true -> reachable c s -> noerr s = true.
Proof.
  intros c s Hwb [ls H]. revert H.
  assert (G : forall ks s0, noerr s0 = true -> run c s0 ks = Some s -> noerr s = true).
  { induction ks as [|l ks IH]; intros s0 Hn Hr; simpl in Hr.
    - inversion Hr; subst; assumption.
    - destruct (step c s0 l) as [s1|] eqn:E; [|discriminate].
      eapply IH; [|exact Hr]. eapply noerr_step_any; eassumption. }
  apply G. reflexivity.
Qed.

Lemma glob1_step : forall s l s',
  dinv s Cl = true -> dinv s Sv = true -> glob1 s = true ->
  step cfg_fixed s l = Some s' -> glob1 s' = true.
Proof.
  intros s l s' Hc Hv Hg Hs.
  step_cases s l Hs; unfold glob1 in *; red_state; clear Hc Hv; split_hyps; split_goal; crush.
Qed.

Ltac ev_tac :=
  unfold Ev, EvD, left_loop in *; red_state;
  repeat match goal with f : kind |- _ => destruct f end;
  try rewrite !existsb_snoc;
  simpl existsb in *; simpl rf_bad in *; simpl is_bad in *;
  rewrite ?orb_false_r, ?orb_true_r in *;
  intuition (try reflexivity; try congruence).

Lemma trig_step : forall s l s',
  dinv s Cl = true -> dinv s Sv = true -> TrigInv s ->
  step cfg_fixed s l = Some s' -> TrigInv s'.
Proof.
  intros s l s' Hc Hv Ht Hs.
  step_cases s l Hs; unfold TrigInv in *; red_state; intro Htr;
    try (specialize (Ht Htr));
    try (solve [clear Hc Hv; ev_tac]);
    unfold dinv, dir_inv in *; red_state; split_hyps;
    repeat match goal with
           | H : context [match ?v with _ => _ end] |- _ => is_var v; destruct v; simpl in H; try discriminate H
           | H : context [rf_gone ?v] |- _ => is_var v; destruct v; simpl in H; try discriminate H
           | H : context [negb ?v] |- _ => is_var v; destruct v; simpl in H; try discriminate H
           end;
    ev_tac.
Qed.

Lemma inv_init : Inv init.
Proof. unfold Inv, TrigInv. simpl. intuition discriminate. Qed.

Lemma inv_step : forall s l s', Inv s -> step cfg_fixed s l = Some s' -> Inv s'.
Proof.
  intros s l s' (Hc & Hv & Hg & Ht) Hs. unfold Inv.
  split; [eapply dinv_step; eassumption|].
  split; [eapply dinv_step; eassumption|].
  split; [eapply glob1_step; eassumption|].
  eapply trig_step; eassumption.
Qed.

Lemma inv_run : forall ls s s', Inv s -> run cfg_fixed s ls = Some s' -> Inv s'.
Proof.
  induction ls as [|l ls IH]; intros s s' Hi Hr; simpl in Hr.
  - inversion Hr; subst; assumption.
  - destruct (step cfg_fixed s l) as [s1|] eqn:E; [|discriminate].
    eapply IH; [eapply inv_step; eassumption | exact Hr].
Qed.

Lemma inv_reachable : forall s, reachable cfg_fixed s -> Inv s.
Proof. intros s [ls H]. eapply inv_run; [exact inv_init | exact H]. Qed.
