From Coq Require Import ExtrOcamlBasic ExtrOcamlString.
From Martian.Common Require Import ExtractBase.
From Martian.C10 Require Import Gen_H2Const Model Model_Oracle.
Extraction Language OCaml.
Extraction "model.ml" base_anchor cfg_fixed cfg_orig cfg_src cap init step run accepts
  quiescentb obs_of c10_ok census goroutines predict measure blocks c10_verdict c10_applicable model_raw.
