(* C10 — what must NOT happen: as long as no session-ending event has occurred the session is
   intact (for every configuration): Proxy has not returned, neither connection has been closed by
   the proxy, both relay directions are inside their loops, no error is pending anywhere. *)
From Coq Require Import List Bool Arith Lia.
From Martian.C10 Require Import Gen_H2Const Model Proofs_Measure Proofs_Inv Proofs_Tac Proofs_Live Proofs_Partial Proofs_Refute.
Import ListNotations.

Definition clean_dir (x : dstate) : bool :=
  (match rd x with RDoneSend | RExited | RRet => false | _ => true end)
  && negb (werr x) && negb (wfailed x)
  && (match wr x with WErrSend => false | _ => true end)
  && (match rf x with RFPosted REnd => false | RFPosted (RFrame f) => negb (is_bad f) | _ => true end)
  && negb (existsb is_bad (inflight x)).

Definition clean (s : state) : bool :=
  negb (returned s) && negb (done s) && negb (closing s) && conn_open (cli s) && conn_open (srv s)
  && negb (sc_closed s) && negb (cc_closed s) && negb (dleak_c s) && negb (dleak_s s)
  && clean_dir (dc s) && clean_dir (ds s).

Lemma clean_step : forall c s l s',
  clean s = true -> step c s l = Some s' -> trig s' = false -> clean s' = true.
Proof.
  intros c s l s' Hc Hs Ht.
  step_cases s l Hs; unfold clean, clean_dir in *; red_state; try discriminate Ht;
    try rewrite !existsb_snoc; simpl existsb in *; simpl is_bad in *;
    split_hyps;
    repeat match goal with
           | H : negb (_ || _) = true |- _ => rewrite negb_orb in H; apply andb_prop in H; destruct H
           end;
    split_goal; crush;
    try (match goal with E : is_bad _ = false |- _ => rewrite E, orb_false_r; assumption end);
    try congruence;
    try (repeat match goal with H : negb ?v = true |- _ => is_var v; destruct v; [discriminate H|clear H] end;
         repeat match goal with H : conn_open _ = true |- _ => rewrite H in *; clear H end;
         simpl in *; rewrite ?andb_false_r in *; simpl in *; congruence).
Qed.

Lemma clean_init : clean init = true.
Proof. reflexivity. Qed.

Lemma trig_false_back : forall c s l s', step c s l = Some s' -> trig s' = false -> trig s = false.
Proof.
  intros c s l s' Hs Ht. destruct (trig s) eqn:E; [|reflexivity].
  rewrite (trig_stable _ _ _ _ E Hs) in Ht. discriminate.
Qed.

Lemma trig_false_run_back : forall c ls s s', run c s ls = Some s' -> trig s' = false -> trig s = false.
Proof.
  induction ls as [|l ls IH]; intros s s' Hr Ht; simpl in Hr.
  - inversion Hr; subst; assumption.
  - destruct (step c s l) as [s1|] eqn:E; [|discriminate].
    eapply trig_false_back; [exact E|]. eapply IH; eassumption.
Qed.

Lemma clean_run : forall c ls s s',
  clean s = true -> run c s ls = Some s' -> trig s' = false -> clean s' = true.
Proof.
  induction ls as [|l ls IH]; intros s s' Hc Hr Ht; simpl in Hr.
  - inversion Hr; subst; assumption.
  - destruct (step c s l) as [s1|] eqn:E; [|discriminate].
    eapply IH; [eapply clean_step; [exact Hc|exact E|eapply trig_false_run_back; eassumption] | exact Hr | exact Ht].
Qed.

(* For every configuration: while no session-ending event has happened, the session is intact. *)
Lemma intact_until_triggered : forall c s, reachable c s -> trig s = false -> clean s = true.
Proof. intros c s [ls H] Ht. eapply clean_run; [exact clean_init | exact H | exact Ht]. Qed.

Lemma no_spurious_return : forall c s, reachable c s -> main s = MReturned -> trig s = true.
Proof.
  intros c s Hr Hm. destruct (trig s) eqn:E; [reflexivity|].
  pose proof (intact_until_triggered c s Hr E) as Hc. unfold clean, returned in Hc. rewrite Hm in Hc. discriminate.
Qed.

Lemma no_spurious_close : forall c s, reachable c s -> trig s = false ->
  sc_closed s = false /\ cc_closed s = false /\ main s <> MReturned /\ goroutines s <> 0 \/ main s = MPreface.
Proof.
  intros c s Hr Ht. pose proof (intact_until_triggered c s Hr Ht) as Hc.
  unfold clean in Hc. repeat (apply andb_prop in Hc; destruct Hc as [Hc ?]).
  destruct (main s) eqn:Em; [right; reflexivity| left | unfold returned in Hc; rewrite Em in Hc; discriminate].
  repeat split; try (apply negb_true_iff; assumption); try discriminate.
  unfold goroutines. rewrite Em. simpl. discriminate.
Qed.
