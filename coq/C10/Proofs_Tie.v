(* C10 — the tie to the source: the theorems in Properties.v are about
   [cfg_fixed]; this file checks that the tree being verified IS that code
   (the translator gen_c10 read the three repairs, the channel capacities
   and the shapes it relies on from h2/h2.go and h2/relay.go).  It stops
   compiling when the source is the unrepaired (or a partially repaired or
   otherwise reshaped) relay. *)
From Martian.C10 Require Import Gen_H2Const Model.

Lemma source_is_the_repaired_relay : cfg_src = cfg_fixed.
Proof. reflexivity. Qed.

Lemma source_channel_capacity_positive : Nat.ltb 0 output_channel_size = true.
Proof. reflexivity. Qed.

(* readerDone unbuffered (the reader waits until the writer has gone), writerErr and
   frameReady buffered with one slot (neither the writer nor an abandoned ReadFrame
   goroutine ever waits for the reader) *)
Lemma source_relayFrames_channel_capacities :
  (reader_done_capacity, writer_err_capacity, frame_ready_capacity) = (0, 1, 1).
Proof. reflexivity. Qed.

Lemma source_shape_recognised : src_shape_ok = true.
Proof. reflexivity. Qed.

(* The model's step IStop sets `done` idempotently: the second direction that ends finds it closed and
   nothing else happens.  That is what closing the channel under a sync.Once gives; a check-then-close
   that is not atomic would close twice (a Go panic: the whole process dies instead of Proxy returning)
   when both directions end together, e.g. on proxy shutdown. *)
Lemma source_closes_done_at_most_once : src_done_closed_at_most_once = true.
Proof. reflexivity. Qed.
