(* C10 — the tie to the source: the theorems in Properties.v are about
   [cfg_fixed]; this file checks that the tree being verified IS that code
   (the translator gen_c10 read the three repairs and the channel capacity
   from h2/h2.go and h2/relay.go).  It stops compiling when the source is
   the unrepaired (or a partially repaired) relay. *)
From Martian.C10 Require Import Gen_H2Const Model.

Lemma source_is_the_repaired_relay : cfg_src = cfg_fixed.
Proof. reflexivity. Qed.

Lemma source_channel_capacity_positive : Nat.ltb 0 output_channel_size = true.
Proof. reflexivity. Qed.
