(* C10 — the computations behind the Examples of Properties.v (kept out of Properties.v so that
   re-checking it for Print Assumptions does not redo them). *)
From Coq Require Import List Bool Arith.
From Martian.C10 Require Import Gen_H2Const Model Model_Oracle Proofs_Measure Proofs_Inv Proofs_Tac Proofs_Live Proofs_Partial
     Proofs_Refute Proofs_Safe Proofs_Runs.
Import ListNotations.

Lemma ex_full_channel :
  match run cfg_fixed init (w_full_then_end ++ [IAbort Sv; IUnlock Sv false; ISelDone Sv; IHandshake Sv; IStop Sv;
                                               IJoin; ICallerClose; IReadEnd Sv]) with
  | Some s => quiescentb cfg_fixed s && trig s && c10_ok (obs_of s)
  | None => false
  end = true.
Proof. vm_compute. reflexivity. Qed.

Lemma ex_late_write_failure :
  match run cfg_fixed init (w_blocked_write_fails_late ++ [IHandshake Cl; IStop Cl; IJoin; ICallerClose; IReadEnd Cl]) with
  | Some s => quiescentb cfg_fixed s && trig s && negb (blocks s Cl) && negb (blocks s Sv) && c10_ok (obs_of s)
  | None => false
  end = true.
Proof. vm_compute. reflexivity. Qed.

Lemma ex_credit_failure :
  match run cfg_fixed init (w_credit_fails_writer_waits ++ [IWSend Sv true; IHandshake Sv; IStop Sv; IJoin; ICallerClose; IReadEnd Sv]) with
  | Some s => quiescentb cfg_fixed s && trig s && negb (blocks s Cl) && negb (blocks s Sv) && c10_ok (obs_of s)
  | None => false
  end = true.
Proof. vm_compute. reflexivity. Qed.

Lemma ex_data_errors_end_the_session :
  match run cfg_fixed init (w_credit_write_fails ++ [IHandshake Cl; IStop Cl; ISelDone Sv; IHandshake Sv; IStop Sv; IJoin; ICallerClose; IReadEnd Sv]),
        run cfg_fixed init (w_processor_rejects_data ++ [IHandshake Cl; IStop Cl; ISelDone Sv; IHandshake Sv; IStop Sv; IJoin; ICallerClose; IReadEnd Sv]) with
  | Some s1, Some s2 => quiescentb cfg_fixed s1 && trig s1 && c10_ok (obs_of s1) && quiescentb cfg_fixed s2 && trig s2 && c10_ok (obs_of s2)
  | _, _ => false
  end = true.
Proof. vm_compute. reflexivity. Qed.

Lemma ex_maximal_run :
  match run cfg_fixed init w_full_then_end with
  | Some s =>
      let ls := [IAbort Sv; IUnlock Sv false; ISelDone Sv; IHandshake Sv; IStop Sv; IJoin; ICallerClose; IReadEnd Sv] in
      trig s && forallb internal ls &&
      match run cfg_fixed s ls with
      | Some s' => quiescentb cfg_fixed s' && negb (blocks s' Cl) && negb (blocks s' Sv)
                   && Nat.leb (length ls) (measure s)
                   && match c10_verdict (model_raw s') with None => true | Some _ => false end
      | None => false
      end
  | None => false
  end = true.
Proof. vm_compute. reflexivity. Qed.

Lemma ex_intact :
  match run cfg_fixed init (w_idle ++ rep 3 w_queue1 ++ [ESend Sv KDirect; IRead Sv; ITake Sv false; IDWrite Sv false]) with
  | Some s => negb (trig s) && negb (returned s) && Nat.eqb (goroutines s) 7
  | None => false
  end = true.
Proof. vm_compute. reflexivity. Qed.

Lemma ex_partial :
  match run cfg_orig init w_closing with
  | Some s => quiescentb cfg_orig s && closing s && returned s
  | None => false
  end = true.
Proof. vm_compute. reflexivity. Qed.

Lemma ex_predict :
  let '(fl, s, ok) := predict cfg_fixed init [[IPreface true]; [ESend Cl KDirect]; [EClose Sv]] in
  (fl, c10_ok (obs_of s), ok) = ([false; false; true], true, true).
Proof. vm_compute. reflexivity. Qed.

