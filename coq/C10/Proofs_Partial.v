(* C10 — what holds of the relay as it was (cfg_orig). *)
From Coq Require Import List Bool Arith Lia.
From Martian.C10 Require Import Gen_H2Const Model Proofs_Measure Proofs_Inv Proofs_Tac.
Import ListNotations.

(* destMu is never left locked when sendWindowUpdates releases it on every path *)
Definition noleak (s : state) : bool := negb (dleak_c s) && negb (dleak_s s).

Lemma noleak_step_any : forall c s l s',
  credit_unlocks c = true -> noleak s = true -> step c s l = Some s' -> noleak s' = true.
Proof.
  intros c s l s' Hcu Hn Hs.
  destruct_state s;
  destruct l; repeat match goal with t : side |- _ => destruct t end;
  cbn [step getd setd with_rd with_rd_rf exit_failed set_trig set_remote remote
       dc ds main cli srv wbroken_c wbroken_s sc_closed cc_closed closing done trig dleak_c dleak_s dleak set_dleak
       rd wr wfailed werr chan queued rf inflight other] in Hs;
  try rewrite Hcu in Hs;
  repeat bm; try discriminate Hs; inversion Hs; subst; clear Hs;
  repeat match goal with t : side |- _ => destruct t end;
  repeat match goal with |- context [if ?b then _ else _] => destruct b end;
  unfold noleak in *; red_state; try assumption;
  repeat rewrite andb_false_r in *; simpl in *; try assumption; try discriminate.
Qed.

Lemma noleak_reachable_any : forall c s, credit_unlocks c = true -> reachable c s -> noleak s = true.
Proof.
  intros c s Hcu [ls H]. revert H.
  assert (G : forall ks s0, noleak s0 = true -> run c s0 ks = Some s -> noleak s = true).
  { induction ks as [|l ks IH]; intros s0 Hn Hr; simpl in Hr.
    - inversion Hr; subst; assumption.
    - destruct (step c s0 l) as [s1|] eqn:E; [|discriminate].
      eapply IH; [|exact Hr]. eapply noleak_step_any; eassumption. }
  apply G. reflexivity.
Qed.

(* The code as it was: proxy shutdown makes Proxy return provided no reader
   is wedged on the output channel of a direction whose writer has gone
   (the guard excludes exactly the emit-into-a-dead-channel defect). *)
Definition no_stuck_emit (s : state) : Prop :=
  forall d t p k, (rd (getd s d) = REmit t p k \/ rd (getd s d) = RLock t p k) -> wr (getd s t) = WRun.

Lemma returns_partial_orig : forall s,
  reachable cfg_orig s -> quiescentb cfg_orig s = true -> closing s = true ->
  no_stuck_emit s -> is_stalled (cli s) = false -> is_stalled (srv s) = false -> main s = MReturned.
Proof.
  intros s Hr Hq Hcl Hns Hb1 Hb2.
  destruct (dinv_reachable_any _ _ Hr) as (Hc & Hv).
  pose proof (noerr_reachable_any cfg_orig s eq_refl Hr) as Hne. unfold noerr in Hne.
  pose proof (noleak_reachable_any cfg_orig s eq_refl Hr) as Hnl. unfold noleak in Hnl.
  pose proof (Hns Cl) as N1. pose proof (Hns Sv) as N2. clear Hns.
  destruct_state s. simpl in Hcl, Hb1, Hb2, Hnl. subst clo_.
  destruct dlc_; try discriminate Hnl; destruct dls_; try discriminate Hnl; clear Hnl.
  all_q Hq. clear Hq Hr.
  destruct m_; [exfalso; discriminate Q | exfalso | reflexivity].
  destruct cl_; try discriminate Hb1; destruct sv_; try discriminate Hb2; clear Hb1 Hb2;
  destruct wrc; try discriminate Hne; destruct wrs; try discriminate Hne; clear Hne;
  unfold dinv, dir_inv, blocks in *; red_q; split_hyps;
  destruct rdc, rds; red_q; qd;
    try (specialize (N1 _ _ _ (or_introl eq_refl)));
    try (specialize (N1 _ _ _ (or_intror eq_refl)));
    try (specialize (N2 _ _ _ (or_introl eq_refl)));
    try (specialize (N2 _ _ _ (or_intror eq_refl)));
    repeat match goal with t : side |- _ => destruct t; red_q end;
    red_q; try discriminate; subst; qd.
Qed.
