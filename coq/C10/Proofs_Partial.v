(* C10 — what holds of the relay as it was (cfg_orig). *)
From Coq Require Import List Bool Arith Lia.
From Martian.C10 Require Import Gen_H2Const Model Proofs_Measure Proofs_Inv Proofs_Tac.
Import ListNotations.

(* The code as it was: proxy shutdown makes Proxy return provided no reader
   is wedged on the output channel of a direction whose writer has gone
   (the guard excludes exactly the emit-into-a-dead-channel defect). *)
Definition no_stuck_emit (s : state) : Prop :=
  forall d t p k, (rd (getd s d) = REmit t p k \/ rd (getd s d) = RLock t p k) -> wr (getd s t) = WRun.

Lemma returns_partial_orig : forall s,
  reachable cfg_orig s -> quiescentb cfg_orig s = true -> closing s = true ->
  no_stuck_emit s -> is_stalled (cli s) = false -> is_stalled (srv s) = false -> main s = MReturned.
Proof.
  intros s Hr Hq Hcl Hns Hb1 Hb2.
  destruct (dinv_reachable_any _ _ Hr) as (Hc & Hv).
  pose proof (noerr_reachable_any cfg_orig s eq_refl Hr) as Hne. unfold noerr in Hne.
  pose proof (Hns Cl) as N1. pose proof (Hns Sv) as N2. clear Hns.
  destruct_state s. simpl in Hcl, Hb1, Hb2. subst clo_.
  all_q Hq. clear Hq Hr.
  destruct m_; [exfalso; discriminate Q | exfalso | reflexivity].
  destruct cl_; try discriminate Hb1; destruct sv_; try discriminate Hb2; clear Hb1 Hb2;
  destruct wrc; try discriminate Hne; destruct wrs; try discriminate Hne; clear Hne;
  unfold dinv, dir_inv, blocks in *; red_q; split_hyps;
  destruct rdc, rds; red_q; qd;
    try (specialize (N1 _ _ _ (or_introl eq_refl)));
    try (specialize (N1 _ _ _ (or_intror eq_refl)));
    try (specialize (N2 _ _ _ (or_introl eq_refl)));
    try (specialize (N2 _ _ _ (or_intror eq_refl)));
    repeat match goal with t : side |- _ => destruct t; red_q end;
    red_q; try discriminate; subst; qd.
Qed.
