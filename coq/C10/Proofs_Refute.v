(* C10 — what fails without each repair (witness runs, by computation), the
   oracle/Prop equivalence, trace admissibility, and which labels count as
   session-ending events. *)
From Coq Require Import List Bool Arith Lia.
From Martian.C10 Require Import Gen_H2Const Model Proofs_Measure Proofs_Inv Proofs_Tac Proofs_Live Proofs_Partial.
Import ListNotations.

(* ---- witness runs ---- *)

(* the session is up and idle *)
Definition w_idle : list label := [IPreface true].

(* client closes; the client->server direction notices and ends *)
Definition w_client_close : list label :=
  w_idle ++ [EClose Cl; IReadEnd Cl; ITake Cl false; IHandshake Cl; IStop Cl].

(* proxy shutdown: both directions leave their select, Proxy returns, the caller closes cc *)
Definition w_closing : list label :=
  w_idle ++ [EClosing; ISelClosing Cl; ISelClosing Sv; IHandshake Cl; IHandshake Sv; IStop Cl; IStop Sv;
             IJoin; ICallerClose; IReadEnd Cl].

(* one client frame is read and queued behind a zero window *)
Definition w_queue1 : list label :=
  [ESend Cl (KOwn false 0); IRead Cl; ITake Cl false; ILock Cl; IUnlock Cl false].

(* The client has stopped reading.  A client DATA frame arrives: the client->server reader is in
   sendWindowUpdates, its credit write toward the client pending.  A server HEADERS frame is queued
   and taken by the server->client writer, which needs the same destMu.  Then writes toward the
   client fail: the credit write fails and the reader leaves - with destMu still locked if
   sendWindowUpdates does not release it on that path. *)
Definition w_credit_fails_writer_waits : list label :=
  w_idle
  ++ [EStall Cl; ESend Cl (KOwn true 1); IRead Cl; ITake Cl false]
  ++ [ESend Sv (KOwn false 1); IRead Sv; ITake Sv false; ILock Sv; ISend Sv; IUnlock Sv false; IWTake Sv]
  ++ [EWriteFail Cl; IDWrite Cl true; IHandshake Cl; IStop Cl; ISelDone Sv].

Definition cfg_destmu_leak : cfg := mkCfg true true true true false true.

Definition lock_leaked_writer_stuck (s : state) : bool :=
  dleak_c s && match rd (ds s), wr (ds s) with RDoneSend, WPend => true | _, _ => false end
  && negb (returned s) && negb (blocks s Cl) && negb (blocks s Sv).

Fixpoint rep {A} (n : nat) (l : list A) : list A :=
  match n with 0 => [] | S m => l ++ rep m l end.

(* cap+1 frames queued toward the server; the server's WINDOW_UPDATE is read and the
   server->client reader takes the client->server flowMu; then the client goes away and
   its direction ends completely (done closed, if the code has it) before the reader
   under the lock has pushed its first frame: it fills the channel and blocks on frame cap+1 *)
Definition w_full_then_end : list label :=
  w_idle ++ rep (S cap) w_queue1
  ++ [ESend Sv (KWin false (S cap)); IRead Sv; ITake Sv false; ILock Sv]
  ++ [EClose Cl; IReadEnd Cl; ITake Cl false; IHandshake Cl; IStop Cl]
  ++ rep cap [ISend Sv].

(* ... and then the server goes away as well *)
Definition w_full_both_closed : list label := w_full_then_end ++ [EClose Sv].

(* One client frame is on its way to a server that has stopped reading: the client->server
   writer is blocked in Write.  The server half-closes: the server->client direction ends and
   closes done, the client->server reader leaves its select and waits in `readerDone <-`.
   Only then does the blocked write fail (the server goes away). *)
Definition w_blocked_write_fails_late : list label :=
  w_idle
  ++ [ESend Cl (KOwn false 1); IRead Cl; ITake Cl false; ILock Cl; ISend Cl; IUnlock Cl false]
  ++ [EStall Sv; IWTake Cl]
  ++ [EHalf Sv; IReadEnd Sv; ITake Sv false; IHandshake Sv; IStop Sv; ISelDone Cl]
  ++ [EClose Sv; IWSend Cl true].

Definition cfg_unbuffered_werr : cfg := mkCfg true true true false true true.

Definition handoff_deadlock (s : state) : bool :=
  match rd (dc s), wr (dc s) with RDoneSend, WErrSend => true | _, _ => false end
  && negb (returned s) && negb (blocks s Cl) && negb (blocks s Sv).

Definition bad_final (c : cfg) (ls : list label) (p : state -> bool) : bool :=
  match run c init ls with
  | Some s => quiescentb c s && trig s && p s
  | None => false
  end.

Definition not_returned (s : state) : bool := negb (returned s).

Lemma refute_returns_orig : bad_final cfg_orig w_client_close not_returned = true.
Proof. vm_compute. reflexivity. Qed.

Lemma refute_returns_no_done : bad_final (mkCfg true false true true true true) w_client_close not_returned = true.
Proof. vm_compute. reflexivity. Qed.

Lemma refute_upstream_orig :
  bad_final cfg_orig w_closing (fun s => returned s && negb (sc_closed s)) = true.
Proof. vm_compute. reflexivity. Qed.

Lemma refute_upstream_no_close :
  bad_final (mkCfg false true true true true true) w_closing (fun s => returned s && negb (sc_closed s)) = true.
Proof. vm_compute. reflexivity. Qed.

Lemma refute_goroutine_orig :
  bad_final cfg_orig w_closing (fun s => returned s && negb (Nat.eqb (goroutines s) 0)) = true.
Proof. vm_compute. reflexivity. Qed.

Definition stuck_in_emit (s : state) : bool :=
  match rd (ds s) with REmit Cl _ (S _) => true | _ => false end
  && negb (writer_alive (wr (dc s))) && Nat.eqb (chan (dc s)) cap && negb (returned s).

Lemma refute_emit_orig : bad_final cfg_orig w_full_both_closed stuck_in_emit = true.
Proof. vm_compute. reflexivity. Qed.

(* with the done signal but a bare `output <- f`, the same run still wedges *)
Lemma refute_emit_no_abort : bad_final (mkCfg true true false true true true) w_full_both_closed stuck_in_emit = true.
Proof. vm_compute. reflexivity. Qed.

(* sendWindowUpdates leaves destMu locked on its error path: the opposite writer waits for it for ever;
   shutting the proxy down and the client going away do not help *)
Lemma refute_destmu_leak :
  bad_final cfg_destmu_leak (w_credit_fails_writer_waits ++ [EClosing; EClose Cl]) lock_leaked_writer_stuck = true.
Proof. vm_compute. reflexivity. Qed.

Lemma fixed_escapes_credit_failure :
  match run cfg_fixed init (w_credit_fails_writer_waits ++ [IWSend Sv true; IHandshake Sv; IStop Sv; IJoin; ICallerClose; IReadEnd Sv]) with
  | Some s => quiescentb cfg_fixed s && negb (blocks s Cl) && negb (blocks s Sv) && c10_ok (obs_of s)
  | None => false
  end = true.
Proof. vm_compute. reflexivity. Qed.

(* the DATA case of processFrame loses its errors: a failed credit write / a DATA frame the stream
   processor rejects no longer ends the session *)
Definition cfg_swallow : cfg := mkCfg true true true true true false.

Definition w_credit_write_fails : list label :=
  w_idle ++ [EWriteFail Cl; ESend Cl (KOwn true 0); IRead Cl; ITake Cl false; IDWrite Cl true].

Definition w_processor_rejects_data : list label :=
  w_idle ++ [ESend Cl KDataBad; IRead Cl; ITake Cl false].

Definition still_relaying (s : state) : bool :=
  match rd (dc s), rd (ds s) with RSel, RSel => true | _, _ => false end
  && negb (returned s) && negb (blocks s Cl) && negb (blocks s Sv).

Lemma refute_swallowed_write_error : bad_final cfg_swallow w_credit_write_fails still_relaying = true.
Proof. vm_compute. reflexivity. Qed.

Lemma refute_swallowed_processor_error : bad_final cfg_swallow w_processor_rejects_data still_relaying = true.
Proof. vm_compute. reflexivity. Qed.

Lemma fixed_ends_on_data_errors :
  match run cfg_fixed init (w_credit_write_fails ++ [IHandshake Cl; IStop Cl; ISelDone Sv; IHandshake Sv; IStop Sv; IJoin; ICallerClose; IReadEnd Sv]),
        run cfg_fixed init (w_processor_rejects_data ++ [IHandshake Cl; IStop Cl; ISelDone Sv; IHandshake Sv; IStop Sv; IJoin; ICallerClose; IReadEnd Sv]) with
  | Some s1, Some s2 => quiescentb cfg_fixed s1 && c10_ok (obs_of s1) && quiescentb cfg_fixed s2 && c10_ok (obs_of s2)
  | _, _ => false
  end = true.
Proof. vm_compute. reflexivity. Qed.

(* writerErr unbuffered: writer waits to hand over its error, reader waits for the writer: for ever *)
Lemma refute_unbuffered_werr : bad_final cfg_unbuffered_werr w_blocked_write_fails_late handoff_deadlock = true.
Proof. vm_compute. reflexivity. Qed.

(* with the buffered writerErr of the repaired relay the same run unwinds *)
Lemma fixed_escapes_late_write_failure :
  match run cfg_fixed init (w_blocked_write_fails_late ++ [IHandshake Cl; IStop Cl; IJoin; ICallerClose; IReadEnd Cl]) with
  | Some s => quiescentb cfg_fixed s && c10_ok (obs_of s)
  | None => false
  end = true.
Proof. vm_compute. reflexivity. Qed.

(* the repaired relay gets out of the same situation *)
Lemma fixed_escapes_full :
  match run cfg_fixed init (w_full_then_end ++ [IAbort Sv; IUnlock Sv false; ISelDone Sv; IHandshake Sv; IStop Sv;
                                               IJoin; ICallerClose; IReadEnd Sv]) with
  | Some s => quiescentb cfg_fixed s && c10_ok (obs_of s)
  | None => false
  end = true.
Proof. vm_compute. reflexivity. Qed.

Lemma bad_final_elim : forall c ls p, bad_final c ls p = true ->
  exists s, reachable c s /\ quiescentb c s = true /\ trig s = true /\ p s = true.
Proof.
  intros c ls p H. unfold bad_final in H.
  destruct (run c init ls) as [s|] eqn:E; [|discriminate].
  apply andb_prop in H. destruct H as [H Hp]. apply andb_prop in H. destruct H as [Hq Ht].
  exists s. repeat split; try assumption. exists ls. exact E.
Qed.

(* ---- the oracle is the property ---- *)

Lemma c10_ok_iff : forall s,
  c10_ok (obs_of s) = true <-> main s = MReturned /\ sc_closed s = true /\ goroutines s = 0.
Proof.
  intros s. unfold c10_ok, obs_of, returned. simpl.
  rewrite !andb_true_iff, Nat.eqb_eq.
  destruct (main s); intuition (try discriminate; try reflexivity).
Qed.

Lemma c10_ok_obs_iff : forall o,
  c10_ok o = true <-> o_returned o = true /\ o_upstream_eof o = true /\ o_goroutines o = 0.
Proof. intros o. unfold c10_ok. rewrite !andb_true_iff, Nat.eqb_eq. tauto. Qed.

Lemma accepts_iff : forall c ls, accepts c ls = true <-> reachable c (match run c init ls with Some s => s | None => init end) /\ run c init ls <> None.
Proof.
  intros c ls. unfold accepts. destruct (run c init ls) as [s|] eqn:E.
  - split; [intros _; split; [exists ls; exact E | discriminate] | reflexivity].
  - split; [discriminate | intros [_ H]; exfalso; apply H; reflexivity].
Qed.

(* ---- session-ending events set the trigger ---- *)

Definition ending_label (l : label) : bool :=
  match l with
  | EClose _ | EHalf _ | EClosing => true
  | ESend _ KBad | ESend _ KDataBad => true
  | IPreface false => true
  | IDWrite _ true | IWSend _ true => true
  | _ => false
  end.

Lemma ending_label_trig : forall c s l s',
  ending_label l = true -> step c s l = Some s' -> trig s' = true.
Proof.
  intros c s l s' He Hs.
  destruct l; try discriminate He;
    repeat match goal with t : side |- _ => destruct t end;
    repeat match goal with f : kind |- _ => destruct f end;
    try discriminate He;
    repeat match goal with b : bool |- _ => destruct b end; try discriminate He;
    destruct_state s;
    cbn [step getd setd with_rd with_rd_rf exit_failed set_trig set_remote remote
         dc ds main cli srv wbroken_c wbroken_s sc_closed cc_closed closing done trig dleak_c dleak_s dleak set_dleak
         rd wr wfailed werr chan queued rf inflight other is_bad] in Hs;
    repeat bm; try discriminate Hs; inversion Hs; subst;
    repeat match goal with t : side |- _ => destruct t end; reflexivity.
Qed.

(* a write by the writer goroutine or by a reader under destMu that fails sets it too *)
Lemma failed_write_trig : forall c s d s',
  (step c s (IWSend d true) = Some s' \/ step c s (IDWrite d true) = Some s') -> trig s' = true.
Proof.
  intros c s d s' [H|H]; eapply ending_label_trig; try exact H; reflexivity.
Qed.

(* the trigger is never reset *)
Lemma trig_stable : forall c s l s', trig s = true -> step c s l = Some s' -> trig s' = true.
Proof.
  intros c s l s' Ht Hs. destruct_state s. simpl in Ht. subst.
  destruct l; repeat match goal with t : side |- _ => destruct t end;
    cbn [step getd setd with_rd with_rd_rf exit_failed set_trig set_remote remote
         dc ds main cli srv wbroken_c wbroken_s sc_closed cc_closed closing done trig dleak_c dleak_s dleak set_dleak
         rd wr wfailed werr chan queued rf inflight other] in Hs;
    repeat bm; try discriminate Hs; inversion Hs; subst;
    repeat match goal with t : side |- _ => destruct t end; reflexivity.
Qed.
