(* C13 — property theorems.  Nothing but statements closed by [exact] and
   Print Assumptions, so a weakened statement is visible in review.

   [repaired] is the code with fixes/C13-*.diff applied; [pinned] is the code
   at the pinned commit.  [spec_outputs] is computed from the configuration
   and the history alone ([expected]: one failure per non-API message since the
   last reset that reaches a leaf and does not meet its expectation, in walk
   order, flat); [model_outputs] runs the transcription of the Go walks over
   mutable per-verifier state. *)
From Coq Require Import List Bool Arith Permutation.
From Martian.C13 Require Import Model Proofs Gen_Locks Proofs_Locks Proofs_Conc.
Import ListNotations.

(* A query returns exactly the unmet evaluations since the last reset: for
   every configuration tree and every history of traffic, queries and resets. *)
Theorem C13_query_exact : forall c h,
  model_outputs repaired c h = spec_outputs c h.
Proof. exact query_exact. Qed.
Print Assumptions C13_query_exact.

(* ... from any pair of structures whose verifiers are all in their initial state *)
Theorem C13_query_exact_any_initial : forall tq0 ts0 h,
  initialb tq0 = true -> initialb ts0 = true ->
  snd (run repaired (mkSys tq0 ts0) h) = spec_run tq0 ts0 [] [] h.
Proof. exact query_exact_general. Qed.
Print Assumptions C13_query_exact_any_initial.

(* the invariant behind it: after any history every verifier holds exactly
   its unmet evaluations since its last reset *)
Theorem C13_state_is_unmet_since_reset : forall tq0 ts0 h,
  initialb tq0 = true -> initialb ts0 = true ->
  fst (run repaired (mkSys tq0 ts0) h) =
  mkSys (denote (since Req [] h) (current Req tq0 h)) (denote (since Res [] h) (current Res ts0 h)).
Proof. exact state_since. Qed.
Print Assumptions C13_state_is_unmet_since_reset.

(* nested groups flattened: the MultiError plumbing of every level yields the
   plain concatenation of the leaves' lists in walk order *)
Theorem C13_nested_groups_flattened : forall k t,
  errs_of (verify k t) = query k t.
Proof. exact verify_flat. Qed.
Print Assumptions C13_nested_groups_flattened.

(* A reset returns every verifier in the tree to its initial state: the state
   is then exactly the CURRENTLY configured structures ([current]: those of
   the last reconfiguration in the history, else the ones it started with), all
   of whose verifiers are initial. *)
Theorem C13_reset_all : forall tq0 ts0 h,
  initialb tq0 = true -> initialb ts0 = true ->
  fst (step repaired (fst (run repaired (mkSys tq0 ts0) h)) Reset) =
  mkSys (current Req tq0 h) (current Res ts0 h).
Proof. exact reset_all. Qed.
Print Assumptions C13_reset_all.

Theorem C13_reset_kind : forall tq0 ts0 h k,
  initialb tq0 = true -> initialb ts0 = true ->
  get k (fst (step repaired (fst (run repaired (mkSys tq0 ts0) h)) (ResetK k))) =
  get k (mkSys (current Req tq0 h) (current Res ts0 h)).
Proof. exact reset_kind. Qed.
Print Assumptions C13_reset_kind.

Theorem C13_configured_structures_are_initial : forall k h t0,
  initialb t0 = true -> initialb (current k t0 h) = true.
Proof. exact current_initial. Qed.
Print Assumptions C13_configured_structures_are_initial.

(* A reconfiguration (POST to martianhttp.Modifier) installs exactly the new
   configuration's structures on BOTH sides, all verifiers initial; a side
   the new configuration does not cover is the noop, never the previous one.
   (C13_query_exact quantifies over histories containing reconfigurations:
   after one, answers are those of the new tree and of the messages since.) *)
Theorem C13_reconfiguration_replaces_both_sides : forall vr s c,
  fst (step vr s (Configure c)) = mkSys (root Req c) (root Res c).
Proof. exact configure_replaces_both. Qed.
Print Assumptions C13_reconfiguration_replaces_both_sides.

(* every configuration starts with all verifiers initial (hypothesis above is met) *)
Theorem C13_configurations_start_initial : forall k c, initialb (root k c) = true.
Proof. exact root_initial. Qed.
Print Assumptions C13_configurations_start_initial.

(* Requests addressed to the proxy's own API are never counted: deleting
   them from any history changes neither the state nor any answer. *)
Theorem C13_api_not_counted : forall h s,
  run repaired s (drop_api h) = run repaired s h.
Proof. exact api_not_counted. Qed.
Print Assumptions C13_api_not_counted.

Theorem C13_api_traffic_changes_nothing : forall m t,
  mapi m = true -> traffic repaired m t = t.
Proof. exact traffic_api_id. Qed.
Print Assumptions C13_api_traffic_changes_nothing.

(* ... and every reported failure stems from a non-API message that did not
   meet the expectation *)
Theorem C13_answers_never_mention_api : forall k t ms v n,
  In (v, Some n) (expected k ms t) ->
  exists m, In m ms /\ mid m = n /\ mapi m = false /\ mhit m v = true.
Proof. exact expected_sound. Qed.
Print Assumptions C13_answers_never_mention_api.

(* A call the handlers refuse (wrong method: 405) changes nothing and answers
   nothing: deleting such calls from any history changes neither the state,
   nor any answer, nor the specification. *)
Theorem C13_refused_calls_change_nothing : forall vr h s,
  run vr s (drop_refused h) = run vr s h.
Proof. exact refused_calls_change_nothing. Qed.
Print Assumptions C13_refused_calls_change_nothing.

Theorem C13_refused_calls_not_in_the_specification : forall c h,
  spec_outputs c (drop_refused h) = spec_outputs c h.
Proof. exact refused_spec. Qed.
Print Assumptions C13_refused_calls_not_in_the_specification.

(* The pinned code breaks both clauses (witnesses = corpus/C13). *)
Theorem C13_reset_all_refuted_at_pinned_commit :
  model_outputs pinned wit_else_cfg [Traffic Res (wit_msg false); Reset; Query] = [[(2, Some 7)]]
  /\ spec_outputs wit_else_cfg [Traffic Res (wit_msg false); Reset; Query] = [[]].
Proof. exact pinned_reset_keeps_else_branch. Qed.
Print Assumptions C13_reset_all_refuted_at_pinned_commit.

Theorem C13_api_not_counted_refuted_at_pinned_commit :
  model_outputs pinned (CLeaf 1 VFailure true true) [Traffic Req (wit_msg true); Query] = [[(1, Some 7)]]
  /\ spec_outputs (CLeaf 1 VFailure true true) [Traffic Req (wit_msg true); Query] = [[]].
Proof. exact pinned_counts_api. Qed.
Print Assumptions C13_api_not_counted_refuted_at_pinned_commit.

(* Concurrent clause, sequential part: if every operation is one atomic
   step, then in EVERY interleaving a query (whose preceding messages since
   the last reset are [seen], with [pre] ⊆ [seen] ⊆ [all]) reports every counted
   failure recorded before it began, nothing no message can have caused, and a
   pingback as missing only if it was missing before. *)
Theorem C13_concurrent_sandwich : forall c preq pres seenq seens allq alls,
  (forall m, In m preq -> In m seenq) -> (forall m, In m seenq -> In m allq) ->
  (forall m, In m pres -> In m seens) -> (forall m, In m seens -> In m alls) ->
  (forall f, In f (expected_both c preq pres) -> is_cnt f = true -> In f (expected_both c seenq seens))
  /\ (forall f, In f (expected_both c seenq seens) ->
        if is_cnt f then In f (expected_both c allq alls) else In f (expected_both c preq pres)).
Proof. exact sandwich_both. Qed.
Print Assumptions C13_concurrent_sandwich.

Theorem C13_recorded_failure_is_reported : forall k t ms1 m ms2 v,
  In (v, Some (mid m)) (expected k (ms1 ++ [m]) t) ->
  In (v, Some (mid m)) (expected k (ms1 ++ [m] ++ ms2) t).
Proof. exact recorded_failure_is_reported. Qed.
Print Assumptions C13_recorded_failure_is_reported.

(* ... and the same holds for a query that is NOT one atomic step but reads
   each verifier at its own moment ([hist v] = the messages verifier [v] has
   seen when the walk reads it), which is all the code's locks guarantee. *)
Theorem C13_concurrent_sandwich_nonatomic : forall k t pre all hist,
  (forall v m, In m pre -> In m (hist v)) -> (forall v m, In m (hist v) -> In m all) ->
  (forall f, In f (expected k pre t) -> is_cnt f = true ->
             In f (expected_at k hist (fun _ => true) t))
  /\ (forall f, In f (expected_at k hist (fun _ => true) t) ->
        if is_cnt f then In f (expected k all t) else In f (expected k pre t)).
Proof. exact sandwich_nonatomic. Qed.
Print Assumptions C13_concurrent_sandwich_nonatomic.

Theorem C13_atomic_query_is_the_special_case : forall k t ms,
  expected_at k (fun _ => ms) (fun _ => true) t = expected k ms t.
Proof. exact expected_at_atomic. Qed.
Print Assumptions C13_atomic_query_is_the_special_case.

(* None duplicated: with distinct messages and distinct verifiers the
   specified answer never repeats an error. *)
Theorem C13_none_duplicated : forall k t ms,
  NoDup (map mid ms) -> NoDup (leaf_ids t) -> NoDup (expected k ms t).
Proof. exact expected_nodup. Qed.
Print Assumptions C13_none_duplicated.

(* The executable oracles run on the real implementation's answers are the
   statements above. *)
Theorem C13_oracle_is_the_property : forall c h observed,
  c13_ok c h observed = true <-> observed = spec_outputs c h.
Proof. exact c13_ok_iff. Qed.
Print Assumptions C13_oracle_is_the_property.

Theorem C13_concurrent_oracle_is_the_property : forall lo hi obs,
  c13_conc_ok lo hi obs = true <->
  (forall f, In f lo -> is_cnt f = true -> In f obs)
  /\ (forall f, In f obs -> if is_cnt f then In f hi else In f lo)
  /\ NoDup obs.
Proof. exact c13_conc_ok_iff. Qed.
Print Assumptions C13_concurrent_oracle_is_the_property.

(* None lost, none invented: independently of the walk, (v, Some n) is in the
   specified answer exactly when some message n since the last reset is not
   an API request, is routed to counting verifier v by the filter conditions
   on its path ([reaches], an inductive relation) and does not meet v's
   expectation. *)
Theorem C13_none_lost_none_invented : forall k t ms v n,
  In (v, Some n) (expected k ms t) <->
  exists m, In m ms /\ mid m = n /\ mapi m = false /\ mhit m v = true /\ reaches m v t.
Proof. exact expected_In_iff. Qed.
Print Assumptions C13_none_lost_none_invented.

(* What must NOT change: a query changes no state; traffic and resets of one
   kind leave the other kind's structure alone. *)
Theorem C13_query_changes_nothing : forall vr s,
  fst (step vr s Query) = s /\ forall k, fst (step vr s (QueryK k)) = s.
Proof. exact query_changes_nothing. Qed.
Print Assumptions C13_query_changes_nothing.

Theorem C13_operations_touch_only_their_kind : forall vr s k k' m,
  k <> k' ->
  get k' (fst (step vr s (Traffic k m))) = get k' s /\
  get k' (fst (step vr s (ResetK k))) = get k' s.
Proof. exact step_touches_only_its_kind. Qed.
Print Assumptions C13_operations_touch_only_their_kind.

Theorem C13_response_structures_have_no_pingback : forall c, no_pb (root Res c) = true.
Proof. exact root_res_no_pb. Qed.
Print Assumptions C13_response_structures_have_no_pingback.

(* Schedules.  [Merge] (inductive, independent of the search) = the
   interleavings of two goroutines' operation sequences; the driver's search
   over [all_merges] is exactly the existential; and every execution in which
   each operation is an atomic step is accepted.  The atomicity is what
   fifo.Group's lock discipline provides; that discipline is the first
   conjunct, read from the source by the translator. *)
Theorem C13_interleavings_enumerated : forall (a b c : list label),
  In c (all_merges a b) <-> Merge a b c.
Proof. exact (@all_merges_spec label). Qed.
Print Assumptions C13_interleavings_enumerated.

Theorem C13_serial_search_is_the_existential : forall c pre t1 t2 post observed,
  c13_serial_ok c pre t1 t2 post observed = true <->
  exists mid, Merge t1 t2 mid /\ observed = spec_outputs c (pre ++ mid ++ post).
Proof. exact c13_serial_ok_iff. Qed.
Print Assumptions C13_serial_search_is_the_existential.

Theorem C13_atomic_executions_accepted :
  discipline_ok gen_locks = true /\
  forall c pre t1 t2 post mid,
    Merge t1 t2 mid ->
    c13_serial_ok c pre t1 t2 post (model_outputs repaired c (pre ++ mid ++ post)) = true.
Proof. exact (conj source_lock_discipline serial_impl_accepted). Qed.
Print Assumptions C13_atomic_executions_accepted.

(* A query that reads every verifier at its own moment, both kinds, as
   verify.Handler does: with distinct messages and verifiers the driver's
   sandwich oracle accepts it. *)
Theorem C13_nonatomic_queries_accepted : forall c preq pres allq alls hq hs,
  (forall v m, In m preq -> In m (hq v)) -> (forall v m, In m (hq v) -> In m allq) ->
  (forall v m, In m pres -> In m (hs v)) -> (forall v m, In m (hs v) -> In m alls) ->
  (forall v, NoDup (map mid (hq v))) -> (forall v, NoDup (map mid (hs v))) ->
  (forall v v' n, In n (map mid (hq v)) -> In n (map mid (hs v')) -> False) ->
  NoDup (leaf_ids (root Req c)) -> NoDup (leaf_ids (root Res c)) ->
  c13_conc_ok (expected_both c preq pres) (expected_both c allq alls) (answer_at c hq hs) = true.
Proof. exact conc_impl_accepted. Qed.
Print Assumptions C13_nonatomic_queries_accepted.

(* After all racing traffic has returned, whatever order the schedule let the
   messages through, the answer is the specified set, nothing twice. *)
Theorem C13_after_join_accepted : forall c mq ms mq' ms',
  Permutation mq mq' -> Permutation ms ms' ->
  NoDup (map mid mq) -> NoDup (map mid ms) ->
  (forall n, In n (map mid mq) -> In n (map mid ms) -> False) ->
  NoDup (leaf_ids (root Req c)) -> NoDup (leaf_ids (root Res c)) ->
  c13_same_set_ok (expected_both c mq ms) (expected_both c mq' ms') = true.
Proof. exact final_impl_accepted. Qed.
Print Assumptions C13_after_join_accepted.

(* None lost under load: T goroutines sending the same failing message N times
   each is, in every schedule, the history "T*N times that message"; the
   answer then holds exactly the specified number of errors. *)
Theorem C13_load_answer_is_the_specification : forall c k m n,
  spec_outputs c (map (Traffic k) (repeat m n) ++ [Query]) = [load_answer c k m n].
Proof. exact load_answer_is_spec. Qed.
Print Assumptions C13_load_answer_is_the_specification.

Theorem C13_load_oracle_is_the_property : forall c k m n cnt,
  c13_load_ok c k m n cnt = true <-> cnt = length (load_answer c k m n).
Proof. exact c13_load_ok_iff. Qed.
Print Assumptions C13_load_oracle_is_the_property.

Theorem C13_load_executions_accepted : forall c k m n,
  c13_load_ok c k m n
    (length (hd [] (model_outputs repaired c (map (Traffic k) (repeat m n) ++ [Query])))) = true.
Proof. exact load_impl_accepted. Qed.
Print Assumptions C13_load_executions_accepted.

Theorem C13_same_set_oracle_is_the_property : forall want obs,
  c13_same_set_ok want obs = true <->
  (forall f, In f want -> In f obs) /\ (forall f, In f obs -> In f want) /\ NoDup obs.
Proof. exact c13_same_set_ok_iff. Qed.
Print Assumptions C13_same_set_oracle_is_the_property.

Theorem C13_same_set_is_a_permutation : forall want obs,
  NoDup want -> c13_same_set_ok want obs = true -> Permutation want obs.
Proof. exact c13_same_set_ok_perm. Qed.
Print Assumptions C13_same_set_is_a_permutation.

Theorem C13_answer_oracle_is_the_property : forall want obs,
  c13_answer_ok want obs = true <-> obs = want.
Proof. exact c13_answer_ok_iff. Qed.
Print Assumptions C13_answer_oracle_is_the_property.

(* The atomicity assumption tied to the source: the lock table regenerated
   from fifo/fifo_group.go, martianhttp/martianhttp.go and multierror.go on
   every run satisfies the discipline (per kind: traffic shares, query and
   reset exclusively hold, the SAME mutex; MultiError mutations exclusive). *)
Theorem C13_lock_discipline_read_from_source : discipline_ok gen_locks = true.
Proof. exact source_lock_discipline. Qed.
Print Assumptions C13_lock_discipline_read_from_source.

Theorem C13_model_agrees_with_spec : forall c h, model_agrees c h = true.
Proof. exact model_agrees_true. Qed.
Print Assumptions C13_model_agrees_with_spec.

(* Non-vacuity: a configuration with a fifo group, a filter with both
   branches, a two-scope header verifier, a pingback and a scoped-out leaf; a
   history with API traffic, both filter branches, queries and resets. *)
Definition ex_cfg : cfg :=
  CFifo true true
    [CLeaf 1 VHeader true true;
     CFilt 2 true true
       (CFifo true true [CLeaf 3 VStatus true true; CLeaf 4 VFailure true true])
       (Some (CFifo true true [CLeaf 5 VStatus true true; CLeaf 6 VPingback true true]));
     COther true true;
     CLeaf 7 VMethod false true].

Definition ex_m (i : nat) (api cond : bool) : msg :=
  mkMsg i api (fun _ => cond) (fun _ => true).

Example C13_example :
  spec_outputs ex_cfg
    [Query;
     Traffic Req (ex_m 10 false true); Traffic Res (ex_m 11 false false);
     Traffic Req (ex_m 12 true true); Traffic Res (ex_m 13 false true);
     Query;
     Traffic Req (ex_m 14 false false);
     QueryK Req; ResetK Res; Query; Reset; Query]
  = [ [(6, None)];
      [(1, Some 10); (6, None); (4, Some 10); (1, Some 11); (1, Some 13); (3, Some 13); (5, Some 11)];
      [(1, Some 10); (1, Some 14); (4, Some 10)];
      [(1, Some 10); (1, Some 14); (4, Some 10)];
      [(6, None)] ]
  /\ model_outputs repaired ex_cfg
       [Traffic Res (ex_m 11 false false); Reset; Query] = [[(6, None)]]
  /\ initialb (root Req ex_cfg) = true.
Proof. vm_compute. repeat split; reflexivity. Qed.

Example C13_example_distinct_verifiers :
  NoDup (leaf_ids (root Req ex_cfg)) /\ NoDup (leaf_ids (root Res ex_cfg)).
Proof. vm_compute. split; repeat constructor; simpl; intuition congruence. Qed.

(* Non-vacuity of the schedule theorems: a message racing with a reset, both
   orders; a non-atomic query seeing the racing message at one verifier only;
   a join after two messages that went through in the other order. *)
Example C13_example_merge :
  Merge [Traffic Res (ex_m 11 false false)] [Reset] [Reset; Traffic Res (ex_m 11 false false)]
  /\ c13_serial_ok ex_cfg [] [Traffic Res (ex_m 11 false false)] [Reset] [Query]
       [[(6, None); (1, Some 11); (5, Some 11)]] = true
  /\ c13_serial_ok ex_cfg [] [Traffic Res (ex_m 11 false false)] [Reset] [Query]
       [[(6, None); (5, Some 11)]] = false.
Proof. split; [repeat constructor|vm_compute; split; reflexivity]. Qed.

Example C13_example_nonatomic_hypotheses :
  let m := ex_m 11 false false in
  let hs := fun v => if Nat.eqb v 5 then [m] else [] in
  (forall v x, In x (@nil msg) -> In x (hs v)) /\ (forall v x, In x (hs v) -> In x [m])
  /\ (forall v, NoDup (map mid (hs v)))
  /\ answer_at ex_cfg (fun _ => []) hs = [(6, None); (5, Some 11)]
  /\ c13_conc_ok (expected_both ex_cfg [] []) (expected_both ex_cfg [] [m]) (answer_at ex_cfg (fun _ => []) hs) = true.
Proof.
  cbv zeta. repeat split.
  - intros v x [].
  - intros v x H. destruct (Nat.eqb v 5); [exact H|destruct H].
  - intros v. destruct (Nat.eqb v 5); repeat constructor. intros [].
Qed.

Example C13_example_after_join :
  let a := ex_m 11 false false in let b := ex_m 13 false true in
  Permutation [a; b] [b; a]
  /\ expected_both ex_cfg [] [a; b] <> expected_both ex_cfg [] [b; a]
  /\ c13_same_set_ok (expected_both ex_cfg [] [a; b]) (expected_both ex_cfg [] [b; a]) = true.
Proof. cbv zeta. split; [constructor|split; [vm_compute; discriminate|vm_compute; reflexivity]]. Qed.

(* a reconfiguration that narrows the scope to responses: the request side is
   empty afterwards (no stale verifier answers), then one that widens again *)
Example C13_example_reconfiguration :
  spec_outputs (CFifo true true [CLeaf 1 VFailure true true; CLeaf 2 VStatus true true])
    [Traffic Req (ex_m 3 false true); Traffic Res (ex_m 4 false true); Query;
     Configure (CFifo false true [CLeaf 5 VHeader true true]);
     Traffic Req (ex_m 6 false true); Traffic Res (ex_m 7 false true); Query; Reset;
     Configure (CLeaf 8 VHeader true true);
     Traffic Req (ex_m 9 false true); Query]
  = [ [(1, Some 3); (2, Some 4)]; [(5, Some 7)]; [(8, Some 9)] ].
Proof. vm_compute. reflexivity. Qed.
