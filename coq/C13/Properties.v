(* C13 — property theorems.  Nothing but statements closed by [exact] and
   Print Assumptions, so a weakened statement is visible in review.

   [repaired] is the code with fixes/C13-*.diff applied; [pinned] is the code
   at the pinned commit.  [spec_outputs] is computed from the configuration
   and the history alone ([expected]: one failure per non-API message since the
   last reset that reaches a leaf and does not meet its expectation, in walk
   order, flat); [model_outputs] runs the transcription of the Go walks over
   mutable per-verifier state. *)
From Coq Require Import List Bool Arith.
From Martian.C13 Require Import Model Proofs Gen_Locks Proofs_Locks.
Import ListNotations.

(* A query returns exactly the unmet evaluations since the last reset: for
   every configuration tree and every history of traffic, queries and resets. *)
Theorem C13_query_exact : forall c h,
  model_outputs repaired c h = spec_outputs c h.
Proof. exact query_exact. Qed.
Print Assumptions C13_query_exact.

(* ... from any pair of structures whose verifiers are all in their initial state *)
Theorem C13_query_exact_any_initial : forall tq0 ts0 h,
  initialb tq0 = true -> initialb ts0 = true ->
  snd (run repaired (mkSys tq0 ts0) h) = spec_run tq0 ts0 [] [] h.
Proof. exact query_exact_general. Qed.
Print Assumptions C13_query_exact_any_initial.

(* the invariant behind it: after any history every verifier holds exactly
   its unmet evaluations since its last reset *)
Theorem C13_state_is_unmet_since_reset : forall tq0 ts0 h,
  initialb tq0 = true -> initialb ts0 = true ->
  fst (run repaired (mkSys tq0 ts0) h) =
  mkSys (denote (since Req [] h) tq0) (denote (since Res [] h) ts0).
Proof. exact state_since. Qed.
Print Assumptions C13_state_is_unmet_since_reset.

(* nested groups flattened: the MultiError plumbing of every level yields the
   plain concatenation of the leaves' lists in walk order *)
Theorem C13_nested_groups_flattened : forall k t,
  errs_of (verify k t) = query k t.
Proof. exact verify_flat. Qed.
Print Assumptions C13_nested_groups_flattened.

(* A reset returns every verifier in the tree to its initial state. *)
Theorem C13_reset_all : forall tq0 ts0 h,
  initialb tq0 = true -> initialb ts0 = true ->
  fst (step repaired (fst (run repaired (mkSys tq0 ts0) h)) Reset) = mkSys tq0 ts0.
Proof. exact reset_all. Qed.
Print Assumptions C13_reset_all.

Theorem C13_reset_kind : forall tq0 ts0 h k,
  initialb tq0 = true -> initialb ts0 = true ->
  get k (fst (step repaired (fst (run repaired (mkSys tq0 ts0) h)) (ResetK k))) = get k (mkSys tq0 ts0).
Proof. exact reset_kind. Qed.
Print Assumptions C13_reset_kind.

(* every configuration starts with all verifiers initial (hypothesis above is met) *)
Theorem C13_configurations_start_initial : forall k c, initialb (root k c) = true.
Proof. exact root_initial. Qed.
Print Assumptions C13_configurations_start_initial.

(* Requests addressed to the proxy's own API are never counted: deleting
   them from any history changes neither the state nor any answer. *)
Theorem C13_api_not_counted : forall h s,
  run repaired s (drop_api h) = run repaired s h.
Proof. exact api_not_counted. Qed.
Print Assumptions C13_api_not_counted.

Theorem C13_api_traffic_changes_nothing : forall m t,
  mapi m = true -> traffic repaired m t = t.
Proof. exact traffic_api_id. Qed.
Print Assumptions C13_api_traffic_changes_nothing.

(* ... and every reported failure stems from a non-API message that did not
   meet the expectation *)
Theorem C13_answers_never_mention_api : forall k t ms v n,
  In (v, Some n) (expected k ms t) ->
  exists m, In m ms /\ mid m = n /\ mapi m = false /\ mhit m v = true.
Proof. exact expected_sound. Qed.
Print Assumptions C13_answers_never_mention_api.

(* The pinned code breaks both clauses (witnesses = corpus/C13). *)
Theorem C13_reset_all_refuted_at_pinned_commit :
  model_outputs pinned wit_else_cfg [Traffic Res (wit_msg false); Reset; Query] = [[(2, Some 7)]]
  /\ spec_outputs wit_else_cfg [Traffic Res (wit_msg false); Reset; Query] = [[]].
Proof. exact pinned_reset_keeps_else_branch. Qed.
Print Assumptions C13_reset_all_refuted_at_pinned_commit.

Theorem C13_api_not_counted_refuted_at_pinned_commit :
  model_outputs pinned (CLeaf 1 VFailure true true) [Traffic Req (wit_msg true); Query] = [[(1, Some 7)]]
  /\ spec_outputs (CLeaf 1 VFailure true true) [Traffic Req (wit_msg true); Query] = [[]].
Proof. exact pinned_counts_api. Qed.
Print Assumptions C13_api_not_counted_refuted_at_pinned_commit.

(* Concurrent clause, sequential part: if every operation is one atomic
   step, then in EVERY interleaving a query (whose preceding messages since
   the last reset are [seen], with [pre] ⊆ [seen] ⊆ [all]) reports every counted
   failure recorded before it began, nothing no message can have caused, and a
   pingback as missing only if it was missing before. *)
Theorem C13_concurrent_sandwich : forall c preq pres seenq seens allq alls,
  (forall m, In m preq -> In m seenq) -> (forall m, In m seenq -> In m allq) ->
  (forall m, In m pres -> In m seens) -> (forall m, In m seens -> In m alls) ->
  (forall f, In f (expected_both c preq pres) -> is_cnt f = true -> In f (expected_both c seenq seens))
  /\ (forall f, In f (expected_both c seenq seens) ->
        if is_cnt f then In f (expected_both c allq alls) else In f (expected_both c preq pres)).
Proof. exact sandwich_both. Qed.
Print Assumptions C13_concurrent_sandwich.

Theorem C13_recorded_failure_is_reported : forall k t ms1 m ms2 v,
  In (v, Some (mid m)) (expected k (ms1 ++ [m]) t) ->
  In (v, Some (mid m)) (expected k (ms1 ++ [m] ++ ms2) t).
Proof. exact recorded_failure_is_reported. Qed.
Print Assumptions C13_recorded_failure_is_reported.

(* ... and the same holds for a query that is NOT one atomic step but reads
   each verifier at its own moment ([hist v] = the messages verifier [v] has
   seen when the walk reads it), which is all the code's locks guarantee. *)
Theorem C13_concurrent_sandwich_nonatomic : forall k t pre all hist,
  (forall v m, In m pre -> In m (hist v)) -> (forall v m, In m (hist v) -> In m all) ->
  (forall f, In f (expected k pre t) -> is_cnt f = true ->
             In f (expected_at k hist (fun _ => true) t))
  /\ (forall f, In f (expected_at k hist (fun _ => true) t) ->
        if is_cnt f then In f (expected k all t) else In f (expected k pre t)).
Proof. exact sandwich_nonatomic. Qed.
Print Assumptions C13_concurrent_sandwich_nonatomic.

Theorem C13_atomic_query_is_the_special_case : forall k t ms,
  expected_at k (fun _ => ms) (fun _ => true) t = expected k ms t.
Proof. exact expected_at_atomic. Qed.
Print Assumptions C13_atomic_query_is_the_special_case.

(* None duplicated: with distinct messages and distinct verifiers the
   specified answer never repeats an error. *)
Theorem C13_none_duplicated : forall k t ms,
  NoDup (map mid ms) -> NoDup (leaf_ids t) -> NoDup (expected k ms t).
Proof. exact expected_nodup. Qed.
Print Assumptions C13_none_duplicated.

(* The executable oracles run on the real implementation's answers are the
   statements above. *)
Theorem C13_oracle_is_the_property : forall c h observed,
  c13_ok c h observed = true <-> observed = spec_outputs c h.
Proof. exact c13_ok_iff. Qed.
Print Assumptions C13_oracle_is_the_property.

Theorem C13_concurrent_oracle_is_the_property : forall lo hi obs,
  c13_conc_ok lo hi obs = true <->
  (forall f, In f lo -> is_cnt f = true -> In f obs)
  /\ (forall f, In f obs -> if is_cnt f then In f hi else In f lo)
  /\ NoDup obs.
Proof. exact c13_conc_ok_iff. Qed.
Print Assumptions C13_concurrent_oracle_is_the_property.

(* oracle of the "operation racing with one parked message" scenario: the
   answers are those of one of the two sequential orders (the state-machine
   model, where every operation is one step, has no third outcome:
   C13_query_exact applied to either order) *)
Theorem C13_atomicity_oracle_is_the_property : forall c h1 h2 observed,
  c13_either_ok c h1 h2 observed = true <->
  observed = spec_outputs c h1 \/ observed = spec_outputs c h2.
Proof. exact c13_either_ok_iff. Qed.
Print Assumptions C13_atomicity_oracle_is_the_property.

(* The atomicity assumption tied to the source: the lock table regenerated
   from fifo/fifo_group.go, martianhttp/martianhttp.go and multierror.go on
   every run satisfies the discipline (per kind: traffic shares, query and
   reset exclusively hold, the SAME mutex; MultiError mutations exclusive). *)
Theorem C13_lock_discipline_read_from_source : discipline_ok gen_locks = true.
Proof. exact source_lock_discipline. Qed.
Print Assumptions C13_lock_discipline_read_from_source.

Theorem C13_model_agrees_with_spec : forall c h, model_agrees c h = true.
Proof. exact model_agrees_true. Qed.
Print Assumptions C13_model_agrees_with_spec.

(* Non-vacuity: a configuration with a fifo group, a filter with both
   branches, a two-scope header verifier, a pingback and a scoped-out leaf; a
   history with API traffic, both filter branches, queries and resets. *)
Definition ex_cfg : cfg :=
  CFifo true true
    [CLeaf 1 VHeader true true;
     CFilt 2 true true
       (CFifo true true [CLeaf 3 VStatus true true; CLeaf 4 VFailure true true])
       (Some (CFifo true true [CLeaf 5 VStatus true true; CLeaf 6 VPingback true true]));
     COther true true;
     CLeaf 7 VMethod false true].

Definition ex_m (i : nat) (api cond : bool) : msg :=
  mkMsg i api (fun _ => cond) (fun _ => true).

Example C13_example :
  spec_outputs ex_cfg
    [Query;
     Traffic Req (ex_m 10 false true); Traffic Res (ex_m 11 false false);
     Traffic Req (ex_m 12 true true); Traffic Res (ex_m 13 false true);
     Query;
     Traffic Req (ex_m 14 false false);
     QueryK Req; ResetK Res; Query; Reset; Query]
  = [ [(6, None)];
      [(1, Some 10); (6, None); (4, Some 10); (1, Some 11); (1, Some 13); (3, Some 13); (5, Some 11)];
      [(1, Some 10); (1, Some 14); (4, Some 10)];
      [(1, Some 10); (1, Some 14); (4, Some 10)];
      [(6, None)] ]
  /\ model_outputs repaired ex_cfg
       [Traffic Res (ex_m 11 false false); Reset; Query] = [[(6, None)]]
  /\ initialb (root Req ex_cfg) = true.
Proof. vm_compute. repeat split; reflexivity. Qed.

Example C13_example_distinct_verifiers :
  NoDup (leaf_ids (root Req ex_cfg)) /\ NoDup (leaf_ids (root Res ex_cfg)).
Proof. vm_compute. split; repeat constructor; simpl; intuition congruence. Qed.
