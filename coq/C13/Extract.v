From Coq Require Import ExtrOcamlBasic ExtrOcamlString.
From Martian.Common Require Import ExtractBase.
From Martian.C13 Require Import Model.
Extraction Language OCaml.
Extraction "model.ml" base_anchor spec_outputs model_outputs repaired pinned
  c13_ok model_agrees first_diff c13_conc_ok c13_serial_ok c13_answer_ok c13_same_set_ok c13_load_ok load_answer expected_both root expected leaf_ids.
