(* C13 — verification reports exactly the unmet expectations since the last reset.

   Definitions only (no proofs), total, computable, extractable.

   What is modelled (google/martian, pinned commit + the repairs in
   /verif/fixes/C13-*.diff; the [variant] record selects pinned vs repaired):

   - [cfg]      a JSON modifier configuration: verifier leaves, non-verifier
                modifiers, fifo.Group, filters with a true and an optional
                else branch, every node with a scope.
   - [compile]  parse.NewResult / fifo.groupFromJSON / <x>.filterFromJSON:
                one configuration becomes TWO independent modifier structures,
                one for requests and one for responses (g.reqmods/g.resmods,
                f.treqmod/f.tresmod ...; header.Verifier keeps two separate
                error lists reqerr/reserr).  A node whose scope excludes the
                kind is nil for that kind: dropped from a group's list,
                replaced by the noop in a filter / at the martianhttp root.
   - [ktree]    one such structure, the mutable verifier state inside its
                leaves, exactly where the Go objects keep it.
   - [traffic]  ModifyRequest/ModifyResponse walk (fifo: every child in order;
                filter: the branch selected by the condition; leaf: append a
                failure / note the pingback unless the request is an API
                request).
   - [verify]   VerifyRequests/VerifyResponses walk, literally: every level
                builds a fresh MultiError and [add]s its children's errors,
                unwrapping a child's *MultiError one level; returns nil when
                empty.  filter order: requests else-then-true, responses
                true-then-else.  verify.Handler.appendError = [errs_of].
   - [reset]    Reset*Verifications walk.
   - [expected] THE SPECIFICATION, computed from the history alone (no state):
                for the messages of one kind since the last reset, one failure
                per (message, leaf) such that the message reaches the leaf
                (filter conditions along the path), is not an API request and
                does not meet the leaf's expectation; in walk order, flat.

   External facts enter as per-message tables ([mcond] : filter id -> did the
   filter's condition hold, [mhit] : leaf id -> was the leaf's expectation
   NOT met / for a pingback leaf: did the URL match).  They are computed by the
   harness for every case and shipped in the case line. *)

From Coq Require Import List Bool Arith.
Import ListNotations.

Inductive kind := Req | Res.

Inductive vtype := VStatus | VHeader | VMethod | VUrl | VQuery | VFailure | VPingback.

(* Which ModifyX a verifier type implements (Go interfaces). *)
Definition caps (vt : vtype) (k : kind) : bool :=
  match vt, k with
  | VStatus, Res => true
  | VStatus, Req => false
  | VHeader, _ => true
  | _, Req => true
  | _, Res => false
  end.

(* pinned code vs repaired code *)
Record variant := mkVariant {
  reset_else_res : bool;          (* filter.ResetResponseVerifications also resets the else branch *)
  exempt : vtype -> bool          (* the verifier type skips API requests *)
}.

Definition repaired : variant :=
  mkVariant true (fun _ => true).

Definition pinned : variant :=
  mkVariant false (fun vt => match vt with VHeader | VMethod | VFailure => false | _ => true end).

(* ------------------------------------------------------------------ *)
(* Configuration and its compilation into per-kind structures          *)
(* ------------------------------------------------------------------ *)

Inductive cfg :=
| CLeaf (v : nat) (vt : vtype) (sq ss : bool)
| COther (sq ss : bool)
| CFifo (sq ss : bool) (cs : list cfg)
| CFilt (f : nat) (sq ss : bool) (tb : cfg) (eb : option cfg).

Inductive ktree :=
| KLeaf (v : nat) (vt : vtype) (fails : list nat) (seen : bool)
| KOther
| KFifo (cs : list ktree)
| KFilt (f : nat) (tb eb : ktree).

Definition in_scope (k : kind) (sq ss : bool) : bool :=
  match k with Req => sq | Res => ss end.

Definition or_other (o : option ktree) : ktree :=
  match o with Some t => t | None => KOther end.

Fixpoint compile (k : kind) (c : cfg) : option ktree :=
  match c with
  | CLeaf v vt sq ss =>
      if in_scope k sq ss && caps vt k then Some (KLeaf v vt [] false) else None
  | COther sq ss =>
      if in_scope k sq ss then Some KOther else None
  | CFifo sq ss cs =>
      if in_scope k sq ss then
        Some (KFifo ((fix go (l : list cfg) : list ktree :=
                        match l with
                        | [] => []
                        | c :: r => match compile k c with
                                    | Some t => t :: go r
                                    | None => go r
                                    end
                        end) cs))
      else None
  | CFilt f sq ss tb eb =>
      if in_scope k sq ss then
        Some (KFilt f (or_other (compile k tb))
                      (match eb with Some e => or_other (compile k e) | None => KOther end))
      else None
  end.

(* martianhttp.Modifier: nil -> noop *)
Definition root (k : kind) (c : cfg) : ktree := or_other (compile k c).

(* ------------------------------------------------------------------ *)
(* Messages and the three walks                                        *)
(* ------------------------------------------------------------------ *)

Record msg := mkMsg {
  mid : nat;                 (* identifies the message in error texts *)
  mapi : bool;               (* ctx.IsAPIRequest() *)
  mcond : nat -> bool;       (* filter id -> condition holds *)
  mhit : nat -> bool         (* leaf id -> expectation unmet (pingback: URL matches) *)
}.

(* failure = (leaf, Some message) | (pingback leaf, None) "never occurred" *)
Definition failure := (nat * option nat)%type.

Definition leaf_traffic (vr : variant) (m : msg) (v : nat) (vt : vtype)
           (fails : list nat) (seen : bool) : list nat * bool :=
  if mapi m && exempt vr vt then (fails, seen)
  else match vt with
       | VPingback => (fails, seen || mhit m v)
       | _ => (if mhit m v then fails ++ [mid m] else fails, seen)
       end.

Fixpoint traffic (vr : variant) (m : msg) (t : ktree) : ktree :=
  match t with
  | KLeaf v vt fs sn =>
      let '(fs', sn') := leaf_traffic vr m v vt fs sn in KLeaf v vt fs' sn'
  | KOther => KOther
  | KFifo cs => KFifo (map (traffic vr m) cs)
  | KFilt f tb eb =>
      if mcond m f then KFilt f (traffic vr m tb) eb
      else KFilt f tb (traffic vr m eb)
  end.

(* [both] = does the filter reset its else branch too *)
Fixpoint reset (both : bool) (t : ktree) : ktree :=
  match t with
  | KLeaf v vt _ _ => KLeaf v vt [] false
  | KOther => KOther
  | KFifo cs => KFifo (map (reset both) cs)
  | KFilt f tb eb => KFilt f (reset both tb) (if both then reset both eb else eb)
  end.

Definition reset_both (vr : variant) (k : kind) : bool :=
  match k with Req => true | Res => reset_else_res vr end.

(* A Go error value as far as this property can tell them apart.  A
   *MultiError never holds another *MultiError because Add (the only way in)
   unwraps its argument one level and, inductively, the unwrapped elements are
   plain errors. *)
Inductive err :=
| ESingle (f : failure)
| EMulti (l : list failure).

Definition add (acc : list failure) (e : err) : list failure :=
  match e with
  | ESingle f => acc ++ [f]
  | EMulti l => acc ++ l
  end.

Definition add_opt (acc : list failure) (o : option err) : list failure :=
  match o with Some e => add acc e | None => acc end.

(* if merr.Empty() { return nil }; return merr *)
Definition nonempty (l : list failure) : option err :=
  match l with [] => None | _ => Some (EMulti l) end.

Fixpoint verify (k : kind) (t : ktree) : option err :=
  match t with
  | KLeaf v vt fs sn =>
      match vt with
      | VPingback => if sn then None else Some (ESingle (v, None))
      | _ => match fs with
             | [] => None
             | _ => Some (EMulti (map (fun n => (v, Some n)) fs))
             end
      end
  | KOther => None
  | KFifo cs =>
      nonempty ((fix go (l : list ktree) (acc : list failure) : list failure :=
                   match l with
                   | [] => acc
                   | c :: r => go r (add_opt acc (verify k c))
                   end) cs [])
  | KFilt f tb eb =>
      match k with
      | Req => nonempty (add_opt (add_opt [] (verify k eb)) (verify k tb))
      | Res => nonempty (add_opt (add_opt [] (verify k tb)) (verify k eb))
      end
  end.

(* verify.appendError *)
Definition errs_of (o : option err) : list failure :=
  match o with
  | None => []
  | Some (ESingle f) => [f]
  | Some (EMulti l) => l
  end.

(* ------------------------------------------------------------------ *)
(* Specification: from the history alone                               *)
(* ------------------------------------------------------------------ *)

Definition counts (m : msg) (v : nat) : bool := negb (mapi m) && mhit m v.

Fixpoint expected (k : kind) (ms : list msg) (t : ktree) : list failure :=
  match t with
  | KLeaf v vt _ _ =>
      match vt with
      | VPingback => if existsb (fun m => counts m v) ms then [] else [(v, None)]
      | _ => map (fun m => (v, Some (mid m))) (filter (fun m => counts m v) ms)
      end
  | KOther => []
  | KFifo cs => flat_map (expected k ms) cs
  | KFilt f tb eb =>
      let et := expected k (filter (fun m => mcond m f) ms) tb in
      let ee := expected k (filter (fun m => negb (mcond m f)) ms) eb in
      match k with Req => ee ++ et | Res => et ++ ee end
  end.

(* ------------------------------------------------------------------ *)
(* The system: both structures, histories                              *)
(* ------------------------------------------------------------------ *)

Inductive label :=
| Traffic (k : kind) (m : msg)
| QueryK (k : kind)            (* root.VerifyRequests / VerifyResponses called directly *)
| ResetK (k : kind)            (* root.ResetRequestVerifications / ResetResponseVerifications *)
| Query                        (* verify.Handler: requests then responses *)
| Reset                        (* verify.ResetHandler: requests then responses *)
| Refused                      (* a call a handler refuses (405 wrong method, 400 unparsable configuration) *)
| Configure (c : cfg).         (* martianhttp.Modifier POST: both sides replaced by the new configuration's,
                                  a side it does not cover becomes the noop, never the previous one *)

Record sys := mkSys { tq : ktree; ts : ktree }.

Definition get (k : kind) (s : sys) : ktree := match k with Req => tq s | Res => ts s end.
Definition set (k : kind) (s : sys) (t : ktree) : sys :=
  match k with Req => mkSys t (ts s) | Res => mkSys (tq s) t end.

Definition init (c : cfg) : sys := mkSys (root Req c) (root Res c).

Definition step (vr : variant) (s : sys) (l : label) : sys * option (list failure) :=
  match l with
  | Traffic k m => (set k s (traffic vr m (get k s)), None)
  | QueryK k => (s, Some (errs_of (verify k (get k s))))
  | ResetK k => (set k s (reset (reset_both vr k) (get k s)), None)
  | Query => (s, Some (errs_of (verify Req (tq s)) ++ errs_of (verify Res (ts s))))
  | Reset => (mkSys (reset (reset_both vr Req) (tq s)) (reset (reset_both vr Res) (ts s)), None)
  | Refused => (s, None)
  | Configure c => (init c, None)
  end.

(* final state and the answers of the queries, in order *)
Fixpoint run (vr : variant) (s : sys) (h : list label) : sys * list (list failure) :=
  match h with
  | [] => (s, [])
  | l :: r =>
      let '(s1, o) := step vr s l in
      let '(s2, os) := run vr s1 r in
      (s2, match o with Some x => x :: os | None => os end)
  end.

Definition model_outputs (vr : variant) (c : cfg) (h : list label) : list (list failure) :=
  snd (run vr (init c) h).

(* The specification of a whole history: [aq]/[as_] = the request/response
   messages since the last reset of that kind. *)
Fixpoint spec_run (tq0 ts0 : ktree) (aq as_ : list msg) (h : list label) : list (list failure) :=
  match h with
  | [] => []
  | Traffic Req m :: r => spec_run tq0 ts0 (aq ++ [m]) as_ r
  | Traffic Res m :: r => spec_run tq0 ts0 aq (as_ ++ [m]) r
  | QueryK Req :: r => expected Req aq tq0 :: spec_run tq0 ts0 aq as_ r
  | QueryK Res :: r => expected Res as_ ts0 :: spec_run tq0 ts0 aq as_ r
  | ResetK Req :: r => spec_run tq0 ts0 [] as_ r
  | ResetK Res :: r => spec_run tq0 ts0 aq [] r
  | Query :: r => (expected Req aq tq0 ++ expected Res as_ ts0) :: spec_run tq0 ts0 aq as_ r
  | Reset :: r => spec_run tq0 ts0 [] [] r
  | Refused :: r => spec_run tq0 ts0 aq as_ r
  | Configure c :: r => spec_run (root Req c) (root Res c) [] [] r
  end.

Definition spec_outputs (c : cfg) (h : list label) : list (list failure) :=
  spec_run (root Req c) (root Res c) [] [] h.

(* ------------------------------------------------------------------ *)
(* Oracles evaluated on the real implementation's answers              *)
(* ------------------------------------------------------------------ *)

Definition onat_eqb (a b : option nat) : bool :=
  match a, b with
  | Some x, Some y => Nat.eqb x y
  | None, None => true
  | _, _ => false
  end.

Definition failure_eqb (a b : failure) : bool :=
  Nat.eqb (fst a) (fst b) && onat_eqb (snd a) (snd b).

Fixpoint list_eqb {A} (eqb : A -> A -> bool) (a b : list A) : bool :=
  match a, b with
  | [], [] => true
  | x :: a', y :: b' => eqb x y && list_eqb eqb a' b'
  | _, _ => false
  end.

(* sequential histories: the observed answers are exactly the specified ones *)
Definition c13_ok (c : cfg) (h : list label) (observed : list (list failure)) : bool :=
  list_eqb (list_eqb failure_eqb) observed (spec_outputs c h).

(* the state-machine model (repaired variant) agrees with the specification;
   true by theorem, evaluated by the driver as a check of the tie *)
Definition model_agrees (c : cfg) (h : list label) : bool :=
  list_eqb (list_eqb failure_eqb) (model_outputs repaired c h) (spec_outputs c h).

(* index of the first differing answer *)
Fixpoint first_diff (i : nat) (a b : list (list failure)) : option nat :=
  match a, b with
  | [], [] => None
  | x :: a', y :: b' => if list_eqb failure_eqb x y then first_diff (S i) a' b' else Some i
  | _, _ => Some i
  end.

(* concurrent answers: a query racing with traffic (no reset in between)
   must contain every counted failure that was already recorded before it
   began ([lo]), nothing that no message can have caused ([hi]), may report a
   pingback as missing only if it was missing before ([lo]), and nothing
   twice. *)
Definition fmem (f : failure) (l : list failure) : bool := existsb (failure_eqb f) l.

Definition is_cnt (f : failure) : bool := match snd f with Some _ => true | None => false end.

Fixpoint nodupb (l : list failure) : bool :=
  match l with
  | [] => true
  | f :: r => negb (fmem f r) && nodupb r
  end.

Definition c13_conc_ok (lo hi obs : list failure) : bool :=
  forallb (fun f => negb (is_cnt f) || fmem f obs) lo
  && forallb (fun f => if is_cnt f then fmem f hi else fmem f lo) obs
  && nodupb obs.

(* the answer for a set of messages, both kinds, as verify.Handler returns it *)
Definition expected_both (c : cfg) (mq ms : list msg) : list failure :=
  expected Req mq (root Req c) ++ expected Res ms (root Res c).

(* ------------------------------------------------------------------ *)
(* Auxiliary definitions used in theorem statements                    *)
(* ------------------------------------------------------------------ *)

(* every verifier in the structure is in the state NewVerifier creates *)
Fixpoint initialb (t : ktree) : bool :=
  match t with
  | KLeaf _ _ fs sn => match fs with [] => negb sn | _ => false end
  | KOther => true
  | KFifo cs => forallb initialb cs
  | KFilt _ tb eb => initialb tb && initialb eb
  end.

(* flat walk of the error lists, without the MultiError plumbing *)
Fixpoint query (k : kind) (t : ktree) : list failure :=
  match t with
  | KLeaf v vt fs sn =>
      match vt with
      | VPingback => if sn then [] else [(v, None)]
      | _ => map (fun n => (v, Some n)) fs
      end
  | KOther => []
  | KFifo cs => flat_map (query k) cs
  | KFilt f tb eb =>
      match k with Req => query k eb ++ query k tb | Res => query k tb ++ query k eb end
  end.

Definition kind_eqb (a b : kind) : bool :=
  match a, b with Req, Req => true | Res, Res => true | _, _ => false end.

(* the messages of kind [k] since the last reset of kind [k] / the last reconfiguration *)
Fixpoint since (k : kind) (acc : list msg) (h : list label) : list msg :=
  match h with
  | [] => acc
  | l :: r =>
      since k (match l with
               | Traffic k' m => if kind_eqb k k' then acc ++ [m] else acc
               | ResetK k' => if kind_eqb k k' then [] else acc
               | Reset => []
               | Configure _ => []
               | _ => acc
               end) r
  end.

(* the structure of kind [k] configured after the history (the last
   configuration posted, else the one the history started with) *)
Fixpoint current (k : kind) (t0 : ktree) (h : list label) : ktree :=
  match h with
  | [] => t0
  | Configure c :: r => current k (root k c) r
  | _ :: r => current k t0 r
  end.

(* a history without the traffic addressed to the proxy's own API *)
Definition not_api_traffic (l : label) : bool :=
  match l with Traffic _ m => negb (mapi m) | _ => true end.

(* a history without the calls the handlers refused *)
Definition not_refused (l : label) : bool :=
  match l with Refused => false | _ => true end.

Definition drop_refused (h : list label) : list label := filter not_refused h.

Definition drop_api (h : list label) : list label := filter not_api_traffic h.

Fixpoint leaf_ids (t : ktree) : list nat :=
  match t with
  | KLeaf v _ _ _ => [v]
  | KOther => []
  | KFifo cs => flat_map leaf_ids cs
  | KFilt _ tb eb => leaf_ids tb ++ leaf_ids eb
  end.

(* What a query reports if it is NOT one atomic step: verifier [v] is read
   when exactly the messages [hist v] have been through it (each verifier's
   own list is read atomically under its lock, but traffic keeps flowing
   while the walk moves from one verifier to the next).  [p] accumulates the
   filter conditions along the path. *)
Fixpoint expected_at (k : kind) (hist : nat -> list msg) (p : msg -> bool) (t : ktree) : list failure :=
  match t with
  | KLeaf v vt _ _ =>
      match vt with
      | VPingback => if existsb (fun m => p m && counts m v) (hist v) then [] else [(v, None)]
      | _ => map (fun m => (v, Some (mid m))) (filter (fun m => p m && counts m v) (hist v))
      end
  | KOther => []
  | KFifo cs => flat_map (expected_at k hist p) cs
  | KFilt f tb eb =>
      let et := expected_at k hist (fun m => p m && mcond m f) tb in
      let ee := expected_at k hist (fun m => p m && negb (mcond m f)) eb in
      match k with Req => ee ++ et | Res => et ++ ee end
  end.

(* ------------------------------------------------------------------ *)
(* Oracles over schedules                                               *)
(* ------------------------------------------------------------------ *)

(* every interleaving of two sequences (each keeps its own order) *)
Fixpoint all_merges {A} (a : list A) : list A -> list (list A) :=
  match a with
  | [] => fun b => [b]
  | x :: a' =>
      fix inner (b : list A) : list (list A) :=
        match b with
        | [] => [x :: a']
        | y :: b' => map (cons x) (all_merges a' b) ++ map (cons y) (inner b')
        end
  end.

(* Operations of two goroutines [t1], [t2] racing after the history [pre] and
   followed by [post]: if every operation is atomic with respect to the
   others (fifo.Group's per-kind RWMutex: traffic holds the read lock across
   all the group's children, queries and resets take the write lock), the
   observed answers are those of SOME interleaving. *)
Definition c13_serial_ok (c : cfg) (pre t1 t2 post : list label) (observed : list (list failure)) : bool :=
  existsb (fun mid => c13_ok c (pre ++ mid ++ post) observed) (all_merges t1 t2).

(* one answer against the specified one, exactly *)
Definition c13_answer_ok (want obs : list failure) : bool := list_eqb failure_eqb obs want.

(* the answer after all racing traffic has completed: the specified errors in
   some order (the order inside one verifier's list is the arrival order,
   which the schedule decides), none missing, none extra, none twice *)
Definition c13_same_set_ok (want obs : list failure) : bool :=
  forallb (fun f => fmem f obs) want && forallb (fun f => fmem f want) obs && nodupb obs.

(* a structure without pingback leaves never reports "never occurred" *)
Fixpoint no_pb (t : ktree) : bool :=
  match t with
  | KLeaf _ vt _ _ => match vt with VPingback => false | _ => true end
  | KOther => true
  | KFifo cs => forallb no_pb cs
  | KFilt _ tb eb => no_pb tb && no_pb eb
  end.

(* [n] goroutines' worth of the same message [m] and nothing else, then a
   query: the answer holds exactly as many errors as specified (none lost to
   a concurrent append, none recorded twice) *)
Definition load_answer (c : cfg) (k : kind) (m : msg) (n : nat) : list failure :=
  match k with
  | Req => expected_both c (repeat m n) []
  | Res => expected_both c [] (repeat m n)
  end.

Definition c13_load_ok (c : cfg) (k : kind) (m : msg) (n cnt : nat) : bool :=
  Nat.eqb cnt (length (load_answer c k m n)).
