(* C13 — the lock discipline the atomicity assumption rests on, checked
   against the table read from the repository source (Gen_Locks.v, go/ast).

   What the sequential theorems assume of the Go code is: one message through
   a fifo.Group, one query of it and one reset of it are mutually atomic.  The
   code obtains that from the group's per-kind RWMutex: traffic of a kind
   holds that kind's mutex (shared) across all children, VerifyX and ResetX of
   the same kind hold the SAME mutex exclusively; and every MultiError access
   is under the MultiError's own mutex (Add / Reset exclusively).  A message
   reaches more than one verifier only through a group, so nothing else is
   needed (martianhttp.Modifier's lock only protects its own two fields). *)
From Coq Require Import List String Bool.
From Martian.C13 Require Import Gen_Locks.
Import ListNotations.
Open Scope string_scope.

Definition lock_row := (string * string * string * string)%type.

Fixpoint lookup (tbl : list lock_row) (ty m : string) : option (string * string) :=
  match tbl with
  | [] => None
  | (ty', m', f, md) :: r =>
      if String.eqb ty ty' && String.eqb m m' then Some (f, md) else lookup r ty m
  end.

Definition holds (tbl : list lock_row) (ty m mu : string) (modes : list string) : bool :=
  match lookup tbl ty m with
  | Some (f, md) => String.eqb f mu && existsb (String.eqb md) modes
  | None => false
  end.

Definition holds_if_present (tbl : list lock_row) (ty m mu : string) (modes : list string) : bool :=
  match lookup tbl ty m with
  | Some _ => holds tbl ty m mu modes
  | None => true
  end.

Definition shared_or_excl := ["RLock"; "Lock"].
Definition excl := ["Lock"].

Definition fifo_kind_ok (tbl : list lock_row) (modify verify reset mu : string) : bool :=
  holds tbl "fifo.Group" modify mu shared_or_excl
  && holds tbl "fifo.Group" verify mu excl
  && holds tbl "fifo.Group" reset mu excl.

Definition discipline_ok (tbl : list lock_row) : bool :=
  fifo_kind_ok tbl "ModifyRequest" "VerifyRequests" "ResetRequestVerifications" "reqmu"
  && fifo_kind_ok tbl "ModifyResponse" "VerifyResponses" "ResetResponseVerifications" "resmu"
  && holds tbl "fifo.Group" "AddRequestModifier" "reqmu" excl
  && holds tbl "fifo.Group" "AddResponseModifier" "resmu" excl
  && holds tbl "MultiError" "Add" "mu" excl
  && holds tbl "MultiError" "Errors" "mu" shared_or_excl
  && holds tbl "MultiError" "Empty" "mu" shared_or_excl
  && holds_if_present tbl "MultiError" "Reset" "mu" excl
  && holds tbl "martianhttp.Modifier" "ModifyRequest" "mu" shared_or_excl
  && holds tbl "martianhttp.Modifier" "ModifyResponse" "mu" shared_or_excl
  && holds tbl "martianhttp.Modifier" "VerifyRequests" "mu" shared_or_excl
  && holds tbl "martianhttp.Modifier" "VerifyResponses" "mu" shared_or_excl
  && holds tbl "martianhttp.Modifier" "ResetRequestVerifications" "mu" shared_or_excl
  && holds tbl "martianhttp.Modifier" "ResetResponseVerifications" "mu" shared_or_excl.

Lemma source_lock_discipline : discipline_ok gen_locks = true.
Proof. vm_compute. reflexivity. Qed.

(* what the check means for a group: same mutex, traffic shared, query and reset exclusive *)
Lemma discipline_fifo_exclusive : forall tbl,
  discipline_ok tbl = true ->
  (holds tbl "fifo.Group" "ModifyRequest" "reqmu" shared_or_excl = true
   /\ holds tbl "fifo.Group" "VerifyRequests" "reqmu" excl = true
   /\ holds tbl "fifo.Group" "ResetRequestVerifications" "reqmu" excl = true)
  /\ (holds tbl "fifo.Group" "ModifyResponse" "resmu" shared_or_excl = true
      /\ holds tbl "fifo.Group" "VerifyResponses" "resmu" excl = true
      /\ holds tbl "fifo.Group" "ResetResponseVerifications" "resmu" excl = true).
Proof.
  intros tbl H. unfold discipline_ok, fifo_kind_ok in H.
  repeat (apply andb_true_iff in H; destruct H as [H ?]).
  repeat (match goal with H : _ && _ = true |- _ => apply andb_true_iff in H; destruct H end).
  repeat split; assumption.
Qed.
