(* C13 — lemmas and proofs. *)
From Coq Require Import List Bool Arith Lia.
From Martian.C13 Require Import Model.
Import ListNotations.

(* ------------------------------------------------------------------ *)
(* Induction principles for the nested trees                           *)
(* ------------------------------------------------------------------ *)

Section KInd.
  Variable P : ktree -> Prop.
  Hypothesis Hleaf : forall v vt fs sn, P (KLeaf v vt fs sn).
  Hypothesis Hother : P KOther.
  Hypothesis Hfifo : forall cs, Forall P cs -> P (KFifo cs).
  Hypothesis Hfilt : forall f tb eb, P tb -> P eb -> P (KFilt f tb eb).

  Fixpoint ktree_ind' (t : ktree) : P t :=
    match t with
    | KLeaf v vt fs sn => Hleaf v vt fs sn
    | KOther => Hother
    | KFifo cs =>
        Hfifo cs ((fix go (l : list ktree) : Forall P l :=
                     match l with
                     | [] => Forall_nil P
                     | c :: r => Forall_cons c (ktree_ind' c) (go r)
                     end) cs)
    | KFilt f tb eb => Hfilt f tb eb (ktree_ind' tb) (ktree_ind' eb)
    end.
End KInd.

Section CInd.
  Variable P : cfg -> Prop.
  Hypothesis Hleaf : forall v vt sq ss, P (CLeaf v vt sq ss).
  Hypothesis Hother : forall sq ss, P (COther sq ss).
  Hypothesis Hfifo : forall sq ss cs, Forall P cs -> P (CFifo sq ss cs).
  Hypothesis Hfilt1 : forall f sq ss tb, P tb -> P (CFilt f sq ss tb None).
  Hypothesis Hfilt2 : forall f sq ss tb e, P tb -> P e -> P (CFilt f sq ss tb (Some e)).

  Fixpoint cfg_ind' (c : cfg) : P c :=
    match c with
    | CLeaf v vt sq ss => Hleaf v vt sq ss
    | COther sq ss => Hother sq ss
    | CFifo sq ss cs =>
        Hfifo sq ss cs ((fix go (l : list cfg) : Forall P l :=
                           match l with
                           | [] => Forall_nil P
                           | c :: r => Forall_cons c (cfg_ind' c) (go r)
                           end) cs)
    | CFilt f sq ss tb None => Hfilt1 f sq ss tb (cfg_ind' tb)
    | CFilt f sq ss tb (Some e) => Hfilt2 f sq ss tb e (cfg_ind' tb) (cfg_ind' e)
    end.
End CInd.

(* ------------------------------------------------------------------ *)
(* Small list facts                                                     *)
(* ------------------------------------------------------------------ *)

Lemma map_ext_Forall : forall {A B} (f g : A -> B) l,
  Forall (fun x => f x = g x) l -> map f l = map g l.
Proof.
  intros A B f g l H. induction H as [|x l Hx _ IH]; simpl; [reflexivity|].
  rewrite Hx, IH. reflexivity.
Qed.

Lemma map_id_Forall : forall {A} (f : A -> A) l,
  Forall (fun x => f x = x) l -> map f l = l.
Proof.
  intros A f l H. induction H as [|x l Hx _ IH]; simpl; [reflexivity|].
  rewrite Hx, IH. reflexivity.
Qed.

Lemma flat_map_ext_Forall : forall {A B} (f g : A -> list B) l,
  Forall (fun x => f x = g x) l -> flat_map f l = flat_map g l.
Proof.
  intros A B f g l H. induction H as [|x l Hx _ IH]; simpl; [reflexivity|].
  rewrite Hx, IH. reflexivity.
Qed.

Lemma flat_map_map : forall {A B C} (f : B -> list C) (g : A -> B) l,
  flat_map f (map g l) = flat_map (fun x => f (g x)) l.
Proof.
  intros A B C f g l. induction l as [|x l IH]; simpl; [reflexivity|].
  rewrite IH. reflexivity.
Qed.

Lemma filter_snoc : forall {A} (p : A -> bool) l x,
  filter p (l ++ [x]) = filter p l ++ (if p x then [x] else []).
Proof.
  intros A p l x. rewrite filter_app. simpl. destruct (p x); reflexivity.
Qed.

Lemma existsb_snoc : forall {A} (p : A -> bool) l x,
  existsb p (l ++ [x]) = existsb p l || p x.
Proof.
  intros A p l x. rewrite existsb_app. simpl. rewrite orb_false_r. reflexivity.
Qed.

(* ------------------------------------------------------------------ *)
(* The state a history denotes                                          *)
(* ------------------------------------------------------------------ *)

(* [denote ms t]: the structure [t] with every leaf holding what the
   messages [ms] (those since the last reset) must have left there. *)
Fixpoint denote (ms : list msg) (t : ktree) : ktree :=
  match t with
  | KLeaf v vt _ _ =>
      match vt with
      | VPingback => KLeaf v vt [] (existsb (fun m => counts m v) ms)
      | _ => KLeaf v vt (map mid (filter (fun m => counts m v) ms)) false
      end
  | KOther => KOther
  | KFifo cs => KFifo (map (denote ms) cs)
  | KFilt f tb eb =>
      KFilt f (denote (filter (fun m => mcond m f) ms) tb)
              (denote (filter (fun m => negb (mcond m f)) ms) eb)
  end.

Lemma leaf_traffic_denote : forall m v vt ms fs sn,
  traffic repaired m (denote ms (KLeaf v vt fs sn)) = denote (ms ++ [m]) (KLeaf v vt fs sn).
Proof.
  intros m v vt ms fs sn.
  unfold counts.
  destruct vt; simpl; unfold leaf_traffic; simpl; rewrite ?andb_true_r;
    rewrite ?filter_snoc, ?existsb_snoc; unfold counts;
    destruct (mapi m) eqn:Ha; simpl;
    rewrite ?orb_false_r, ?app_nil_r; try reflexivity;
    destruct (mhit m v) eqn:Hh; simpl;
    rewrite ?map_app, ?app_nil_r; reflexivity.
Qed.

Lemma traffic_denote : forall t m ms,
  traffic repaired m (denote ms t) = denote (ms ++ [m]) t.
Proof.
  induction t as [v vt fs sn| |cs IH|f tb eb IHt IHe] using ktree_ind'; intros m ms.
  - apply leaf_traffic_denote.
  - reflexivity.
  - simpl. f_equal. rewrite map_map. apply map_ext_Forall.
    eapply Forall_impl; [|exact IH]. intros c Hc. apply Hc.
  - simpl. rewrite !filter_snoc. destruct (mcond m f); simpl.
    + rewrite IHt, app_nil_r. reflexivity.
    + rewrite IHe, app_nil_r. reflexivity.
Qed.

Lemma reset_denote : forall t ms, reset true (denote ms t) = denote [] t.
Proof.
  induction t as [v vt fs sn| |cs IH|f tb eb IHt IHe] using ktree_ind'; intros ms.
  - destruct vt; reflexivity.
  - reflexivity.
  - simpl. f_equal. rewrite map_map. apply map_ext_Forall.
    eapply Forall_impl; [|exact IH]. intros c Hc. apply Hc.
  - simpl. rewrite IHt, IHe. reflexivity.
Qed.

Lemma denote_nil_initial : forall t, initialb t = true -> denote [] t = t.
Proof.
  induction t as [v vt fs sn| |cs IH|f tb eb IHt IHe] using ktree_ind'; intros Hi.
  - simpl in Hi. destruct fs; [|discriminate]. destruct sn; [discriminate|].
    destruct vt; reflexivity.
  - reflexivity.
  - simpl in *. f_equal. apply map_id_Forall.
    rewrite forallb_forall in Hi. rewrite Forall_forall in *.
    intros c Hc. apply IH; auto.
  - simpl in *. apply andb_true_iff in Hi. destruct Hi as [H1 H2].
    rewrite IHt, IHe; auto.
Qed.

(* ------------------------------------------------------------------ *)
(* The MultiError plumbing flattens                                     *)
(* ------------------------------------------------------------------ *)

Lemma add_opt_app : forall acc o, add_opt acc o = acc ++ errs_of o.
Proof.
  intros acc [[f|l]|]; simpl; try reflexivity.
  symmetry. apply app_nil_r.
Qed.

Lemma errs_of_nonempty : forall l, errs_of (nonempty l) = l.
Proof. destruct l; reflexivity. Qed.

Definition verify_go (k : kind) :=
  fix go (l : list ktree) (acc : list failure) : list failure :=
    match l with
    | [] => acc
    | c :: r => go r (add_opt acc (verify k c))
    end.

Lemma verify_fifo : forall k cs, verify k (KFifo cs) = nonempty (verify_go k cs []).
Proof. reflexivity. Qed.

Lemma verify_go_flat : forall k cs acc,
  Forall (fun c => errs_of (verify k c) = query k c) cs ->
  verify_go k cs acc = acc ++ flat_map (query k) cs.
Proof.
  intros k cs. induction cs as [|c r IH]; intros acc H; simpl.
  - symmetry. apply app_nil_r.
  - inversion H as [|? ? Hc Hr]; subst.
    rewrite IH by assumption. rewrite add_opt_app, Hc, app_assoc. reflexivity.
Qed.

Lemma verify_flat : forall k t, errs_of (verify k t) = query k t.
Proof.
  intros k. induction t as [v vt fs sn| |cs IH|f tb eb IHt IHe] using ktree_ind'.
  - destruct vt; simpl; try (destruct fs; reflexivity). destruct sn; reflexivity.
  - reflexivity.
  - rewrite verify_fifo, errs_of_nonempty, verify_go_flat by assumption. reflexivity.
  - destruct k; simpl; rewrite errs_of_nonempty, !add_opt_app; simpl;
      rewrite IHt, IHe; reflexivity.
Qed.

Lemma query_denote : forall k t ms, query k (denote ms t) = expected k ms t.
Proof.
  intros k. induction t as [v vt fs sn| |cs IH|f tb eb IHt IHe] using ktree_ind'; intros ms.
  - destruct vt; simpl; rewrite ?map_map; reflexivity.
  - reflexivity.
  - simpl. rewrite flat_map_map. apply flat_map_ext_Forall.
    eapply Forall_impl; [|exact IH]. intros c Hc. apply Hc.
  - destruct k; simpl; rewrite IHt, IHe; reflexivity.
Qed.

Lemma verify_denote : forall k t ms, errs_of (verify k (denote ms t)) = expected k ms t.
Proof. intros. rewrite verify_flat. apply query_denote. Qed.

(* ------------------------------------------------------------------ *)
(* Histories                                                            *)
(* ------------------------------------------------------------------ *)

Lemma run_cons : forall vr s l r,
  run vr s (l :: r) =
  (fst (run vr (fst (step vr s l)) r),
   match snd (step vr s l) with
   | Some x => x :: snd (run vr (fst (step vr s l)) r)
   | None => snd (run vr (fst (step vr s l)) r)
   end).
Proof.
  intros. simpl. destruct (step vr s l) as [s1 o]. simpl.
  destruct (run vr s1 r) as [s2 os]. reflexivity.
Qed.

Lemma compile_initial : forall k c t, compile k c = Some t -> initialb t = true.
Proof.
  intros k. induction c as [v vt sq ss|sq ss|sq ss cs IH|f sq ss tb IHt|f sq ss tb e IHt IHe]
    using cfg_ind'; intros t H; simpl in H.
  - destruct (in_scope k sq ss && caps vt k); inversion H; reflexivity.
  - destruct (in_scope k sq ss); inversion H; reflexivity.
  - destruct (in_scope k sq ss); inversion H; subst; clear H. simpl.
    induction IH as [|c r Hc _ IHr]; simpl; [reflexivity|].
    destruct (compile k c) as [t|] eqn:E; simpl; auto.
    rewrite (Hc t eq_refl). simpl. exact IHr.
  - destruct (in_scope k sq ss); inversion H; subst; clear H. simpl.
    destruct (compile k tb) as [t1|] eqn:E1; simpl; [rewrite (IHt t1 eq_refl)|]; reflexivity.
  - destruct (in_scope k sq ss); inversion H; subst; clear H. simpl.
    destruct (compile k tb) as [t1|] eqn:E1; simpl; [rewrite (IHt t1 eq_refl)|];
      (destruct (compile k e) as [t2|] eqn:E2; simpl; [rewrite (IHe t2 eq_refl)|]; reflexivity).
Qed.

Lemma root_initial : forall k c, initialb (root k c) = true.
Proof.
  intros k c. unfold root. destruct (compile k c) as [t|] eqn:E; simpl; [|reflexivity].
  eapply compile_initial; eauto.
Qed.

Lemma run_state_out : forall h tq0 ts0 aq as_,
  run repaired (mkSys (denote aq tq0) (denote as_ ts0)) h =
  (mkSys (denote (since Req aq h) (current Req tq0 h)) (denote (since Res as_ h) (current Res ts0 h)),
   spec_run tq0 ts0 aq as_ h).
Proof.
  induction h as [|l r IH]; intros tq0 ts0 aq as_.
  - reflexivity.
  - rewrite run_cons.
    destruct l as [k m|k|k| | | |c]; try destruct k; simpl;
      rewrite ?traffic_denote, ?reset_denote, ?verify_denote; try (rewrite IH; reflexivity).
    unfold init.
    assert (E : mkSys (root Req c) (root Res c) =
                mkSys (denote [] (root Req c)) (denote [] (root Res c)))
      by (rewrite !denote_nil_initial by apply root_initial; reflexivity).
    rewrite E, IH. reflexivity.
Qed.

Lemma current_initial : forall k h t0, initialb t0 = true -> initialb (current k t0 h) = true.
Proof.
  intros k. induction h as [|l r IH]; intros t0 H; simpl; [exact H|].
  destruct l; auto. apply IH. apply root_initial.
Qed.

Theorem query_exact_general : forall tq0 ts0 h,
  initialb tq0 = true -> initialb ts0 = true ->
  snd (run repaired (mkSys tq0 ts0) h) = spec_run tq0 ts0 [] [] h.
Proof.
  intros tq0 ts0 h Hq Hs.
  rewrite <- (denote_nil_initial tq0 Hq) at 1.
  rewrite <- (denote_nil_initial ts0 Hs) at 1.
  rewrite run_state_out. reflexivity.
Qed.

Theorem query_exact : forall c h, model_outputs repaired c h = spec_outputs c h.
Proof.
  intros c h. unfold model_outputs, spec_outputs, init.
  apply query_exact_general; apply root_initial.
Qed.

(* state after any history = what the messages since the last reset denote *)
Theorem state_since : forall tq0 ts0 h,
  initialb tq0 = true -> initialb ts0 = true ->
  fst (run repaired (mkSys tq0 ts0) h) =
  mkSys (denote (since Req [] h) (current Req tq0 h)) (denote (since Res [] h) (current Res ts0 h)).
Proof.
  intros tq0 ts0 h Hq Hs.
  rewrite <- (denote_nil_initial tq0 Hq) at 1.
  rewrite <- (denote_nil_initial ts0 Hs) at 1.
  rewrite run_state_out. reflexivity.
Qed.

Theorem reset_all : forall tq0 ts0 h,
  initialb tq0 = true -> initialb ts0 = true ->
  fst (step repaired (fst (run repaired (mkSys tq0 ts0) h)) Reset) =
  mkSys (current Req tq0 h) (current Res ts0 h).
Proof.
  intros tq0 ts0 h Hq Hs. rewrite state_since by assumption. simpl.
  rewrite !reset_denote, !denote_nil_initial by (apply current_initial; assumption). reflexivity.
Qed.

(* a reconfiguration installs exactly the new configuration, both sides, initial *)
Theorem configure_replaces_both : forall vr s c,
  fst (step vr s (Configure c)) = mkSys (root Req c) (root Res c).
Proof. reflexivity. Qed.

Theorem reset_kind : forall tq0 ts0 h k,
  initialb tq0 = true -> initialb ts0 = true ->
  get k (fst (step repaired (fst (run repaired (mkSys tq0 ts0) h)) (ResetK k))) =
  get k (mkSys (current Req tq0 h) (current Res ts0 h)).
Proof.
  intros tq0 ts0 h k Hq Hs. rewrite state_since by assumption.
  destruct k; simpl; rewrite reset_denote, denote_nil_initial by (apply current_initial; assumption); reflexivity.
Qed.

(* ------------------------------------------------------------------ *)
(* API requests                                                         *)
(* ------------------------------------------------------------------ *)

Lemma traffic_api_id : forall m t, mapi m = true -> traffic repaired m t = t.
Proof.
  intros m t Ha.
  induction t as [v vt fs sn| |cs IH|f tb eb IHt IHe] using ktree_ind'; simpl.
  - unfold leaf_traffic. rewrite Ha. reflexivity.
  - reflexivity.
  - f_equal. apply map_id_Forall. exact IH.
  - destruct (mcond m f); [rewrite IHt|rewrite IHe]; reflexivity.
Qed.

Lemma set_get : forall k s, set k s (get k s) = s.
Proof. intros [] []; reflexivity. Qed.

Theorem api_not_counted : forall h s, run repaired s (drop_api h) = run repaired s h.
Proof.
  induction h as [|l r IH]; intros s; [reflexivity|].
  unfold drop_api in *. simpl filter.
  destruct (not_api_traffic l) eqn:E.
  - rewrite !run_cons, !IH. reflexivity.
  - destruct l as [k m|k|k| | | |c0]; simpl in E; try discriminate.
    apply negb_false_iff in E.
    rewrite (run_cons repaired s (Traffic k m) r). simpl.
    rewrite traffic_api_id, set_get by assumption.
    rewrite IH. destruct (run repaired s r); reflexivity.
Qed.

(* no answer of the specification mentions an API message *)
Lemma expected_sound : forall k t ms v n,
  In (v, Some n) (expected k ms t) ->
  exists m, In m ms /\ mid m = n /\ mapi m = false /\ mhit m v = true.
Proof.
  intros k. induction t as [v0 vt fs sn| |cs IH|f tb eb IHt IHe] using ktree_ind'; intros ms v n H.
  - assert (Hc : forall l, In (v, Some n) (map (fun m => (v0, Some (mid m))) (filter (fun m => counts m v0) l)) ->
               exists m, In m l /\ mid m = n /\ mapi m = false /\ mhit m v = true).
    { intros l Hl. apply in_map_iff in Hl. destruct Hl as [m [E Hm]].
      apply filter_In in Hm. destruct Hm as [Hin Hcnt]. inversion E; subst.
      unfold counts in Hcnt. apply andb_true_iff in Hcnt. destruct Hcnt as [H1 H2].
      apply negb_true_iff in H1. exists m; auto. }
    destruct vt; simpl in H; try (apply Hc; exact H).
    destruct (existsb _ ms); simpl in H; [contradiction|].
    destruct H as [H|[]]; inversion H.
  - contradiction.
  - simpl in H. apply in_flat_map in H. destruct H as [c [Hc Hf]].
    rewrite Forall_forall in IH. eapply IH; eauto.
  - assert (Hsub : forall p t', (forall ms v n, In (v, Some n) (expected k ms t') ->
                     exists m, In m ms /\ mid m = n /\ mapi m = false /\ mhit m v = true) ->
                   In (v, Some n) (expected k (filter p ms) t') ->
                   exists m, In m ms /\ mid m = n /\ mapi m = false /\ mhit m v = true).
    { intros p t' IHx Hx. destruct (IHx _ _ _ Hx) as [m [Hin Hr]].
      apply filter_In in Hin. exists m. tauto. }
    destruct k; simpl in H; apply in_app_iff in H; destruct H as [H|H]; eauto.
Qed.

(* ------------------------------------------------------------------ *)
(* Pinned code: the two refutations                                     *)
(* ------------------------------------------------------------------ *)

Definition wit_msg (api : bool) : msg := mkMsg 7 api (fun _ => false) (fun _ => true).

Definition wit_else_cfg : cfg :=
  CFilt 0 true true (CLeaf 1 VStatus true true) (Some (CLeaf 2 VStatus true true)).

Lemma pinned_reset_keeps_else_branch :
  model_outputs pinned wit_else_cfg [Traffic Res (wit_msg false); Reset; Query] = [[(2, Some 7)]]
  /\ spec_outputs wit_else_cfg [Traffic Res (wit_msg false); Reset; Query] = [[]].
Proof. split; vm_compute; reflexivity. Qed.

Lemma pinned_counts_api :
  model_outputs pinned (CLeaf 1 VFailure true true) [Traffic Req (wit_msg true); Query] = [[(1, Some 7)]]
  /\ spec_outputs (CLeaf 1 VFailure true true) [Traffic Req (wit_msg true); Query] = [[]].
Proof. split; vm_compute; reflexivity. Qed.

(* ------------------------------------------------------------------ *)
(* Oracles                                                              *)
(* ------------------------------------------------------------------ *)

Lemma failure_eqb_eq : forall a b : failure, failure_eqb a b = true <-> a = b.
Proof.
  intros [a1 a2] [b1 b2]. unfold failure_eqb. simpl. rewrite andb_true_iff, Nat.eqb_eq.
  split.
  - intros [H1 H2]. subst. f_equal.
    destruct a2, b2; simpl in H2; try discriminate; auto.
    apply Nat.eqb_eq in H2. subst. reflexivity.
  - intros H. inversion H; subst. split; auto.
    destruct b2; simpl; auto. apply Nat.eqb_refl.
Qed.

Lemma list_eqb_eq : forall {A} (eqb : A -> A -> bool),
  (forall x y, eqb x y = true <-> x = y) ->
  forall a b, list_eqb eqb a b = true <-> a = b.
Proof.
  intros A eqb He. induction a as [|x a IH]; destruct b as [|y b]; simpl;
    try (split; [discriminate|discriminate]); try tauto.
  rewrite andb_true_iff, He, IH. split.
  - intros [H1 H2]. subst. reflexivity.
  - intros H. inversion H. auto.
Qed.

Theorem c13_ok_iff : forall c h observed,
  c13_ok c h observed = true <-> observed = spec_outputs c h.
Proof.
  intros. unfold c13_ok. apply list_eqb_eq. apply list_eqb_eq. apply failure_eqb_eq.
Qed.

Theorem model_agrees_true : forall c h, model_agrees c h = true.
Proof.
  intros. unfold model_agrees. apply list_eqb_eq; [apply list_eqb_eq; apply failure_eqb_eq|].
  apply query_exact.
Qed.

Lemma fmem_In : forall f l, fmem f l = true <-> In f l.
Proof.
  intros f l. unfold fmem. rewrite existsb_exists. split.
  - intros [x [Hx He]]. apply failure_eqb_eq in He. subst. exact Hx.
  - intros H. exists f. split; auto. apply failure_eqb_eq. reflexivity.
Qed.

Lemma nodupb_NoDup : forall l, nodupb l = true <-> NoDup l.
Proof.
  induction l as [|f r IH]; simpl.
  - split; auto. constructor.
  - rewrite andb_true_iff, negb_true_iff, IH. split.
    + intros [H1 H2]. constructor; auto. intros Hin. apply fmem_In in Hin. congruence.
    + intros H. inversion H; subst. split; auto.
      destruct (fmem f r) eqn:E; auto. apply fmem_In in E. contradiction.
Qed.

Definition conc_prop (lo hi obs : list failure) : Prop :=
  (forall f, In f lo -> is_cnt f = true -> In f obs)
  /\ (forall f, In f obs -> if is_cnt f then In f hi else In f lo)
  /\ NoDup obs.

Theorem c13_conc_ok_iff : forall lo hi obs,
  c13_conc_ok lo hi obs = true <-> conc_prop lo hi obs.
Proof.
  intros lo hi obs. unfold c13_conc_ok, conc_prop.
  rewrite !andb_true_iff, !forallb_forall, nodupb_NoDup.
  split.
  - intros [[H1 H2] H3]. split; [|split]; auto.
    + intros f Hf Hc. specialize (H1 f Hf). rewrite Hc in H1. simpl in H1. apply fmem_In. exact H1.
    + intros f Hf. specialize (H2 f Hf). destruct (is_cnt f); apply fmem_In; exact H2.
  - intros [H1 [H2 H3]]. split; [split|]; auto.
    + intros f Hf. destruct (is_cnt f) eqn:E; simpl; auto. apply fmem_In. apply H1; auto.
    + intros f Hf. specialize (H2 f Hf). destruct (is_cnt f); apply fmem_In; exact H2.
Qed.

(* ------------------------------------------------------------------ *)
(* Nothing recorded is lost by later traffic (concurrent clause)        *)
(* ------------------------------------------------------------------ *)

Lemma filter_incl : forall {A} (p : A -> bool) l l',
  (forall x, In x l -> In x l') -> forall x, In x (filter p l) -> In x (filter p l').
Proof.
  intros A p l l' H x Hx. apply filter_In in Hx. apply filter_In. destruct Hx; auto.
Qed.

Lemma expected_cnt_mono : forall k t ms ms',
  (forall m, In m ms -> In m ms') ->
  forall v n, In (v, Some n) (expected k ms t) -> In (v, Some n) (expected k ms' t).
Proof.
  intros k. induction t as [v0 vt fs sn| |cs IH|f tb eb IHt IHe] using ktree_ind';
    intros ms ms' Hi v n H.
  - assert (Hc : In (v, Some n) (map (fun m => (v0, Some (mid m))) (filter (fun m => counts m v0) ms)) ->
                 In (v, Some n) (map (fun m => (v0, Some (mid m))) (filter (fun m => counts m v0) ms'))).
    { intros Hl. apply in_map_iff in Hl. destruct Hl as [m [E Hm]].
      apply in_map_iff. exists m. split; auto. eapply filter_incl; eauto. }
    destruct vt; simpl in *; try (apply Hc; exact H).
    destruct (existsb _ ms); simpl in H; [contradiction|].
    destruct H as [H|[]]; inversion H.
  - contradiction.
  - simpl in *. apply in_flat_map in H. destruct H as [c [Hc Hf]].
    apply in_flat_map. exists c. split; auto.
    rewrite Forall_forall in IH. eapply IH; eauto.
  - destruct k; simpl in *; apply in_app_iff in H; apply in_app_iff;
      (destruct H as [H|H]; [left|right]);
      (eapply IHt + eapply IHe); try exact H; apply filter_incl; exact Hi.
Qed.

Lemma expected_pb_anti : forall k t ms ms',
  (forall m, In m ms -> In m ms') ->
  forall v, In (v, None) (expected k ms' t) -> In (v, None) (expected k ms t).
Proof.
  intros k. induction t as [v0 vt fs sn| |cs IH|f tb eb IHt IHe] using ktree_ind';
    intros ms ms' Hi v H.
  - assert (Hc : forall l, ~ In (v, @None nat) (map (fun m => (v0, Some (mid m))) l)).
    { intros l Hl. apply in_map_iff in Hl. destruct Hl as [m [E _]]. inversion E. }
    destruct vt; simpl in *; try (exfalso; eapply Hc; exact H).
    destruct (existsb (fun m => counts m v0) ms') eqn:E'; simpl in H; [contradiction|].
    destruct (existsb (fun m => counts m v0) ms) eqn:E; simpl; auto.
    apply existsb_exists in E. destruct E as [m [Hm Hcm]].
    assert (existsb (fun m => counts m v0) ms' = true) by (apply existsb_exists; exists m; auto).
    congruence.
  - contradiction.
  - simpl in *. apply in_flat_map in H. destruct H as [c [Hc Hf]].
    apply in_flat_map. exists c. split; auto.
    rewrite Forall_forall in IH. eapply IH; eauto.
  - destruct k; simpl in *; apply in_app_iff in H; apply in_app_iff;
      (destruct H as [H|H]; [left|right]);
      (eapply IHt + eapply IHe); try exact H; apply filter_incl; exact Hi.
Qed.

Lemma failure_cases : forall f : failure,
  (exists v n, f = (v, Some n) /\ is_cnt f = true) \/ (exists v, f = (v, None) /\ is_cnt f = false).
Proof. intros [v [n|]]; [left|right]; eauto. Qed.

(* [pre] ⊆ [seen] ⊆ [all]: what a query sees, if it runs as one atomic step
   somewhere among concurrent traffic, is sandwiched between what was
   recorded before it began and what all traffic can record. *)
Theorem sandwich_kind : forall k t pre seen all,
  (forall m, In m pre -> In m seen) -> (forall m, In m seen -> In m all) ->
  (forall f, In f (expected k pre t) -> is_cnt f = true -> In f (expected k seen t))
  /\ (forall f, In f (expected k seen t) ->
        if is_cnt f then In f (expected k all t) else In f (expected k pre t)).
Proof.
  intros k t pre seen all H1 H2. split.
  - intros f Hf Hc. destruct (failure_cases f) as [[v [n [E _]]]|[v [E Hn]]]; subst.
    + eapply expected_cnt_mono; eauto.
    + simpl in Hc. discriminate.
  - intros f Hf. destruct (failure_cases f) as [[v [n [E Hc]]]|[v [E Hn]]]; subst; simpl.
    + eapply expected_cnt_mono; eauto.
    + eapply expected_pb_anti; eauto.
Qed.

Theorem sandwich_both : forall c preq pres seenq seens allq alls,
  (forall m, In m preq -> In m seenq) -> (forall m, In m seenq -> In m allq) ->
  (forall m, In m pres -> In m seens) -> (forall m, In m seens -> In m alls) ->
  (forall f, In f (expected_both c preq pres) -> is_cnt f = true -> In f (expected_both c seenq seens))
  /\ (forall f, In f (expected_both c seenq seens) ->
        if is_cnt f then In f (expected_both c allq alls) else In f (expected_both c preq pres)).
Proof.
  intros c preq pres seenq seens allq alls Hq1 Hq2 Hs1 Hs2. unfold expected_both.
  destruct (sandwich_kind Req (root Req c) preq seenq allq Hq1 Hq2) as [A1 A2].
  destruct (sandwich_kind Res (root Res c) pres seens alls Hs1 Hs2) as [B1 B2].
  split.
  - intros f Hf Hc. apply in_app_iff in Hf. apply in_app_iff. destruct Hf; [left|right]; auto.
  - intros f Hf. apply in_app_iff in Hf. destruct Hf as [Hf|Hf].
    + specialize (A2 f Hf). destruct (is_cnt f); apply in_app_iff; left; exact A2.
    + specialize (B2 f Hf). destruct (is_cnt f); apply in_app_iff; right; exact B2.
Qed.

(* a failure recorded before a query and not reset in between is in the answer *)
Theorem recorded_failure_is_reported : forall k t ms1 m ms2 v,
  In (v, Some (mid m)) (expected k (ms1 ++ [m]) t) ->
  In (v, Some (mid m)) (expected k (ms1 ++ [m] ++ ms2) t).
Proof.
  intros k t ms1 m ms2 v H. eapply expected_cnt_mono; [|exact H].
  intros x Hx. rewrite app_assoc. apply in_app_iff. left. exact Hx.
Qed.

(* ------------------------------------------------------------------ *)
(* A query that is not atomic (reads each verifier at its own moment)   *)
(* ------------------------------------------------------------------ *)

Lemma filter_filter_and : forall {A} (p q : A -> bool) l,
  filter q (filter p l) = filter (fun x => p x && q x) l.
Proof.
  intros A p q l. induction l as [|x l IH]; simpl; [reflexivity|].
  destruct (p x); simpl; [destruct (q x)|]; rewrite IH; reflexivity.
Qed.

Lemma existsb_filter_and : forall {A} (p q : A -> bool) l,
  existsb q (filter p l) = existsb (fun x => p x && q x) l.
Proof.
  intros A p q l. induction l as [|x l IH]; simpl; [reflexivity|].
  destruct (p x); simpl; rewrite IH; reflexivity.
Qed.

(* read atomically = every verifier read at the same moment *)
Lemma expected_at_const : forall k t ms p,
  expected_at k (fun _ => ms) p t = expected k (filter p ms) t.
Proof.
  intros k. induction t as [v vt fs sn| |cs IH|f tb eb IHt IHe] using ktree_ind'; intros ms p.
  - destruct vt; simpl; rewrite ?filter_filter_and, ?existsb_filter_and; reflexivity.
  - reflexivity.
  - simpl. apply flat_map_ext_Forall. eapply Forall_impl; [|exact IH]. intros c Hc. apply Hc.
  - simpl. rewrite IHt, IHe, !filter_filter_and. reflexivity.
Qed.

Lemma filter_true : forall {A} (l : list A), filter (fun _ => true) l = l.
Proof. induction l as [|x l IH]; simpl; [|rewrite IH]; reflexivity. Qed.

Lemma expected_at_cnt_mono : forall k t h h' p,
  (forall v m, In m (h v) -> In m (h' v)) ->
  forall v n, In (v, Some n) (expected_at k h p t) -> In (v, Some n) (expected_at k h' p t).
Proof.
  intros k. induction t as [v0 vt fs sn| |cs IH|f tb eb IHt IHe] using ktree_ind';
    intros h h' p Hi v n H.
  - assert (Hc : In (v, Some n) (map (fun m => (v0, Some (mid m))) (filter (fun m => p m && counts m v0) (h v0))) ->
                 In (v, Some n) (map (fun m => (v0, Some (mid m))) (filter (fun m => p m && counts m v0) (h' v0)))).
    { intros Hl. apply in_map_iff in Hl. destruct Hl as [m [E Hm]].
      apply in_map_iff. exists m. split; auto. eapply filter_incl; [|exact Hm]. apply Hi. }
    destruct vt; simpl in *; try (apply Hc; exact H).
    destruct (existsb _ (h v0)); simpl in H; [contradiction|].
    destruct H as [H|[]]; inversion H.
  - contradiction.
  - simpl in *. apply in_flat_map in H. destruct H as [c [Hc Hf]].
    apply in_flat_map. exists c. split; auto.
    rewrite Forall_forall in IH. eapply IH; eauto.
  - destruct k; simpl in *; apply in_app_iff in H; apply in_app_iff;
      (destruct H as [H|H]; [left|right]);
      (eapply IHt + eapply IHe); try exact H; exact Hi.
Qed.

Lemma expected_at_pb_anti : forall k t h h' p,
  (forall v m, In m (h v) -> In m (h' v)) ->
  forall v, In (v, None) (expected_at k h' p t) -> In (v, None) (expected_at k h p t).
Proof.
  intros k. induction t as [v0 vt fs sn| |cs IH|f tb eb IHt IHe] using ktree_ind';
    intros h h' p Hi v H.
  - assert (Hc : forall l, ~ In (v, @None nat) (map (fun m => (v0, Some (mid m))) l)).
    { intros l Hl. apply in_map_iff in Hl. destruct Hl as [m [E _]]. inversion E. }
    destruct vt; simpl in *; try (exfalso; eapply Hc; exact H).
    destruct (existsb (fun m => p m && counts m v0) (h' v0)) eqn:E'; simpl in H; [contradiction|].
    destruct (existsb (fun m => p m && counts m v0) (h v0)) eqn:E; simpl; auto.
    apply existsb_exists in E. destruct E as [m [Hm Hcm]].
    assert (existsb (fun m => p m && counts m v0) (h' v0) = true)
      by (apply existsb_exists; exists m; auto).
    congruence.
  - contradiction.
  - simpl in *. apply in_flat_map in H. destruct H as [c [Hc Hf]].
    apply in_flat_map. exists c. split; auto.
    rewrite Forall_forall in IH. eapply IH; eauto.
  - destruct k; simpl in *; apply in_app_iff in H; apply in_app_iff;
      (destruct H as [H|H]; [left|right]);
      (eapply IHt + eapply IHe); try exact H; exact Hi.
Qed.

Theorem sandwich_nonatomic : forall k t pre all hist,
  (forall v m, In m pre -> In m (hist v)) -> (forall v m, In m (hist v) -> In m all) ->
  (forall f, In f (expected k pre t) -> is_cnt f = true ->
             In f (expected_at k hist (fun _ => true) t))
  /\ (forall f, In f (expected_at k hist (fun _ => true) t) ->
        if is_cnt f then In f (expected k all t) else In f (expected k pre t)).
Proof.
  intros k t pre all hist H1 H2.
  assert (Epre : expected k pre t = expected_at k (fun _ => pre) (fun _ => true) t)
    by (rewrite expected_at_const, filter_true; reflexivity).
  assert (Eall : expected k all t = expected_at k (fun _ => all) (fun _ => true) t)
    by (rewrite expected_at_const, filter_true; reflexivity).
  rewrite Epre, Eall. split.
  - intros f Hf Hc. destruct (failure_cases f) as [[v [n [E _]]]|[v [E Hn]]]; subst.
    + eapply expected_at_cnt_mono; [|exact Hf]. intros v0 m. apply H1.
    + simpl in Hc. discriminate.
  - intros f Hf. destruct (failure_cases f) as [[v [n [E Hc]]]|[v [E Hn]]]; subst; simpl.
    + eapply expected_at_cnt_mono; [|exact Hf]. intros v0 m. apply H2.
    + eapply expected_at_pb_anti; [|exact Hf]. intros v0 m. apply H1.
Qed.

(* ------------------------------------------------------------------ *)
(* None duplicated                                                      *)
(* ------------------------------------------------------------------ *)

Lemma nodup_app_intro : forall {A} (a b : list A),
  NoDup a -> NoDup b -> (forall x, In x a -> In x b -> False) -> NoDup (a ++ b).
Proof.
  intros A a b Ha. induction Ha as [|x a Hx Ha IH]; intros Hb Hd; simpl; [assumption|].
  constructor.
  - intros Hin. apply in_app_iff in Hin. destruct Hin as [Hin|Hin]; [contradiction|].
    eapply Hd; [left; reflexivity|exact Hin].
  - apply IH; auto. intros y Hy. apply Hd. right. exact Hy.
Qed.

Lemma nodup_app_inv : forall {A} (a b : list A),
  NoDup (a ++ b) -> NoDup a /\ NoDup b /\ (forall x, In x a -> In x b -> False).
Proof.
  intros A a. induction a as [|x a IH]; intros b H; simpl in *.
  - repeat split; auto. constructor.
  - inversion H as [|? ? Hx Hr]; subst. destruct (IH b Hr) as [Ha [Hb Hd]].
    repeat split; auto.
    + constructor; auto. intros Hin. apply Hx. apply in_app_iff. left. exact Hin.
    + intros y [Hy|Hy] Hyb; [subst; apply Hx; apply in_app_iff; right; exact Hyb|eauto].
Qed.

Lemma nodup_map_inj : forall {A B} (f : A -> B) l,
  (forall x y, f x = f y -> x = y) -> NoDup l -> NoDup (map f l).
Proof.
  intros A B f l Hf H. induction H as [|x l Hx Hl IH]; simpl; constructor; auto.
  intros Hin. apply in_map_iff in Hin. destruct Hin as [y [E Hy]]. apply Hf in E. subst. contradiction.
Qed.

Lemma nodup_mid_filter : forall (p : msg -> bool) ms,
  NoDup (map mid ms) -> NoDup (map mid (filter p ms)).
Proof.
  intros p ms. induction ms as [|m ms IH]; intros H; simpl in *; [constructor|].
  inversion H as [|? ? Hx Hr]; subst.
  destruct (p m); simpl; auto. constructor; auto.
  intros Hin. apply Hx. apply in_map_iff in Hin. destruct Hin as [y [E Hy]].
  apply filter_In in Hy. apply in_map_iff. exists y. tauto.
Qed.

Lemma in_expected_vid : forall k t ms f, In f (expected k ms t) -> In (fst f) (leaf_ids t).
Proof.
  intros k. induction t as [v0 vt fs sn| |cs IH|f0 tb eb IHt IHe] using ktree_ind'; intros ms f H.
  - assert (Hc : forall l, In f (map (fun m => (v0, Some (mid m))) l) -> In (fst f) [v0]).
    { intros l Hl. apply in_map_iff in Hl. destruct Hl as [m [E _]]. subst. left. reflexivity. }
    destruct vt; simpl in H; try (eapply Hc; exact H).
    destruct (existsb _ ms); simpl in H; [contradiction|].
    destruct H as [H|[]]. subst. left. reflexivity.
  - contradiction.
  - simpl in *. apply in_flat_map in H. destruct H as [c [Hc Hf]].
    apply in_flat_map. exists c. split; auto. rewrite Forall_forall in IH. eapply IH; eauto.
  - destruct k; simpl in *; apply in_app_iff in H; apply in_app_iff; destruct H as [H|H]; eauto.
Qed.

Theorem expected_nodup : forall k t ms,
  NoDup (map mid ms) -> NoDup (leaf_ids t) -> NoDup (expected k ms t).
Proof.
  intros k. induction t as [v0 vt fs sn| |cs IH|f0 tb eb IHt IHe] using ktree_ind'; intros ms Hm Hl.
  - assert (Hc : NoDup (map (fun m => (v0, Some (mid m))) (filter (fun m => counts m v0) ms))).
    { rewrite <- (map_map mid (fun n => (v0, Some n))). apply nodup_map_inj.
      - intros x y E. inversion E. reflexivity.
      - apply nodup_mid_filter. exact Hm. }
    destruct vt; simpl; try exact Hc.
    destruct (existsb _ ms); repeat constructor. intros [].
  - constructor.
  - simpl in *. induction IH as [|c r Hc _ IHr]; simpl in *; [constructor|].
    apply nodup_app_inv in Hl. destruct Hl as [H1 [H2 Hd]].
    apply nodup_app_intro; auto.
    intros x Hx1 Hx2. apply in_expected_vid in Hx1.
    apply in_flat_map in Hx2. destruct Hx2 as [c' [Hc' Hx2]]. apply in_expected_vid in Hx2.
    eapply Hd; [exact Hx1|]. apply in_flat_map. exists c'. auto.
  - simpl in Hl. apply nodup_app_inv in Hl. destruct Hl as [H1 [H2 Hd]].
    assert (Nt : NoDup (expected k (filter (fun m => mcond m f0) ms) tb))
      by (apply IHt; auto using nodup_mid_filter).
    assert (Ne : NoDup (expected k (filter (fun m => negb (mcond m f0)) ms) eb))
      by (apply IHe; auto using nodup_mid_filter).
    destruct k; simpl; apply nodup_app_intro; auto; intros x Hx1 Hx2;
      apply in_expected_vid in Hx1; apply in_expected_vid in Hx2; eauto.
Qed.

Lemma expected_at_atomic : forall k t ms,
  expected_at k (fun _ => ms) (fun _ => true) t = expected k ms t.
Proof. intros. rewrite expected_at_const, filter_true. reflexivity. Qed.

(* a refused handler call changes nothing and answers nothing *)
Theorem refused_calls_change_nothing : forall vr h s, run vr s (drop_refused h) = run vr s h.
Proof.
  intros vr. induction h as [|l r IH]; intros s; [reflexivity|].
  unfold drop_refused in *. simpl filter.
  destruct (not_refused l) eqn:E.
  - rewrite !run_cons, !IH. reflexivity.
  - destruct l; simpl in E; try discriminate.
    rewrite (run_cons vr s Refused r). simpl. rewrite IH.
    destruct (run vr s r); reflexivity.
Qed.

Lemma refused_spec_run : forall h tq0 ts0 aq as_,
  spec_run tq0 ts0 aq as_ (drop_refused h) = spec_run tq0 ts0 aq as_ h.
Proof.
  induction h as [|l r IH]; intros tq0 ts0 aq as_; [reflexivity|].
  unfold drop_refused in *. simpl filter.
  destruct l as [[] m|[]|[]| | | |c0]; simpl; rewrite ?IH; reflexivity.
Qed.

Theorem refused_spec : forall c h, spec_outputs c (drop_refused h) = spec_outputs c h.
Proof. intros. apply refused_spec_run. Qed.
