(* C13 — schedules: the searches the driver runs are exactly the existentials,
   and every execution of the model under the assumed atomicity is accepted. *)
From Coq Require Import List Bool Arith Permutation.
From Martian.C13 Require Import Model Proofs.
Import ListNotations.

(* ------------------------------------------------------------------ *)
(* Interleavings, independently of the search                           *)
(* ------------------------------------------------------------------ *)

Inductive Merge {A} : list A -> list A -> list A -> Prop :=
| Merge_nil_l : forall l, Merge [] l l
| Merge_nil_r : forall l, Merge l [] l
| Merge_l : forall x a b c, Merge a b c -> Merge (x :: a) b (x :: c)
| Merge_r : forall y a b c, Merge a b c -> Merge a (y :: b) (y :: c).

Lemma merge_nil_l_inv : forall {A} (b c : list A), Merge [] b c -> c = b.
Proof.
  intros A b c H. remember [] as a eqn:Ea. induction H; subst; try reflexivity; try discriminate.
  f_equal. apply IHMerge. reflexivity.
Qed.

Lemma merge_nil_r_inv : forall {A} (a c : list A), Merge a [] c -> c = a.
Proof.
  intros A a c H. remember [] as b eqn:Eb. induction H; subst; try reflexivity; try discriminate.
  f_equal. apply IHMerge. reflexivity.
Qed.

Lemma all_merges_cons_cons : forall {A} (x : A) a y b,
  all_merges (x :: a) (y :: b) =
  map (cons x) (all_merges a (y :: b)) ++ map (cons y) (all_merges (x :: a) b).
Proof. reflexivity. Qed.

Lemma all_merges_nil_r : forall {A} (a : list A), all_merges a [] = [a].
Proof. destruct a; reflexivity. Qed.

Lemma all_merges_sound : forall {A} (a b c : list A), In c (all_merges a b) -> Merge a b c.
Proof.
  intros A. induction a as [|x a IHa]; intros b c H.
  - simpl in H. destruct H as [H|[]]. subst. constructor.
  - induction b as [|y b IHb] in c, H |- *.
    + rewrite all_merges_nil_r in H. destruct H as [H|[]]. subst. constructor.
    + rewrite all_merges_cons_cons in H. apply in_app_iff in H. destruct H as [H|H];
        apply in_map_iff in H; destruct H as [c' [E H]]; subst.
      * apply Merge_l. apply IHa. exact H.
      * apply Merge_r. apply IHb. exact H.
Qed.

Lemma all_merges_complete : forall {A} (a b c : list A), Merge a b c -> In c (all_merges a b).
Proof.
  intros A a b c H. induction H as [l|l|x a b c H IH|y a b c H IH].
  - simpl. left. reflexivity.
  - rewrite all_merges_nil_r. left. reflexivity.
  - destruct b as [|y b].
    + rewrite all_merges_nil_r. left. apply merge_nil_r_inv in H. subst. reflexivity.
    + rewrite all_merges_cons_cons. apply in_app_iff. left. apply in_map. exact IH.
  - destruct a as [|x a].
    + simpl. left. apply merge_nil_l_inv in H. subst. reflexivity.
    + rewrite all_merges_cons_cons. apply in_app_iff. right. apply in_map. exact IH.
Qed.

Theorem all_merges_spec : forall {A} (a b c : list A), In c (all_merges a b) <-> Merge a b c.
Proof. split; [apply all_merges_sound|apply all_merges_complete]. Qed.

(* the search is exactly the existential *)
Theorem c13_serial_ok_iff : forall c pre t1 t2 post observed,
  c13_serial_ok c pre t1 t2 post observed = true <->
  exists mid, Merge t1 t2 mid /\ observed = spec_outputs c (pre ++ mid ++ post).
Proof.
  intros. unfold c13_serial_ok. rewrite existsb_exists. split.
  - intros [mid [Hin Hok]]. exists mid. split; [apply all_merges_spec; exact Hin|].
    apply c13_ok_iff. exact Hok.
  - intros [mid [Hm Ho]]. exists mid. split; [apply all_merges_spec; exact Hm|].
    apply c13_ok_iff. exact Ho.
Qed.

(* Every execution of the state machine in which the two goroutines'
   operations are atomic steps (= a run over some interleaving) is accepted. *)
Theorem serial_impl_accepted : forall c pre t1 t2 post mid,
  Merge t1 t2 mid ->
  c13_serial_ok c pre t1 t2 post (model_outputs repaired c (pre ++ mid ++ post)) = true.
Proof.
  intros c pre t1 t2 post mid H. apply c13_serial_ok_iff. exists mid. split; auto.
  apply query_exact.
Qed.

(* ------------------------------------------------------------------ *)
(* Exact answer, same-set answer                                        *)
(* ------------------------------------------------------------------ *)

Theorem c13_answer_ok_iff : forall want obs, c13_answer_ok want obs = true <-> obs = want.
Proof. intros. unfold c13_answer_ok. apply list_eqb_eq. apply failure_eqb_eq. Qed.

Theorem c13_same_set_ok_iff : forall want obs,
  c13_same_set_ok want obs = true <->
  (forall f, In f want -> In f obs) /\ (forall f, In f obs -> In f want) /\ NoDup obs.
Proof.
  intros want obs. unfold c13_same_set_ok.
  rewrite !andb_true_iff, !forallb_forall, nodupb_NoDup. split.
  - intros [[H1 H2] H3]. repeat split; auto; intros f Hf; apply fmem_In; auto.
  - intros [H1 [H2 H3]]. repeat split; auto; intros f Hf; apply fmem_In; auto.
Qed.

Corollary c13_same_set_ok_perm : forall want obs,
  NoDup want -> c13_same_set_ok want obs = true -> Permutation want obs.
Proof.
  intros want obs Hw H. apply c13_same_set_ok_iff in H. destruct H as [H1 [H2 H3]].
  apply NoDup_Permutation; auto. intros f. split; auto.
Qed.

(* ------------------------------------------------------------------ *)
(* Facts about [expected_at] (and, as the atomic case, [expected])      *)
(* ------------------------------------------------------------------ *)

Lemma in_expected_at_vid : forall k t hist p f,
  In f (expected_at k hist p t) -> In (fst f) (leaf_ids t).
Proof.
  intros k. induction t as [v0 vt fs sn| |cs IH|f0 tb eb IHt IHe] using ktree_ind'; intros hist p f H.
  - assert (Hc : forall l, In f (map (fun m => (v0, Some (mid m))) l) -> In (fst f) [v0]).
    { intros l Hl. apply in_map_iff in Hl. destruct Hl as [m [E _]]. subst. left. reflexivity. }
    destruct vt; simpl in H; try (eapply Hc; exact H).
    destruct (existsb _ (hist v0)); simpl in H; [contradiction|].
    destruct H as [H|[]]. subst. left. reflexivity.
  - contradiction.
  - simpl in *. apply in_flat_map in H. destruct H as [c [Hc Hf]].
    apply in_flat_map. exists c. split; auto. rewrite Forall_forall in IH. eapply IH; eauto.
  - destruct k; simpl in *; apply in_app_iff in H; apply in_app_iff; destruct H as [H|H]; eauto.
Qed.

Lemma expected_at_mid_in : forall k t hist p v n,
  In (v, Some n) (expected_at k hist p t) -> In n (map mid (hist v)).
Proof.
  intros k. induction t as [v0 vt fs sn| |cs IH|f0 tb eb IHt IHe] using ktree_ind'; intros hist p v n H.
  - assert (Hc : In (v, Some n) (map (fun m => (v0, Some (mid m))) (filter (fun m => p m && counts m v0) (hist v0))) ->
                 In n (map mid (hist v))).
    { intros Hl. apply in_map_iff in Hl. destruct Hl as [m [E Hm]]. inversion E; subst.
      apply filter_In in Hm. apply in_map. tauto. }
    destruct vt; simpl in H; try (apply Hc; exact H).
    destruct (existsb _ (hist v0)); simpl in H; [contradiction|].
    destruct H as [H|[]]. inversion H.
  - contradiction.
  - simpl in H. apply in_flat_map in H. destruct H as [c [Hc Hf]].
    rewrite Forall_forall in IH. eapply IH; eauto.
  - destruct k; simpl in H; apply in_app_iff in H; destruct H as [H|H]; eauto.
Qed.

Lemma expected_at_no_none : forall k t hist p v,
  no_pb t = true -> ~ In (v, None) (expected_at k hist p t).
Proof.
  intros k. induction t as [v0 vt fs sn| |cs IH|f0 tb eb IHt IHe] using ktree_ind'; intros hist p v Hn H.
  - assert (Hc : forall l, ~ In (v, @None nat) (map (fun m => (v0, Some (mid m))) l)).
    { intros l Hl. apply in_map_iff in Hl. destruct Hl as [m [E _]]. inversion E. }
    destruct vt; simpl in Hn, H; try discriminate; eapply Hc; exact H.
  - contradiction.
  - simpl in Hn, H. apply in_flat_map in H. destruct H as [c [Hc Hf]].
    rewrite forallb_forall in Hn. rewrite Forall_forall in IH. eapply (IH c Hc); eauto.
  - simpl in Hn. apply andb_true_iff in Hn. destruct Hn as [H1 H2].
    destruct k; simpl in H; apply in_app_iff in H; destruct H as [H|H];
      solve [eapply IHt; eauto | eapply IHe; eauto].
Qed.

Theorem expected_at_nodup : forall k t hist p,
  (forall v, NoDup (map mid (hist v))) -> NoDup (leaf_ids t) -> NoDup (expected_at k hist p t).
Proof.
  intros k. induction t as [v0 vt fs sn| |cs IH|f0 tb eb IHt IHe] using ktree_ind'; intros hist p Hm Hl.
  - assert (Hc : NoDup (map (fun m => (v0, Some (mid m))) (filter (fun m => p m && counts m v0) (hist v0)))).
    { rewrite <- (map_map mid (fun n => (v0, Some n))). apply nodup_map_inj.
      - intros x y E. inversion E. reflexivity.
      - apply nodup_mid_filter. apply Hm. }
    destruct vt; simpl; try exact Hc.
    destruct (existsb _ (hist v0)); repeat constructor. intros [].
  - constructor.
  - simpl in *. induction IH as [|c r Hc _ IHr]; simpl in *; [constructor|].
    apply nodup_app_inv in Hl. destruct Hl as [H1 [H2 Hd]].
    apply nodup_app_intro; auto.
    intros x Hx1 Hx2. apply in_expected_at_vid in Hx1.
    apply in_flat_map in Hx2. destruct Hx2 as [c' [Hc' Hx2]]. apply in_expected_at_vid in Hx2.
    eapply Hd; [exact Hx1|]. apply in_flat_map. exists c'. auto.
  - simpl in Hl. apply nodup_app_inv in Hl. destruct Hl as [H1 [H2 Hd]].
    assert (Nt : NoDup (expected_at k hist (fun m => p m && mcond m f0) tb)) by (apply IHt; auto).
    assert (Ne : NoDup (expected_at k hist (fun m => p m && negb (mcond m f0)) eb)) by (apply IHe; auto).
    destruct k; simpl; apply nodup_app_intro; auto; intros x Hx1 Hx2;
      apply in_expected_at_vid in Hx1; apply in_expected_at_vid in Hx2; eauto.
Qed.

(* compiled response structures hold no pingback verifier *)
Lemma compile_res_no_pb : forall c t, compile Res c = Some t -> no_pb t = true.
Proof.
  induction c as [v vt sq ss|sq ss|sq ss cs IH|f sq ss tb IHt|f sq ss tb e IHt IHe]
    using cfg_ind'; intros t H; simpl in H.
  - destruct vt; simpl in H; rewrite ?andb_false_r in H; try discriminate;
      destruct ss; simpl in H; inversion H; reflexivity.
  - destruct ss; inversion H; reflexivity.
  - destruct ss; simpl in H; inversion H; subst; clear H. simpl.
    induction IH as [|c r Hc _ IHr]; simpl; [reflexivity|].
    destruct (compile Res c) as [t|] eqn:E; simpl; auto.
    rewrite (Hc t eq_refl). simpl. exact IHr.
  - destruct ss; simpl in H; inversion H; subst; clear H. simpl.
    destruct (compile Res tb) as [t1|] eqn:E1; simpl; [rewrite (IHt t1 eq_refl)|]; reflexivity.
  - destruct ss; simpl in H; inversion H; subst; clear H. simpl.
    destruct (compile Res tb) as [t1|] eqn:E1; simpl; [rewrite (IHt t1 eq_refl)|];
      (destruct (compile Res e) as [t2|] eqn:E2; simpl; [rewrite (IHe t2 eq_refl)|]; reflexivity).
Qed.

Lemma root_res_no_pb : forall c, no_pb (root Res c) = true.
Proof.
  intros c. unfold root. destruct (compile Res c) as [t|] eqn:E; simpl; [|reflexivity].
  eapply compile_res_no_pb; eauto.
Qed.

(* ------------------------------------------------------------------ *)
(* Every non-atomic, both-kinds query of the model is accepted          *)
(* ------------------------------------------------------------------ *)

(* what verify.Handler returns when verifier [v] is read at the moment it has
   seen [hq v] requests / [hs v] responses *)
Definition answer_at (c : cfg) (hq hs : nat -> list msg) : list failure :=
  expected_at Req hq (fun _ => true) (root Req c) ++ expected_at Res hs (fun _ => true) (root Res c).

Lemma expected_both_at : forall c mq ms,
  expected_both c mq ms = answer_at c (fun _ => mq) (fun _ => ms).
Proof.
  intros. unfold expected_both, answer_at. rewrite !expected_at_atomic. reflexivity.
Qed.

Theorem answer_at_nodup : forall c hq hs,
  (forall v, NoDup (map mid (hq v))) -> (forall v, NoDup (map mid (hs v))) ->
  (forall v v' n, In n (map mid (hq v)) -> In n (map mid (hs v')) -> False) ->
  NoDup (leaf_ids (root Req c)) -> NoDup (leaf_ids (root Res c)) ->
  NoDup (answer_at c hq hs).
Proof.
  intros c hq hs Nq Ns Hd Lq Ls. unfold answer_at. apply nodup_app_intro.
  - apply expected_at_nodup; auto.
  - apply expected_at_nodup; auto.
  - intros [v [n|]] H1 H2.
    + apply expected_at_mid_in in H1. apply expected_at_mid_in in H2. eapply Hd; eauto.
    + eapply expected_at_no_none; [apply root_res_no_pb|exact H2].
Qed.

Theorem conc_impl_accepted : forall c preq pres allq alls hq hs,
  (forall v m, In m preq -> In m (hq v)) -> (forall v m, In m (hq v) -> In m allq) ->
  (forall v m, In m pres -> In m (hs v)) -> (forall v m, In m (hs v) -> In m alls) ->
  (forall v, NoDup (map mid (hq v))) -> (forall v, NoDup (map mid (hs v))) ->
  (forall v v' n, In n (map mid (hq v)) -> In n (map mid (hs v')) -> False) ->
  NoDup (leaf_ids (root Req c)) -> NoDup (leaf_ids (root Res c)) ->
  c13_conc_ok (expected_both c preq pres) (expected_both c allq alls) (answer_at c hq hs) = true.
Proof.
  intros c preq pres allq alls hq hs Q1 Q2 S1 S2 Nq Ns Hd Lq Ls.
  apply c13_conc_ok_iff. unfold conc_prop.
  destruct (sandwich_nonatomic Req (root Req c) preq allq hq Q1 Q2) as [A1 A2].
  destruct (sandwich_nonatomic Res (root Res c) pres alls hs S1 S2) as [B1 B2].
  unfold expected_both, answer_at. split; [|split].
  - intros f Hf Hc. apply in_app_iff in Hf. apply in_app_iff. destruct Hf; [left|right]; auto.
  - intros f Hf. apply in_app_iff in Hf. destruct Hf as [Hf|Hf].
    + specialize (A2 f Hf). destruct (is_cnt f); apply in_app_iff; left; exact A2.
    + specialize (B2 f Hf). destruct (is_cnt f); apply in_app_iff; right; exact B2.
  - apply answer_at_nodup; auto.
Qed.

(* ------------------------------------------------------------------ *)
(* After the join: the answer is the specified one in some order        *)
(* ------------------------------------------------------------------ *)

Lemma expected_same_members : forall k t ms ms',
  (forall m, In m ms <-> In m ms') ->
  forall f, In f (expected k ms t) <-> In f (expected k ms' t).
Proof.
  intros k t ms ms' H f. destruct f as [v [n|]]; split; intros Hf.
  - eapply expected_cnt_mono; [|exact Hf]. intros m; apply H.
  - eapply expected_cnt_mono; [|exact Hf]. intros m; apply H.
  - eapply expected_pb_anti; [|exact Hf]. intros m; apply H.
  - eapply expected_pb_anti; [|exact Hf]. intros m; apply H.
Qed.

(* [mq'], [ms'] = the order in which the schedule let the messages through *)
Theorem final_impl_accepted : forall c mq ms mq' ms',
  Permutation mq mq' -> Permutation ms ms' ->
  NoDup (map mid mq) -> NoDup (map mid ms) ->
  (forall n, In n (map mid mq) -> In n (map mid ms) -> False) ->
  NoDup (leaf_ids (root Req c)) -> NoDup (leaf_ids (root Res c)) ->
  c13_same_set_ok (expected_both c mq ms) (expected_both c mq' ms') = true.
Proof.
  intros c mq ms mq' ms' Pq Ps Nq Ns Hd Lq Ls. apply c13_same_set_ok_iff.
  assert (Eq : forall m, In m mq <-> In m mq')
    by (intros m; split; [apply Permutation_in; exact Pq|apply Permutation_in; apply Permutation_sym; exact Pq]).
  assert (Es : forall m, In m ms <-> In m ms')
    by (intros m; split; [apply Permutation_in; exact Ps|apply Permutation_in; apply Permutation_sym; exact Ps]).
  split; [|split].
  - intros f Hf. unfold expected_both in *. apply in_app_iff in Hf. apply in_app_iff.
    destruct Hf as [Hf|Hf]; [left; apply (expected_same_members Req _ _ _ Eq)|right; apply (expected_same_members Res _ _ _ Es)]; exact Hf.
  - intros f Hf. unfold expected_both in *. apply in_app_iff in Hf. apply in_app_iff.
    destruct Hf as [Hf|Hf]; [left; apply (expected_same_members Req _ _ _ Eq)|right; apply (expected_same_members Res _ _ _ Es)]; exact Hf.
  - rewrite expected_both_at. apply answer_at_nodup; auto.
    + intros _. eapply Permutation_NoDup; [apply Permutation_map; exact Pq|exact Nq].
    + intros _. eapply Permutation_NoDup; [apply Permutation_map; exact Ps|exact Ns].
    + intros _ _ n H1 H2. apply (Hd n).
      * eapply Permutation_in; [apply Permutation_sym; apply Permutation_map; exact Pq|exact H1].
      * eapply Permutation_in; [apply Permutation_sym; apply Permutation_map; exact Ps|exact H2].
Qed.

(* ------------------------------------------------------------------ *)
(* None lost: an independent characterisation of the specification      *)
(* ------------------------------------------------------------------ *)

(* message [m] is evaluated by counting verifier [v] of structure [t] *)
Inductive reaches (m : msg) (v : nat) : ktree -> Prop :=
| R_leaf : forall vt fs sn, vt <> VPingback -> reaches m v (KLeaf v vt fs sn)
| R_fifo : forall cs c, In c cs -> reaches m v c -> reaches m v (KFifo cs)
| R_true : forall f tb eb, mcond m f = true -> reaches m v tb -> reaches m v (KFilt f tb eb)
| R_else : forall f tb eb, mcond m f = false -> reaches m v eb -> reaches m v (KFilt f tb eb).

Theorem expected_In_iff : forall k t ms v n,
  In (v, Some n) (expected k ms t) <->
  exists m, In m ms /\ mid m = n /\ mapi m = false /\ mhit m v = true /\ reaches m v t.
Proof.
  intros k. induction t as [v0 vt fs sn| |cs IH|f0 tb eb IHt IHe] using ktree_ind'; intros ms v n.
  - assert (Hc : In (v, Some n) (map (fun m => (v0, Some (mid m))) (filter (fun m => counts m v0) ms)) <->
                 exists m, In m ms /\ mid m = n /\ mapi m = false /\ mhit m v = true /\ v = v0).
    { rewrite in_map_iff. split.
      - intros [m [E Hm]]. inversion E; subst. apply filter_In in Hm. destruct Hm as [Hin Hcnt].
        unfold counts in Hcnt. apply andb_true_iff in Hcnt. destruct Hcnt as [H1 H2].
        apply negb_true_iff in H1. exists m. auto.
      - intros [m [Hin [Hn [Ha [Hh Hv]]]]]. subst. exists m. split; auto.
        apply filter_In. split; auto. unfold counts. rewrite Ha, Hh. reflexivity. }
    destruct vt; simpl;
      try (rewrite Hc; split;
           [intros [m [H1 [H2 [H3 [H4 H5]]]]]; subst; exists m; repeat split; auto; constructor; discriminate
           |intros [m [H1 [H2 [H3 [H4 H5]]]]]; inversion H5; subst; exists m; auto]).
    split.
    + intros H. destruct (existsb _ ms); simpl in H; [contradiction|]. destruct H as [H|[]]. inversion H.
    + intros [m [_ [_ [_ [_ H5]]]]]. inversion H5. congruence.
  - simpl. split; [contradiction|]. intros [m [_ [_ [_ [_ H]]]]]. inversion H.
  - simpl. rewrite in_flat_map. rewrite Forall_forall in IH. split.
    + intros [c [Hc Hf]]. apply (IH c Hc) in Hf. destruct Hf as [m [H1 [H2 [H3 [H4 H5]]]]].
      exists m. repeat split; auto. eapply R_fifo; eauto.
    + intros [m [H1 [H2 [H3 [H4 H5]]]]]. inversion H5; subst.
      exists c. split; auto. apply (IH c H0). exists m. auto.
  - assert (Ht : In (v, Some n) (expected k (filter (fun m => mcond m f0) ms) tb) <->
                 exists m, In m ms /\ mid m = n /\ mapi m = false /\ mhit m v = true /\ mcond m f0 = true /\ reaches m v tb).
    { rewrite IHt. split.
      - intros [m [H1 H2]]. apply filter_In in H1. exists m. tauto.
      - intros [m [H1 [H2 [H3 [H4 [H5 H6]]]]]]. exists m. repeat split; auto. apply filter_In. auto. }
    assert (He : In (v, Some n) (expected k (filter (fun m => negb (mcond m f0)) ms) eb) <->
                 exists m, In m ms /\ mid m = n /\ mapi m = false /\ mhit m v = true /\ mcond m f0 = false /\ reaches m v eb).
    { rewrite IHe. split.
      - intros [m [H1 H2]]. apply filter_In in H1. destruct H1 as [H1 Hc]. apply negb_true_iff in Hc.
        exists m. tauto.
      - intros [m [H1 [H2 [H3 [H4 [H5 H6]]]]]]. exists m. repeat split; auto. apply filter_In.
        split; auto. rewrite H5. reflexivity. }
    assert (Hor : (In (v, Some n) (expected k (filter (fun m => mcond m f0) ms) tb) \/
                   In (v, Some n) (expected k (filter (fun m => negb (mcond m f0)) ms) eb)) <->
                  exists m, In m ms /\ mid m = n /\ mapi m = false /\ mhit m v = true /\ reaches m v (KFilt f0 tb eb)).
    { rewrite Ht, He. split.
      - intros [[m [H1 [H2 [H3 [H4 [H5 H6]]]]]]|[m [H1 [H2 [H3 [H4 [H5 H6]]]]]]]; exists m; repeat split; auto.
        + apply R_true; auto.
        + apply R_else; auto.
      - intros [m [H1 [H2 [H3 [H4 H5]]]]]. inversion H5; subst; [left|right]; exists m; repeat split; auto. }
    destruct k; simpl; rewrite in_app_iff; rewrite <- Hor; tauto.
Qed.

(* ------------------------------------------------------------------ *)
(* What must not change                                                 *)
(* ------------------------------------------------------------------ *)

Lemma get_set_same : forall k s t, get k (set k s t) = t.
Proof. intros [] [] t; reflexivity. Qed.

Lemma get_set_other : forall k k' s t, k <> k' -> get k' (set k s t) = get k' s.
Proof. intros [] [] [] t H; try reflexivity; congruence. Qed.

Theorem query_changes_nothing : forall vr s,
  fst (step vr s Query) = s /\ forall k, fst (step vr s (QueryK k)) = s.
Proof. intros. split; reflexivity. Qed.

Theorem step_touches_only_its_kind : forall vr s k k' m,
  k <> k' ->
  get k' (fst (step vr s (Traffic k m))) = get k' s /\
  get k' (fst (step vr s (ResetK k))) = get k' s.
Proof. intros vr s k k' m H. simpl. split; apply get_set_other; exact H. Qed.

(* ------------------------------------------------------------------ *)
(* Load: exactly as many errors as failing messages                     *)
(* ------------------------------------------------------------------ *)

Lemma spec_run_traffic_req : forall ms tq0 ts0 aq as_,
  spec_run tq0 ts0 aq as_ (map (Traffic Req) ms ++ [Query]) =
  [expected Req (aq ++ ms) tq0 ++ expected Res as_ ts0].
Proof.
  induction ms as [|m ms IH]; intros; simpl.
  - rewrite app_nil_r. reflexivity.
  - rewrite IH, <- app_assoc. reflexivity.
Qed.

Lemma spec_run_traffic_res : forall ms tq0 ts0 aq as_,
  spec_run tq0 ts0 aq as_ (map (Traffic Res) ms ++ [Query]) =
  [expected Req aq tq0 ++ expected Res (as_ ++ ms) ts0].
Proof.
  induction ms as [|m ms IH]; intros; simpl.
  - rewrite app_nil_r. reflexivity.
  - rewrite IH, <- app_assoc. reflexivity.
Qed.

(* the load answer is the specified answer of the history "n times m, then query" *)
Theorem load_answer_is_spec : forall c k m n,
  spec_outputs c (map (Traffic k) (repeat m n) ++ [Query]) = [load_answer c k m n].
Proof.
  intros c [] m n; unfold spec_outputs, load_answer, expected_both.
  - rewrite spec_run_traffic_req. reflexivity.
  - rewrite spec_run_traffic_res. reflexivity.
Qed.

Theorem c13_load_ok_iff : forall c k m n cnt,
  c13_load_ok c k m n cnt = true <-> cnt = length (load_answer c k m n).
Proof. intros. unfold c13_load_ok. apply Nat.eqb_eq. Qed.

(* whatever the order in which the goroutines' messages went through: the
   history is n copies of the same label, so every schedule is this history *)
Theorem load_impl_accepted : forall c k m n,
  c13_load_ok c k m n
    (length (hd [] (model_outputs repaired c (map (Traffic k) (repeat m n) ++ [Query])))) = true.
Proof.
  intros. apply c13_load_ok_iff. rewrite query_exact, load_answer_is_spec. reflexivity.
Qed.
