(* C05 — proofs: what every request read inside a MITM'd tunnel looks like,
   for every listener kind, every request list and every target form. *)
From Coq Require Import List Bool Arith Lia.
From Martian.C05 Require Import Model.
Import ListNotations.

(* ---------------- deciders ---------------- *)

Lemma scheme_eqb_eq a b : scheme_eqb a b = true <-> a = b.
Proof. destruct a, b; cbn; split; congruence. Qed.
Lemma host_eqb_eq a b : host_eqb a b = true <-> a = b.
Proof. destruct a, b; cbn; split; congruence. Qed.
Lemma up_eqb_eq a b : up_eqb a b = true <-> a = b.
Proof. destruct a, b; cbn; split; congruence. Qed.
Lemma kind_eqb_eq a b : kind_eqb a b = true <-> a = b.
Proof. destruct a, b; cbn; split; congruence. Qed.
Lemma onat_eqb_eq a b : onat_eqb a b = true <-> a = b.
Proof.
  destruct a, b; cbn; try (split; congruence).
  rewrite Nat.eqb_eq. split; congruence.
Qed.
Lemma obool_eqb_eq a b : obool_eqb a b = true <-> a = b.
Proof.
  destruct a as [[]|], b as [[]|]; cbn; split; congruence.
Qed.

(* ---------------- the clauses as statements ---------------- *)

(* One request read from a decrypted connection ([ctls] = true) resp. from a
   tunnel that did not begin with a TLS handshake ([ctls] = false). *)
Definition entry_good (ctls : bool) (q : inner) (f : rfields) : Prop :=
  f_sess f = 0 /\
  if ctls then
    f_scheme f = Https /\ f_host f = want_host (i_form q) /\ f_secure f = true /\ f_tls f = true /\
    (if i_hijack q
     then (exists k, f_hk f = Some k /\ is_tls k = true) /\ f_marker f = Some true
     else f_up f = UpTls /\ f_status f = Some 200)
  else
    f_scheme f = Http /\ f_secure f = false /\ f_tls f = false /\
    (if i_hijack q
     then (exists k, f_hk f = Some k /\ is_tls k = false) /\ f_marker f = Some true
     else f_up f = UpPlain \/ f_host f = HEmpty).

Lemma hijack_ok_iff ctls f :
  hijack_ok ctls f = true <-> (exists k, f_hk f = Some k /\ is_tls k = ctls) /\ f_marker f = Some true.
Proof.
  unfold hijack_ok. rewrite andb_true_iff, obool_eqb_eq.
  destruct (f_hk f) as [k|].
  - rewrite eqb_true_iff. split.
    + intros [H1 H2]. split; [exists k; auto|auto].
    + intros [[k' [E H1]] H2]. inversion E; subst. auto.
  - split; [intros [H _]; discriminate H|intros [[k [E _]] _]; discriminate E].
Qed.

Lemma entry_fail_iff ctls q f : entry_fail ctls q f = None <-> entry_good ctls q f.
Proof.
  unfold entry_fail, entry_good.
  destruct (Nat.eqb (f_sess f) 0) eqn:Es; cbn [negb];
    [apply Nat.eqb_eq in Es|apply Nat.eqb_neq in Es; split; [discriminate|intros [H _]; contradiction]].
  destruct ctls.
  - destruct (scheme_eqb (f_scheme f) Https) eqn:E1; cbn [negb];
      [apply scheme_eqb_eq in E1|split; [discriminate|intros [_ [H _]]; apply scheme_eqb_eq in H; congruence]].
    destruct (host_eqb (f_host f) (want_host (i_form q))) eqn:E2; cbn [negb];
      [apply host_eqb_eq in E2|split; [discriminate|intros [_ [_ [H _]]]; apply host_eqb_eq in H; congruence]].
    destruct (f_secure f) eqn:E3; cbn [negb]; [|split; [discriminate|intros [_ [_ [_ [H _]]]]; discriminate H]].
    destruct (f_tls f) eqn:E4; cbn [negb]; [|split; [discriminate|intros [_ [_ [_ [_ [H _]]]]]; discriminate H]].
    destruct (i_hijack q).
    + destruct (hijack_ok true f) eqn:E5.
      * apply hijack_ok_iff in E5. split; auto 10.
      * split; [discriminate|]. intros [_ [_ [_ [_ [_ H]]]]]. apply hijack_ok_iff in H. congruence.
    + destruct (up_eqb (f_up f) UpTls) eqn:E5; cbn [negb];
        [apply up_eqb_eq in E5|split; [discriminate|intros [_ [_ [_ [_ [_ [H _]]]]]]; apply up_eqb_eq in H; congruence]].
      destruct (onat_eqb (f_status f) (Some 200)) eqn:E6; cbn [negb].
      * apply onat_eqb_eq in E6. split; auto 10.
      * split; [discriminate|]. intros [_ [_ [_ [_ [_ [_ H]]]]]]. apply onat_eqb_eq in H. congruence.
  - destruct (scheme_eqb (f_scheme f) Http) eqn:E1; cbn [negb orb];
      [apply scheme_eqb_eq in E1|split; [discriminate|intros [_ [H _]]; apply scheme_eqb_eq in H; congruence]].
    destruct (f_secure f) eqn:E3; cbn [orb]; [split; [discriminate|intros [_ [_ [H _]]]; discriminate H]|].
    destruct (f_tls f) eqn:E4; [split; [discriminate|intros [_ [_ [_ [H _]]]]; discriminate H]|].
    destruct (i_hijack q).
    + destruct (hijack_ok false f) eqn:E5.
      * apply hijack_ok_iff in E5. split; auto 10.
      * split; [discriminate|]. intros [_ [_ [_ [_ H]]]]. apply hijack_ok_iff in H. congruence.
    + destruct (up_eqb (f_up f) UpPlain) eqn:E5; cbn [negb andb].
      * apply up_eqb_eq in E5. split; auto 10.
      * destruct (host_eqb (f_host f) HEmpty) eqn:E6; cbn [negb].
        -- apply host_eqb_eq in E6. split; auto 10.
        -- split; [discriminate|]. intros [_ [_ [_ [_ [H|H]]]]].
           ++ apply up_eqb_eq in H. congruence.
           ++ apply host_eqb_eq in H. congruence.
Qed.

(* requests and observations walked in step: every request is presented
   until one stops the connection (hijack / HTTP/1.0), none afterwards *)
Fixpoint inner_good (ctls : bool) (i : nat) (stopped : bool) (reqs : list inner) (os : list obs) : Prop :=
  match reqs, os with
  | [], [] => True
  | q :: rest, Seen j f :: os' =>
      stopped = false /\ j = i /\ entry_good ctls q f /\ inner_good ctls (S i) (stops q) rest os'
  | q :: rest, Unseen j :: os' =>
      j = i /\ stopped = true /\ inner_good ctls (S i) true rest os'
  | _, _ => False
  end.

Lemma inner_fail_iff ctls : forall reqs os i stopped,
  inner_fail ctls i stopped reqs os = None <-> inner_good ctls i stopped reqs os.
Proof.
  induction reqs as [|q rest IH]; intros os i stopped; destruct os as [|o os]; cbn [inner_fail inner_good].
  1: tauto.
  1, 2: split; [discriminate|tauto].
  destruct o as [j f|j].
  - destruct stopped; cbn [orb]; [split; [discriminate|intros [H _]; discriminate H]|].
    destruct (Nat.eqb j i) eqn:Ej; cbn [negb];
      [apply Nat.eqb_eq in Ej|apply Nat.eqb_neq in Ej; split; [discriminate|intros [_ [H _]]; contradiction]].
    rewrite <- IH, <- entry_fail_iff.
    destruct (entry_fail ctls q f); split; try tauto; try discriminate.
  - destruct (Nat.eqb j i) eqn:Ej; cbn [negb];
      [apply Nat.eqb_eq in Ej|apply Nat.eqb_neq in Ej; split; [discriminate|intros [H _]; contradiction]].
    destruct stopped.
    + rewrite IH. tauto.
    + split; [discriminate|intros [_ [H _]]; discriminate H].
Qed.

Definition connect_good (f : rfields) : Prop := f_sess f = 0 /\ f_status f = Some 200.

Lemma connect_fail_iff f : connect_fail f = None <-> connect_good f.
Proof.
  unfold connect_fail, connect_good.
  destruct (Nat.eqb (f_sess f) 0) eqn:Es; cbn [negb];
    [apply Nat.eqb_eq in Es|apply Nat.eqb_neq in Es; split; [discriminate|intros [H _]; contradiction]].
  destruct (onat_eqb (f_status f) (Some 200)) eqn:E; cbn [negb].
  - apply onat_eqb_eq in E. tauto.
  - split; [discriminate|]. intros [_ H]. apply onat_eqb_eq in H. congruence.
Qed.

(* The property as a statement about what was observed of one connection. *)
Definition C05_good (l : listener) (t : tunnel) (reqs : list inner) (os : list obs) : Prop :=
  match l, t with
  | LTls, NoTunnel | LShapedTls, NoTunnel => inner_good true 1 false reqs os
  | LTls, _ | LShapedTls, _ | _, NoTunnel => True
  | _, _ =>
      match os with
      | Seen 0 f0 :: os' =>
          connect_good f0 /\ inner_good (match t with TunTls => true | _ => false end) 1 false reqs os'
      | _ => False
      end
  end.

Theorem c05_ok_iff l t reqs os : c05_ok l t reqs os = true <-> C05_good l t reqs os.
Proof.
  unfold c05_ok, c05_fail, C05_good.
  destruct l, t; try (split; [tauto|reflexivity]);
    try (rewrite <- inner_fail_iff;
         destruct (inner_fail true 1 false reqs os); split; congruence).
  all: destruct os as [|[[|j] f0|j] os']; try (split; [discriminate|tauto]);
    rewrite <- inner_fail_iff, <- connect_fail_iff;
    destruct (connect_fail f0); [split; [discriminate|intros [H _]; discriminate H]|];
    match goal with |- context [inner_fail ?a ?b ?c ?d ?e] => destruct (inner_fail a b c d e) end;
    split; try tauto; try discriminate; intros [_ H]; discriminate H.
Qed.

(* ---------------- the repaired model satisfies it ---------------- *)

Definition has_host (q : inner) : bool := match i_form q with FNoHost => false | _ => true end.

Lemma unseen_good ctls : forall reqs i, inner_good ctls i true reqs (unseen i reqs).
Proof. induction reqs as [|q rest IH]; intros i; cbn; auto. Qed.

Lemma loop_tls_good : forall reqs st i c0,
  is_tls (sconn st) = true -> forallb has_host reqs = true ->
  inner_good true i false reqs (loop true c0 true st i reqs).
Proof.
  induction reqs as [|q rest IH]; intros st i c0 Hk Hh; [exact I|].
  cbn [forallb] in Hh. apply andb_true_iff in Hh. destruct Hh as [Hq Hr].
  destruct st as [sec k]. cbn in Hk.
  destruct q as [fm hj mu]. unfold has_host in Hq. cbn in Hq.
  destruct k; try discriminate Hk; destruct fm; try discriminate Hq; destruct hj, mu;
    cbn; repeat split; try (eexists; split; reflexivity); try apply unseen_good;
    apply IH; auto.
Qed.

(* guard for cleartext tunnels: no modifier marks the session secure itself *)
Definition no_msecure (q : inner) : bool := match i_mut q with MSecure => false | _ => true end.

Lemma loop_plain_good : forall reqs st i c0 fx,
  secure st = false -> sconn st = c0 -> is_tls c0 = false ->
  forallb no_msecure reqs = true ->
  inner_good false i false reqs (loop fx c0 false st i reqs).
Proof.
  induction reqs as [|q rest IH]; intros st i c0 fx Hs Hk Hc Hm; [exact I|].
  cbn [forallb] in Hm. apply andb_true_iff in Hm. destruct Hm as [Hmq Hmr].
  destruct st as [sec k]. cbn in Hs, Hk. subst sec k.
  destruct q as [fm hj mu]. unfold no_msecure in Hmq. cbn in Hmq.
  destruct c0; try discriminate Hc; destruct mu; try discriminate Hmq; destruct fx, fm, hj;
    cbn; repeat split; try (eexists; split; reflexivity); try apply unseen_good;
    try (apply IH; auto); auto;
    cbn; try (left; reflexivity); try (right; reflexivity);
    repeat split; try (eexists; split; reflexivity).
Qed.

Definition valid (l : listener) (t : tunnel) : bool :=
  match l, t with
  | LTls, NoTunnel | LShapedTls, NoTunnel => true
  | LTls, _ | LShapedTls, _ | _, NoTunnel => false
  | _, _ => true
  end.

(* guards: every request names a host (Host header or absolute target); no
   modifier calls MarkSecure itself (only matters inside a cleartext tunnel) *)
Theorem fixed_good l t reqs :
  forallb has_host reqs = true -> forallb no_msecure reqs = true ->
  C05_good l t reqs (run true l t reqs).
Proof.
  intros Hh Hm. unfold C05_good, run.
  destruct l, t; try exact I.
  - (* LPlain, TunTls *)
    cbn. destruct reqs as [|q rest]; [cbn; repeat split|].
    cbn [forallb] in Hh. apply andb_true_iff in Hh. destruct Hh as [Hq Hr].
    destruct q as [fm hj mu]. unfold has_host in Hq. cbn in Hq.
    destruct fm; try discriminate Hq; destruct hj, mu; cbn; repeat split;
      try (eexists; split; reflexivity); try apply unseen_good;
      apply loop_tls_good; auto.
  - (* LPlain, TunPlain *)
    cbn. repeat split. apply loop_plain_good; auto.
  - (* LShaped, TunTls *)
    cbn. destruct reqs as [|q rest]; [cbn; repeat split|].
    cbn [forallb] in Hh. apply andb_true_iff in Hh. destruct Hh as [Hq Hr].
    destruct q as [fm hj mu]. unfold has_host in Hq. cbn in Hq.
    destruct fm; try discriminate Hq; destruct hj, mu; cbn; repeat split;
      try (eexists; split; reflexivity); try apply unseen_good;
      apply loop_tls_good; auto.
  - (* LShaped, TunPlain *)
    cbn. repeat split. apply loop_plain_good; auto.
  - (* LTls, NoTunnel *)
    apply loop_tls_good; auto.
  - (* LShapedTls, NoTunnel *)
    apply loop_tls_good; auto.
Qed.

(* ---------------- per-clause statements over [run true] ---------------- *)

(* What every request seen on a decrypted connection looks like. *)
Definition tls_fields (f : rfields) : Prop :=
  f_scheme f = Https /\ f_secure f = true /\ f_tls f = true /\ f_sess f = 0 /\
  (f_hk f = None -> f_host f <> HEmpty -> f_up f = UpTls /\ f_status f = Some 200) /\
  (forall k, f_hk f = Some k -> is_tls k = true /\ f_marker f = Some true).

Lemma handle_one_tls k st q :
  is_tls k = true -> is_tls (sconn st) = true ->
  let '(st', f) := handle_one k true st q in
  sconn st' = sconn st /\ tls_fields f /\ f_host f = form_host (i_form q)
  /\ (i_hijack q = true <-> f_hk f <> None).
Proof.
  intros Hk Hs. destruct st as [sec sc]. cbn in Hs.
  destruct q as [fm hj mu].
  destruct k; try discriminate Hk; destruct sc; try discriminate Hs; destruct fm, hj, mu; cbn;
    unfold tls_fields; cbn; repeat split; try congruence; try discriminate;
    try (intros ? E; inversion E; subst; reflexivity);
    try (intros ? E; inversion E; reflexivity).
Qed.

Lemma unseen_no_seen : forall rest n j f, ~ In (Seen j f) (unseen n rest).
Proof.
  induction rest as [|x r IH]; intros n j f Hin; [destruct Hin|].
  destruct Hin as [E|Hin]; [discriminate E|eapply IH; eauto].
Qed.

Lemma loop_tls_fields : forall reqs st i c0 j f,
  is_tls (sconn st) = true ->
  In (Seen j f) (loop true c0 true st i reqs) ->
  tls_fields f /\ i <= j /\ exists q, nth_error reqs (j - i) = Some q /\ f_host f = form_host (i_form q)
                                  /\ (i_hijack q = true <-> f_hk f <> None).
Proof.
  induction reqs as [|q rest IH]; intros st i c0 j f Hk Hin; [destruct Hin|].
  cbn [loop] in Hin.
  pose proof (handle_one_tls (sconn st) st q Hk Hk) as H1.
  destruct (handle_one (sconn st) true st q) as [st' f1].
  destruct H1 as [Hk' [Hf [Hh Hj]]].
  destruct Hin as [E|Hin].
  - inversion E; subst. split; [exact Hf|]. split; [lia|]. exists q. rewrite Nat.sub_diag. auto.
  - destruct (stops q).
    + exfalso. eapply unseen_no_seen; eauto.
    + rewrite <- Hk' in Hk. destruct (IH st' (S i) c0 j f Hk Hin) as [Hf2 [Hle [q' [Hn Hq']]]].
      split; [exact Hf2|]. split; [lia|]. exists q'. split; [|exact Hq'].
      replace (j - i) with (S (j - S i)) by lia. exact Hn.
Qed.

(* All requests inside a TLS tunnel behind a plain or shaped listener, and
   all requests on a transparent TLS listener. *)
Definition decrypted (l : listener) (t : tunnel) : bool :=
  match l, t with
  | LPlain, TunTls | LShaped, TunTls | LTls, NoTunnel | LShapedTls, NoTunnel => true
  | _, _ => false
  end.

Lemma tunnel_fields nconn c0 q rest j f st3 f1 :
  is_tls nconn = true ->
  handle_one nconn true (mkSess false nconn) q = (st3, f1) ->
  In (Seen j f) (Seen 1 f1 :: (if stops q then unseen 2 rest else loop true c0 true st3 2 rest)) ->
  tls_fields f /\ exists q', nth_error (q :: rest) (j - 1) = Some q' /\ f_host f = form_host (i_form q')
                           /\ (i_hijack q' = true <-> f_hk f <> None).
Proof.
  intros Hn Hh Hin.
  pose proof (handle_one_tls nconn (mkSess false nconn) q Hn Hn) as H1.
  rewrite Hh in H1. destruct H1 as [Hk' [Hf [Hhost Hq]]].
  destruct Hin as [E|Hin].
  - inversion E; subst. split; [exact Hf|]. exists q. cbn. auto.
  - destruct (stops q); [exfalso; eapply unseen_no_seen; eauto|].
    cbn in Hk'. assert (Hk2 : is_tls (sconn st3) = true) by (rewrite Hk'; exact Hn).
    destruct (loop_tls_fields rest st3 2 c0 j f Hk2 Hin) as [Hf2 [Hle [q' [Hnth Hq']]]].
    split; [exact Hf2|]. exists q'. split; [|exact Hq'].
    replace (j - 1) with (S (j - 2)) by lia. exact Hnth.
Qed.

Theorem decrypted_requests : forall l t reqs j f,
  decrypted l t = true -> 1 <= j -> In (Seen j f) (run true l t reqs) ->
  tls_fields f /\ exists q, nth_error reqs (j - 1) = Some q /\ f_host f = form_host (i_form q)
                          /\ (i_hijack q = true <-> f_hk f <> None).
Proof.
  intros l t reqs j f Hd Hj Hin.
  destruct l, t; try discriminate Hd; unfold run in Hin; cbn [accepted handle_connect is_tls secure sconn upgrade] in Hin.
  - destruct reqs as [|q rest].
    + destruct Hin as [E|[]]. inversion E; subst. lia.
    + destruct (handle_one Tls true (mkSess false Tls) q) as [st3 f1] eqn:Hh.
      destruct Hin as [E|Hin]; [inversion E; subst; lia|].
      eapply tunnel_fields; eauto; reflexivity.
  - destruct reqs as [|q rest].
    + destruct Hin as [E|[]]. inversion E; subst. lia.
    + destruct (handle_one ShapedTls true (mkSess false ShapedTls) q) as [st3 f1] eqn:Hh.
      destruct Hin as [E|Hin]; [inversion E; subst; lia|].
      eapply tunnel_fields; eauto; reflexivity.
  - destruct (loop_tls_fields reqs (mkSess false Tls) 1 Tls j f eq_refl Hin) as [Hf [_ Hq]].
    split; assumption.
  - destruct (loop_tls_fields reqs (mkSess false ShapedTls) 1 ShapedTls j f eq_refl Hin) as [Hf [_ Hq]].
    split; assumption.
Qed.

(* ---------------- plain HTTP inside the tunnel ---------------- *)

Definition plain_fields (f : rfields) : Prop :=
  f_scheme f = Http /\ f_secure f = false /\ f_tls f = false /\ f_sess f = 0 /\
  (f_hk f = None -> f_host f <> HEmpty -> f_up f = UpPlain /\ f_status f = Some 200) /\
  (forall k, f_hk f = Some k -> is_tls k = false /\ f_marker f = Some true).

Lemma loop_plain_fields : forall reqs st i c0 fx j f,
  secure st = false -> sconn st = c0 -> is_tls c0 = false ->
  forallb no_msecure reqs = true ->
  In (Seen j f) (loop fx c0 false st i reqs) -> plain_fields f.
Proof.
  induction reqs as [|q rest IH]; intros st i c0 fx j f Hs Hk Hc Hm Hin; [destruct Hin|].
  cbn [forallb] in Hm. apply andb_true_iff in Hm. destruct Hm as [Hmq Hmr].
  destruct st as [sec k]. cbn in Hs, Hk. subst sec k.
  cbn [loop] in Hin.
  assert (Hck : (if fx then sconn (mkSess false c0) else c0) = c0) by (destruct fx; reflexivity).
  rewrite Hck in Hin.
  destruct q as [fm hj mu]. unfold no_msecure in Hmq. cbn in Hmq.
  assert (H1 : let '(st', f1) := handle_one c0 false (mkSess false c0) (mkInner fm hj mu) in
               st' = mkSess false c0 /\ plain_fields f1).
  { destruct c0; try discriminate Hc; destruct mu; try discriminate Hmq; destruct fm, hj; cbn; unfold plain_fields; cbn;
      repeat split; try congruence; try discriminate;
      try (intros ? E; inversion E; subst; reflexivity);
      try (intros ? E; inversion E; reflexivity). }
  destruct (handle_one c0 false (mkSess false c0) (mkInner fm hj mu)) as [st' f1].
  destruct H1 as [-> Hf].
  destruct Hin as [E|Hin]; [inversion E; subst; exact Hf|].
  destruct (stops (mkInner fm hj mu)); [exfalso; eapply unseen_no_seen; eauto|].
  exact (IH (mkSess false c0) (S i) c0 fx j f eq_refl eq_refl Hc Hmr Hin).
Qed.

Theorem plain_tunnel_requests : forall fx l reqs j f,
  forallb no_msecure reqs = true ->
  1 <= j -> In (Seen j f) (run fx l TunPlain reqs) -> plain_fields f.
Proof.
  intros fx l reqs j f Hm Hj Hin.
  destruct l; [| |destruct Hin|destruct Hin]; unfold run in Hin; cbn [accepted handle_connect is_tls secure sconn] in Hin.
  - destruct Hin as [E|Hin]; [inversion E; subst; lia|].
    exact (loop_plain_fields reqs (mkSess false Raw) 1 Raw fx j f eq_refl eq_refl eq_refl Hm Hin).
  - destruct Hin as [E|Hin]; [inversion E; subst; lia|].
    exact (loop_plain_fields reqs (mkSess false ShapedRaw) 1 ShapedRaw fx j f eq_refl eq_refl eq_refl Hm Hin).
Qed.

(* ---------------- one session ---------------- *)

Lemma handle_one_sess ck ctls st q : f_sess (snd (handle_one ck ctls st q)) = 0.
Proof.
  unfold handle_one. destruct (i_hijack q); [reflexivity|].
  destruct (form_host (i_form q)); reflexivity.
Qed.

Lemma loop_sess : forall reqs fx c0 ctls st i j f,
  In (Seen j f) (loop fx c0 ctls st i reqs) -> f_sess f = 0.
Proof.
  induction reqs as [|q rest IH]; intros fx c0 ctls st i j f Hin; [destruct Hin|].
  cbn [loop] in Hin.
  pose proof (handle_one_sess (if fx then sconn st else c0) ctls st q) as Hs.
  destruct (handle_one (if fx then sconn st else c0) ctls st q) as [st' f1]. cbn in Hs.
  destruct Hin as [E|Hin]; [inversion E; subst; exact Hs|].
  destruct (stops q); [exfalso; eapply unseen_no_seen; eauto|eapply IH; eauto].
Qed.

Theorem one_session : forall fx l t reqs j f,
  In (Seen j f) (run fx l t reqs) -> f_sess f = 0.
Proof.
  intros fx l t reqs j f Hin. unfold run in Hin.
  destruct l, t; try (destruct Hin; fail);
    cbn [accepted handle_connect is_tls secure sconn upgrade] in Hin;
    try (eapply loop_sess; eauto; fail);
    try (destruct Hin as [E|Hin]; [inversion E; reflexivity|eapply loop_sess; eauto]; fail).
  all: destruct reqs as [|q rest]; [destruct Hin as [E|[]]; inversion E; reflexivity|].
  all: match type of Hin with context [handle_one ?a ?b ?c ?d] =>
         pose proof (handle_one_sess a b c d) as Hs; destruct (handle_one a b c d) as [st3 f1] end.
  all: cbn in Hs.
  all: destruct Hin as [E|[E|Hin]]; [inversion E; reflexivity|inversion E; subst; exact Hs|].
  all: destruct (stops q); [exfalso; eapply unseen_no_seen; eauto|eapply loop_sess; eauto].
Qed.

(* ---------------- witnesses ---------------- *)

Definition w_nohost : list inner := [mkInner FNoHost false MNone].
Definition w_second : list inner := [mkInner FOrigin false MNone; mkInner FOrigin false MNone].
Definition w_hijack : list inner := [mkInner FOrigin true MNone].

Lemma host_default_fails :
  c05_fail LPlain TunTls w_nohost (run true LPlain TunTls w_nohost) = Some CHost.
Proof. vm_compute. reflexivity. Qed.

Lemma asis_tls_state_fails :
  c05_fail LPlain TunTls w_second (run false LPlain TunTls w_second) = Some CTlsState.
Proof. vm_compute. reflexivity. Qed.

Lemma asis_hijack_fails :
  c05_fail LPlain TunTls w_hijack (run false LPlain TunTls w_hijack) = Some CHijack.
Proof. vm_compute. reflexivity. Qed.

Lemma not_good_of_fail l t reqs os c : c05_fail l t reqs os = Some c -> ~ C05_good l t reqs os.
Proof.
  intros H G. apply c05_ok_iff in G. unfold c05_ok in G. rewrite H in G. discriminate G.
Qed.

Lemma host_default_refuted : ~ C05_good LPlain TunTls w_nohost (run true LPlain TunTls w_nohost).
Proof. exact (not_good_of_fail _ _ _ _ _ host_default_fails). Qed.
Lemma asis_tls_state_refuted : ~ C05_good LPlain TunTls w_second (run false LPlain TunTls w_second).
Proof. exact (not_good_of_fail _ _ _ _ _ asis_tls_state_fails). Qed.
Lemma asis_hijack_refuted : ~ C05_good LPlain TunTls w_hijack (run false LPlain TunTls w_hijack).
Proof. exact (not_good_of_fail _ _ _ _ _ asis_hijack_fails). Qed.

(* projections used by Properties.v *)
Section Decrypted.
  Variables (l : listener) (t : tunnel) (reqs : list inner) (j : nat) (f : rfields).
  Hypothesis Hd : decrypted l t = true.
  Hypothesis Hj : 1 <= j.
  Hypothesis Hin : In (Seen j f) (run true l t reqs).

  Lemma d_scheme : f_scheme f = Https.
  Proof. destruct (decrypted_requests l t reqs j f Hd Hj Hin) as [[H _] _]. exact H. Qed.
  Lemma d_secure : f_secure f = true.
  Proof. destruct (decrypted_requests l t reqs j f Hd Hj Hin) as [[_ [H _]] _]. exact H. Qed.
  Lemma d_tls : f_tls f = true.
  Proof. destruct (decrypted_requests l t reqs j f Hd Hj Hin) as [[_ [_ [H _]]] _]. exact H. Qed.
  Lemma d_upstream : f_hk f = None -> f_host f <> HEmpty -> f_up f = UpTls /\ f_status f = Some 200.
  Proof. destruct (decrypted_requests l t reqs j f Hd Hj Hin) as [[_ [_ [_ [_ [H _]]]]] _]. exact H. Qed.
  Lemma d_hijack : forall k, f_hk f = Some k -> is_tls k = true /\ f_marker f = Some true.
  Proof. destruct (decrypted_requests l t reqs j f Hd Hj Hin) as [[_ [_ [_ [_ [_ H]]]]] _]. exact H. Qed.
  Lemma d_host : exists q, nth_error reqs (j - 1) = Some q /\
                           (i_form q <> FNoHost -> f_host f = want_host (i_form q)).
  Proof.
    destruct (decrypted_requests l t reqs j f Hd Hj Hin) as [_ [q [Hn [Hh _]]]].
    exists q. split; [exact Hn|]. intros Hf. rewrite Hh. destruct (i_form q); try reflexivity. congruence.
  Qed.
End Decrypted.

(* ---------------- a PROPFAIL names a clause that does fail ---------------- *)

(* what clause [c] says of one request read from a decrypted connection
   ([ctls] = true) resp. from a cleartext tunnel *)
Definition entry_clause_prop (c : clause) (ctls : bool) (q : inner) (f : rfields) : Prop :=
  match c with
  | COneSession => f_sess f = 0
  | CScheme => ctls = true -> f_scheme f = Https
  | CHost => ctls = true -> f_host f = want_host (i_form q)
  | CSecure => ctls = true -> f_secure f = true
  | CTlsState => ctls = true -> f_tls f = true
  | CHijack => i_hijack q = true ->
               (exists k, f_hk f = Some k /\ is_tls k = ctls) /\ f_marker f = Some true
  | CUpstream => ctls = true -> i_hijack q = false -> f_up f = UpTls
  | CResponse => ctls = true -> i_hijack q = false -> f_status f = Some 200
  | CPlainInsecure => ctls = false ->
               f_scheme f = Http /\ f_secure f = false /\ f_tls f = false /\
               (i_hijack q = false -> f_up f = UpPlain \/ f_host f = HEmpty)
  | CPresented | CShape => True     (* decided over the whole connection *)
  end.

Theorem entry_fail_names_failing_clause ctls q f c :
  entry_fail ctls q f = Some c -> ~ entry_clause_prop c ctls q f.
Proof.
  unfold entry_fail.
  destruct (Nat.eqb (f_sess f) 0) eqn:Es; cbn [negb];
    [|intros E; inversion E; subst; cbn; apply Nat.eqb_neq in Es; exact Es].
  destruct ctls.
  - destruct (scheme_eqb (f_scheme f) Https) eqn:E1; cbn [negb];
      [|intros E; inversion E; subst; cbn; intros H; apply scheme_eqb_eq in H; [congruence|reflexivity]].
    destruct (host_eqb (f_host f) (want_host (i_form q))) eqn:E2; cbn [negb];
      [|intros E; inversion E; subst; cbn; intros H; apply host_eqb_eq in H; [congruence|reflexivity]].
    destruct (f_secure f) eqn:E3; cbn [negb];
      [|intros E; inversion E; subst; cbn; intros H; specialize (H eq_refl); congruence].
    destruct (f_tls f) eqn:E4; cbn [negb];
      [|intros E; inversion E; subst; cbn; intros H; specialize (H eq_refl); congruence].
    destruct (i_hijack q) eqn:E5.
    + destruct (hijack_ok true f) eqn:E6; [discriminate|].
      intros E; inversion E; subst; cbn. intros H. specialize (H E5). apply hijack_ok_iff in H. congruence.
    + destruct (up_eqb (f_up f) UpTls) eqn:E6; cbn [negb];
        [|intros E; inversion E; subst; cbn; intros H; specialize (H eq_refl E5); apply up_eqb_eq in H; congruence].
      destruct (onat_eqb (f_status f) (Some 200)) eqn:E7; cbn [negb]; [discriminate|].
      intros E; inversion E; subst; cbn. intros H. specialize (H eq_refl E5). apply onat_eqb_eq in H. congruence.
  - destruct (negb (scheme_eqb (f_scheme f) Http) || f_secure f || f_tls f) eqn:E1.
    + intros E; inversion E; subst; cbn. intros H. destruct (H eq_refl) as [Ha [Hb [Hc _]]].
      rewrite Hb, Hc in E1. apply scheme_eqb_eq in Ha. rewrite Ha in E1. discriminate E1.
    + destruct (i_hijack q) eqn:E5.
      * destruct (hijack_ok false f) eqn:E6; [discriminate|].
        intros E; inversion E; subst; cbn. intros H. specialize (H E5). apply hijack_ok_iff in H. congruence.
      * destruct (negb (up_eqb (f_up f) UpPlain) && negb (host_eqb (f_host f) HEmpty)) eqn:E6; [|discriminate].
        intros E; inversion E; subst; cbn. intros H. destruct (H eq_refl) as [_ [_ [_ Hd]]].
        apply andb_true_iff in E6. destruct E6 as [Ea Eb].
        apply negb_true_iff in Ea, Eb.
        destruct (Hd E5) as [Hu|Hh].
        -- apply up_eqb_eq in Hu. congruence.
        -- apply host_eqb_eq in Hh. congruence.
Qed.
