From Coq Require Import ExtrOcamlBasic ExtrOcamlString.
From Martian.Common Require Import ExtractBase.
From Martian.C05 Require Import Model.
Extraction Language OCaml.
Extraction "model.ml" base_anchor run agrees c05_fail c05_ok entry_fail.
