(* C05 — MITM never downgrades and treats every tunnelled request as secure.

   Definitions only.  The model follows, for one client connection, which
   net.Conn value proxy.go passes to each call of handle (handleLoop 256-264,
   the MITM branch 308-370) and what handle derives from it (461-487):
   the *tls.Conn type switches, Session.MarkSecure, req.TLS, the forced
   scheme, the host default, and what Session.Hijack hands out.

   [run true]  = the repaired code (fixes/C05-1: the MITM branch calls
                 session.setConn and handleLoop passes the session's
                 current connection);
   [run false] = the pinned commit (handleLoop always passes the accepted
                 connection, setConn is never called). *)

From Coq Require Import List Bool Arith.
Import ListNotations.

(* ---------------- inputs ---------------- *)

Inductive listener := LPlain | LShaped | LTls | LShapedTls.
  (* plain TCP, trafficshape.Listener, tls.NewListener, trafficshape.Listener over tls.NewListener *)
Inductive tunnel := TunTls | TunPlain | NoTunnel.     (* what follows the CONNECT 200; NoTunnel = transparent TLS *)
Inductive form := FOrigin | FAbsHttp | FAbsHttps | FNoHost.
(* what the request modifier does to the session through its public API
   while handling this request (after having looked at it): nothing,
   Session.MarkInsecure(), Session.MarkSecure(), Session.Set/Get *)
Inductive mutator := MNone | MInsecure | MSecure | MValues.
Record inner := mkInner { i_form : form; i_hijack : bool; i_mut : mutator }.

(* ---------------- observations ---------------- *)

Inductive conn_kind := Raw | Tls | ShapedRaw | ShapedTls.
Inductive scheme := Http | Https.
Inductive host := HAuth | HHeader | HUrl | HEmpty | HOther.
Inductive upstream := UpTls | UpPlain | UpNone | UpBoth.

Record rfields := mkF
  { f_scheme : scheme;            (* req.URL.Scheme seen by the request modifier *)
    f_host : host;                (* req.URL.Host *)
    f_secure : bool;              (* Session().IsSecure() *)
    f_tls : bool;                 (* req.TLS is the state of the connection the request was read from:
                                     non-nil, handshake complete, and version, cipher suite and server
                                     name equal to what the client side of that connection negotiated *)
    f_sess : nat;                 (* session, first-occurrence index *)
    f_up : upstream;              (* which origin received the request *)
    f_status : option nat;        (* status the client read on its current connection *)
    f_hk : option conn_kind;      (* what Session.Hijack returned *)
    f_marker : option bool }.     (* the hijacker's marker arrived on the client's current connection *)

Inductive obs := Seen (i : nat) (f : rfields) | Unseen (i : nat).

(* ---------------- implementation model ---------------- *)

Definition is_tls (k : conn_kind) : bool :=
  match k with Tls | ShapedTls => true | Raw | ShapedRaw => false end.

(* 355-361: tls.Server(...), wrapped again for a traffic shaped connection *)
Definition upgrade (k : conn_kind) : conn_kind :=
  match k with ShapedRaw | ShapedTls => ShapedTls | Raw | Tls => Tls end.

Record sess := mkSess { secure : bool; sconn : conn_kind }.

Definition form_host (f : form) : host :=
  match f with
  | FOrigin => HHeader            (* 485-487: URL.Host = req.Host *)
  | FAbsHttp | FAbsHttps => HUrl
  | FNoHost => HEmpty             (* req.Host is empty too *)
  end.

(* the request closes the connection: hijack, or HTTP/1.0 without keep-alive *)
Definition stops (q : inner) : bool :=
  i_hijack q || match i_form q with FNoHost => true | _ => false end.

(* handle 442-585 for a non-CONNECT request read while [ck] is the conn
   argument.  [ctls] = the client speaks TLS on this connection (decides
   whether bytes written to the hijacked conn reach it intact). *)
Definition apply_mut (m : mutator) (st : sess) : sess :=
  match m with
  | MInsecure => mkSess false (sconn st)
  | MSecure => mkSess true (sconn st)
  | MNone | MValues => st
  end.

Definition handle_one (ck : conn_kind) (ctls : bool) (st : sess) (q : inner) : sess * rfields :=
  let am := apply_mut (i_mut q) in
  let tlsc := is_tls ck in                                       (* 461-476: ConnectionState() is taken
                                                                    AFTER readRequest returned, so the
                                                                    handshake (lazy on a transparent TLS
                                                                    listener) is complete: the state is
                                                                    the connection's negotiated one *)
  let st1 := if tlsc then mkSess true (sconn st) else st in      (* MarkSecure *)
  let sch := if secure st1 then Https else Http in               (* 478-482 *)
  let h := form_host (i_form q) in
  if i_hijack q
  then (am st1, mkF sch h (secure st1) tlsc 0 UpNone None (Some (sconn st1))
                 (Some (Bool.eqb (is_tls (sconn st1)) ctls)))
  else
    match h with
    | HEmpty => (am st1, mkF sch h (secure st1) tlsc 0 UpNone (Some 502) None None)   (* transport: no host *)
    | _ => (am st1, mkF sch h (secure st1) tlsc 0
                     (match sch with Https => UpTls | Http => UpPlain end) (Some 200) None None)
    end.

(* the CONNECT request itself, read from the accepted connection *)
Definition handle_connect (ck : conn_kind) (st : sess) : sess * rfields :=
  let tlsc := is_tls ck in
  let st1 := if tlsc then mkSess true (sconn st) else st in
  (st1, mkF (if secure st1 then Https else Http) HAuth (secure st1) tlsc 0 UpNone (Some 200) None None).

Fixpoint unseen (i : nat) (reqs : list inner) : list obs :=
  match reqs with [] => [] | _ :: rest => Unseen i :: unseen (S i) rest end.

(* handleLoop: one handle per request, with the conn it passes *)
Fixpoint loop (fx : bool) (c0 : conn_kind) (ctls : bool) (st : sess) (i : nat) (reqs : list inner) : list obs :=
  match reqs with
  | [] => []
  | q :: rest =>
      let ck := if fx then sconn st else c0 in                   (* 260 *)
      let '(st', f) := handle_one ck ctls st q in
      Seen i f :: if stops q then unseen (S i) rest else loop fx c0 ctls st' (S i) rest
  end.

Definition accepted (l : listener) : conn_kind :=
  match l with LPlain => Raw | LShaped => ShapedRaw | LTls => Tls | LShapedTls => ShapedTls end.

Definition run (fx : bool) (l : listener) (t : tunnel) (reqs : list inner) : list obs :=
  let c0 := accepted l in
  let st0 := mkSess false c0 in
  match l, t with
  | LTls, NoTunnel | LShapedTls, NoTunnel => loop fx c0 true st0 1 reqs
  | LTls, _ | LShapedTls, _ => []
  | _, NoTunnel => []
  | _, TunPlain =>                                               (* 367-369: handle(ctx, conn, brw) *)
      let '(st1, f0) := handle_connect c0 st0 in
      Seen 0 f0 :: loop fx c0 false st1 1 reqs
  | _, TunTls =>                                                 (* 342-365 *)
      let '(st1, f0) := handle_connect c0 st0 in
      let nconn := upgrade c0 in
      let st2 := if fx then mkSess (secure st1) nconn else st1 in   (* fixes/C05-1: session.setConn *)
      match reqs with
      | [] => [Seen 0 f0]
      | q :: rest =>
          let '(st3, f1) := handle_one nconn true st2 q in        (* 364: handle(ctx, nconn, brw) *)
          Seen 0 f0 :: Seen 1 f1 ::
            if stops q then unseen 2 rest else loop fx c0 true st3 2 rest
      end
  end.

(* ---------------- oracle ---------------- *)

Definition scheme_eqb (a b : scheme) : bool :=
  match a, b with Http, Http | Https, Https => true | _, _ => false end.
Definition host_eqb (a b : host) : bool :=
  match a, b with
  | HAuth, HAuth | HHeader, HHeader | HUrl, HUrl | HEmpty, HEmpty | HOther, HOther => true
  | _, _ => false
  end.
Definition up_eqb (a b : upstream) : bool :=
  match a, b with UpTls, UpTls | UpPlain, UpPlain | UpNone, UpNone | UpBoth, UpBoth => true | _, _ => false end.
Definition kind_eqb (a b : conn_kind) : bool :=
  match a, b with Raw, Raw | Tls, Tls | ShapedRaw, ShapedRaw | ShapedTls, ShapedTls => true | _, _ => false end.
Definition onat_eqb (a b : option nat) : bool :=
  match a, b with Some x, Some y => Nat.eqb x y | None, None => true | _, _ => false end.
Definition obool_eqb (a b : option bool) : bool :=
  match a, b with Some x, Some y => Bool.eqb x y | None, None => true | _, _ => false end.
Definition okind_eqb (a b : option conn_kind) : bool :=
  match a, b with Some x, Some y => kind_eqb x y | None, None => true | _, _ => false end.

Definition rfields_eqb (a b : rfields) : bool :=
  scheme_eqb (f_scheme a) (f_scheme b) && host_eqb (f_host a) (f_host b)
  && Bool.eqb (f_secure a) (f_secure b) && Bool.eqb (f_tls a) (f_tls b)
  && Nat.eqb (f_sess a) (f_sess b) && up_eqb (f_up a) (f_up b)
  && onat_eqb (f_status a) (f_status b) && okind_eqb (f_hk a) (f_hk b)
  && obool_eqb (f_marker a) (f_marker b).

Definition obs_eqb (a b : obs) : bool :=
  match a, b with
  | Seen i f, Seen j g => Nat.eqb i j && rfields_eqb f g
  | Unseen i, Unseen j => Nat.eqb i j
  | _, _ => false
  end.

Fixpoint list_eqb {A} (eqb : A -> A -> bool) (a b : list A) : bool :=
  match a, b with
  | [], [] => true
  | x :: a', y :: b' => eqb x y && list_eqb eqb a' b'
  | _, _ => false
  end.

Definition agrees (fx : bool) (l : listener) (t : tunnel) (reqs : list inner) (os : list obs) : bool :=
  list_eqb obs_eqb (run fx l t reqs) os.

Inductive clause :=
| CScheme | CHost | CSecure | CUpstream | CPlainInsecure | COneSession | CTlsState
| CHijack | CResponse | CPresented | CShape.

(* what the property prescribes as req.URL.Host *)
Definition want_host (f : form) : host :=
  match f with
  | FOrigin => HHeader
  | FAbsHttp | FAbsHttps => HUrl
  | FNoHost => HAuth              (* "the tunnel's authority as host when none is given" *)
  end.

Definition hijack_ok (ctls : bool) (f : rfields) : bool :=
  match f_hk f with Some k => Bool.eqb (is_tls k) ctls | None => false end
  && obool_eqb (f_marker f) (Some true).

(* one request read from a decrypted connection ([ctls] = true) or from a
   tunnel that did not start with a TLS handshake ([ctls] = false) *)
Definition entry_fail (ctls : bool) (q : inner) (f : rfields) : option clause :=
  if negb (Nat.eqb (f_sess f) 0) then Some COneSession
  else if ctls then
    if negb (scheme_eqb (f_scheme f) Https) then Some CScheme
    else if negb (host_eqb (f_host f) (want_host (i_form q))) then Some CHost
    else if negb (f_secure f) then Some CSecure
    else if negb (f_tls f) then Some CTlsState
    else if i_hijack q then (if hijack_ok true f then None else Some CHijack)
    else if negb (up_eqb (f_up f) UpTls) then Some CUpstream
    else if negb (onat_eqb (f_status f) (Some 200)) then Some CResponse
    else None
  else
    if negb (scheme_eqb (f_scheme f) Http) || f_secure f || f_tls f then Some CPlainInsecure
    else if i_hijack q then (if hijack_ok false f then None else Some CHijack)
    else if negb (up_eqb (f_up f) UpPlain) && negb (host_eqb (f_host f) HEmpty) then Some CPlainInsecure
    else None.

Fixpoint inner_fail (ctls : bool) (i : nat) (stopped : bool) (reqs : list inner) (os : list obs)
  : option clause :=
  match reqs, os with
  | [], [] => None
  | q :: rest, Seen j f :: os' =>
      if stopped || negb (Nat.eqb j i) then Some CShape
      else match entry_fail ctls q f with
           | Some c => Some c
           | None => inner_fail ctls (S i) (stops q) rest os'
           end
  | q :: rest, Unseen j :: os' =>
      if negb (Nat.eqb j i) then Some CShape
      else if stopped then inner_fail ctls (S i) true rest os'
      else Some CPresented
  | _, _ => Some CShape
  end.

(* the CONNECT request shares the session *)
Definition connect_fail (f : rfields) : option clause :=
  if negb (Nat.eqb (f_sess f) 0) then Some COneSession
  else if negb (onat_eqb (f_status f) (Some 200)) then Some CResponse
  else None.

Definition c05_fail (l : listener) (t : tunnel) (reqs : list inner) (os : list obs) : option clause :=
  match l, t with
  | LTls, NoTunnel | LShapedTls, NoTunnel => inner_fail true 1 false reqs os
  | LTls, _ | LShapedTls, _ | _, NoTunnel => None
  | _, _ =>
      match os with
      | Seen 0 f0 :: os' =>
          match connect_fail f0 with
          | Some c => Some c
          | None => inner_fail (match t with TunTls => true | _ => false end) 1 false reqs os'
          end
      | _ => Some CShape
      end
  end.

Definition c05_ok (l : listener) (t : tunnel) (reqs : list inner) (os : list obs) : bool :=
  match c05_fail l t reqs os with None => true | Some _ => false end.
