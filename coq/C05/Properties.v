(* C05 — property theorems.  Statements closed by [exact] only.

   [run true l t reqs] is the model of the repaired proxy (fixes/C05-1) for
   one client connection: listener kind l, what the client does inside the
   CONNECT tunnel t, the requests it then sends.  It yields one entry per
   request: [Seen j f] = the request modifier saw request j with fields f
   (j = 0 is the CONNECT), [Unseen j] = it never did.  [decrypted l t] holds
   for a TLS tunnel behind a plain or traffic shaped listener and for a
   transparent TLS listener, bare or wrapped by a traffic shaping listener.
   [f_tls f] = req.TLS is non-nil, complete, and equal (version, cipher
   suite, server name) to what the client negotiated on that connection. *)
From Coq Require Import List Bool Arith.
From Martian.C05 Require Import Model Proofs.
Import ListNotations.

Theorem C05_scheme_https : forall l t reqs j f,
  decrypted l t = true -> 1 <= j -> In (Seen j f) (run true l t reqs) -> f_scheme f = Https.
Proof. exact d_scheme. Qed.
Print Assumptions C05_scheme_https.

(* the host is the one the request names (Host header for origin-form, the
   URL's for absolute-form), whatever the form; guard: it names one *)
Theorem C05_host_defaults_to_authority_partial : forall l t reqs j f,
  decrypted l t = true -> 1 <= j -> In (Seen j f) (run true l t reqs) ->
  exists q, nth_error reqs (j - 1) = Some q /\
            (i_form q <> FNoHost -> f_host f = want_host (i_form q)).
Proof. exact d_host. Qed.
Print Assumptions C05_host_defaults_to_authority_partial.

(* a request that names no host at all (HTTP/1.0, no Host header) is
   presented with an empty host, not with the tunnel's authority (C05-K1) *)
Theorem C05_host_defaults_to_authority_refuted :
  ~ C05_good LPlain TunTls w_nohost (run true LPlain TunTls w_nohost).
Proof. exact host_default_refuted. Qed.
Print Assumptions C05_host_defaults_to_authority_refuted.

Theorem C05_session_secure : forall l t reqs j f,
  decrypted l t = true -> 1 <= j -> In (Seen j f) (run true l t reqs) -> f_secure f = true.
Proof. exact d_secure. Qed.
Print Assumptions C05_session_secure.

(* forwarded to the TLS origin and answered inside the client's TLS session
   (model: the scheme is https; that net/http's transport then dials TLS is
   observed by the harness, not proved) *)
Theorem C05_upstream_tls : forall l t reqs j f,
  decrypted l t = true -> 1 <= j -> In (Seen j f) (run true l t reqs) ->
  f_hk f = None -> f_host f <> HEmpty -> f_up f = UpTls /\ f_status f = Some 200.
Proof. exact d_upstream. Qed.
Print Assumptions C05_upstream_tls.

Theorem C05_tls_state_attached : forall l t reqs j f,
  decrypted l t = true -> 1 <= j -> In (Seen j f) (run true l t reqs) -> f_tls f = true.
Proof. exact d_tls. Qed.
Print Assumptions C05_tls_state_attached.

Theorem C05_hijack_gets_decrypted : forall l t reqs j f,
  decrypted l t = true -> 1 <= j -> In (Seen j f) (run true l t reqs) ->
  forall k, f_hk f = Some k -> is_tls k = true /\ f_marker f = Some true.
Proof. exact d_hijack. Qed.
Print Assumptions C05_hijack_gets_decrypted.

(* traffic that does not begin with a TLS handshake: plain HTTP, insecure
   session, no TLS state, cleartext origin, hijacker gets the raw connection
   (true of the pinned commit as well: both variants); guard: no modifier
   itself calls Session.MarkSecure() *)
Theorem C05_plain_inside_tunnel_insecure : forall fx l reqs j f,
  forallb no_msecure reqs = true ->
  1 <= j -> In (Seen j f) (run fx l TunPlain reqs) ->
  f_scheme f = Http /\ f_secure f = false /\ f_tls f = false /\ f_sess f = 0 /\
  (f_hk f = None -> f_host f <> HEmpty -> f_up f = UpPlain /\ f_status f = Some 200) /\
  (forall k, f_hk f = Some k -> is_tls k = false /\ f_marker f = Some true).
Proof. exact plain_tunnel_requests. Qed.
Print Assumptions C05_plain_inside_tunnel_insecure.

(* the CONNECT request (entry 0) and every request inside its tunnel *)
Theorem C05_one_session : forall fx l t reqs j f,
  In (Seen j f) (run fx l t reqs) -> f_sess f = 0.
Proof. exact one_session. Qed.
Print Assumptions C05_one_session.

(* The oracle evaluated on the real proxy's observations is the property;
   the repaired model satisfies it whenever every request names a host; it
   also says every request is presented until one ends the connection. *)
Theorem C05_oracle_is_the_property : forall l t reqs os,
  c05_ok l t reqs os = true <-> C05_good l t reqs os.
Proof. exact c05_ok_iff. Qed.
Print Assumptions C05_oracle_is_the_property.

(* A PROPFAIL names a clause that does fail: whenever the per-request checker
   returns clause c, the statement of c ([entry_clause_prop]) is false of that
   request's observation; and any reported clause means the property's
   statement is false of the connection's observation. *)
Theorem C05_propfail_names_a_failing_clause : forall ctls q f c,
  entry_fail ctls q f = Some c -> ~ entry_clause_prop c ctls q f.
Proof. exact entry_fail_names_failing_clause. Qed.
Print Assumptions C05_propfail_names_a_failing_clause.

Theorem C05_propfail_is_a_violation : forall l t reqs os c,
  c05_fail l t reqs os = Some c -> ~ C05_good l t reqs os.
Proof. exact not_good_of_fail. Qed.
Print Assumptions C05_propfail_is_a_violation.

Theorem C05_model_satisfies_oracle : forall l t reqs,
  forallb has_host reqs = true -> forallb no_msecure reqs = true -> C05_good l t reqs (run true l t reqs).
Proof. exact fixed_good. Qed.
Print Assumptions C05_model_satisfies_oracle.

(* The pinned commit (run false) violates two clauses. *)
Theorem C05_pinned_commit_tls_state_refuted :
  ~ C05_good LPlain TunTls w_second (run false LPlain TunTls w_second).
Proof. exact asis_tls_state_refuted. Qed.
Print Assumptions C05_pinned_commit_tls_state_refuted.

Theorem C05_pinned_commit_hijack_refuted :
  ~ C05_good LPlain TunTls w_hijack (run false LPlain TunTls w_hijack).
Proof. exact asis_hijack_refuted. Qed.
Print Assumptions C05_pinned_commit_hijack_refuted.

(* Non-vacuity: the modifier of request 1 calls Session.MarkInsecure(),
   request 2 is presented as https / secure all the same *)
Example C05_example :
  run true LShaped TunTls [mkInner FOrigin false MInsecure; mkInner FAbsHttp false MValues; mkInner FAbsHttps true MNone; mkInner FOrigin false MNone]
  = [Seen 0 (mkF Http HAuth false false 0 UpNone (Some 200) None None);
     Seen 1 (mkF Https HHeader true true 0 UpTls (Some 200) None None);
     Seen 2 (mkF Https HUrl true true 0 UpTls (Some 200) None None);
     Seen 3 (mkF Https HUrl true true 0 UpNone None (Some ShapedTls) (Some true));
     Unseen 4].
Proof. vm_compute. reflexivity. Qed.

Example C05_example_hypotheses_met :
  decrypted LShaped TunTls = true /\
  In (Seen 2 (mkF Https HUrl true true 0 UpTls (Some 200) None None))
     (run true LShaped TunTls [mkInner FOrigin false MInsecure; mkInner FAbsHttp false MNone]).
Proof. split; [reflexivity|]. vm_compute. auto. Qed.

(* hypotheses of the cleartext-tunnel theorem are met (modifier of request 1
   calls MarkInsecure, which changes nothing there) *)
Example C05_example_plain_tunnel :
  forallb no_msecure [mkInner FAbsHttp false MInsecure; mkInner FOrigin true MValues] = true /\
  run true LShaped TunPlain [mkInner FAbsHttp false MInsecure; mkInner FOrigin true MValues]
  = [Seen 0 (mkF Http HAuth false false 0 UpNone (Some 200) None None);
     Seen 1 (mkF Http HUrl false false 0 UpPlain (Some 200) None None);
     Seen 2 (mkF Http HHeader false false 0 UpNone None (Some ShapedRaw) (Some true))].
Proof. split; vm_compute; reflexivity. Qed.

(* guards of C05_model_satisfies_oracle / the host clause are met *)
Example C05_example_guards :
  forallb has_host [mkInner FOrigin false MSecure; mkInner FAbsHttps false MNone] = true /\
  forallb no_msecure [mkInner FOrigin false MInsecure; mkInner FAbsHttps true MValues] = true.
Proof. split; reflexivity. Qed.

(* clause attribution: request 2 of the pinned commit has no TLS state *)
Example C05_example_propfail :
  entry_fail true (mkInner FOrigin false MNone)
             (mkF Https HHeader true false 0 UpTls (Some 200) None None) = Some CTlsState.
Proof. reflexivity. Qed.
